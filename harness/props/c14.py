"""C14 — the bipartite vertex cover is a cover and has maximum-matching size."""
from __future__ import annotations

import itertools
from collections import Counter

from lib import Prop, coq_eval, coq_z, coq_list, unsome
import lib

IMPORTS = "From Coq Require Import ZArith List. From PTN Require Import Bip.Model. Import ListNotations."


def _pairs(ps):
    return coq_list(ps, lambda p: f"({coq_z(p[0])}, {coq_z(p[1])})")


# ---- independent references (written from the property text, no model, no library code) ----
def max_matching_bfs(nu, nv, edges):
    """size of a maximum matching by breadth-first augmenting-path search with explicit queues (no recursion, so that graphs
    whose augmenting / alternating paths are many hundred edges long can be judged): greedy start, then one BFS over
    alternating paths per still unmatched U vertex; a vertex whose search fails stays unmatched for good (Berge)"""
    adj = [[] for _ in range(nu)]
    for (u, v) in sorted(set(map(tuple, edges))):
        adj[u].append(v)
    mu, mv = [-1] * nu, [-1] * nv
    for u in range(nu):
        for v in adj[u]:
            if mv[v] == -1:
                mu[u], mv[v] = v, u
                break
    for s in range(nu):
        if mu[s] != -1:
            continue
        prev_u = {s: None}          # U vertex -> V vertex it was reached from
        via = {}                    # V vertex -> U vertex it was reached from
        queue, end = [s], None
        while queue and end is None:
            u = queue.pop(0)
            for v in adj[u]:
                if v in via:
                    continue
                via[v] = u
                if mv[v] == -1:
                    end = v
                    break
                prev_u[mv[v]] = v
                queue.append(mv[v])
        while end is not None:      # flip the path back to s
            u = via[end]
            nxt = prev_u[u]
            mu[u], mv[end] = end, u
            end = nxt
    return sum(1 for u in range(nu) if mu[u] != -1)


def kuhn_max_matching(nu, nv, edges):
    """size of a maximum matching by Kuhn's augmenting-path algorithm on the plain edge set (graphs with a side beyond
    BIG_SIDE: the queue-based search above, Kuhn's recursion is one frame per matched pair of the path)"""
    if max(nu, nv) > 64:
        return max_matching_bfs(nu, nv, edges)
    adj = [[] for _ in range(nu)]
    for (u, v) in set(map(tuple, edges)):
        adj[u].append(v)
    owner = [-1] * nv

    def try_u(u, seen):
        for v in adj[u]:
            if v in seen:
                continue
            seen.add(v)
            if owner[v] == -1 or try_u(owner[v], seen):
                owner[v] = u
                return True
        return False
    return sum(1 for u in range(nu) if try_u(u, set()))


def min_cover_size_enum(nu, nv, edges):
    """size of a minimum vertex cover by enumeration over the subsets of the SMALLER side (the other side is then forced:
    exactly the far endpoints of the edges whose near endpoint is left out); bit masks, exact"""
    es = set(map(tuple, edges))
    if nv < nu:
        nu, nv, es = nv, nu, {(v, u) for (u, v) in es}
    nbr = [0] * nu
    for (u, v) in es:
        nbr[u] |= 1 << v
    best = nu + nv
    for mask in range(1 << nu):
        need = 0
        for u in range(nu):
            if not (mask >> u) & 1:
                need |= nbr[u]
        best = min(best, bin(mask).count("1") + bin(need).count("1"))
    return best


def rect_shapes_oracle_only(thorough):
    """rectangular shapes whose EVERY edge set is run against the oracle only (no model evaluation): the shapes with a side
    of 4 or 5 that the tied enumeration of the quick tier does not reach; thorough adds 2x6, 6x2, 3x5, 5x3"""
    shapes = [(1, 4), (4, 1), (2, 4), (4, 2), (3, 4), (4, 3), (2, 5), (5, 2)]
    if thorough:
        # sides <= 4 are enumerated WITH the tie in the thorough tier already
        shapes = [(2, 5), (5, 2), (2, 6), (6, 2), (3, 5), (5, 3)]
    return shapes


BIG_SIDE = 64      # above this side length the observation is recorded in compact form (non-empty adjacency lists only)


def compress_graph(nu, nv, edges):
    """the graph without its isolated vertices, the others renumbered in ascending order: (nu', nv', edges', umap, vmap).
    Isolated vertices take part in no edge, hence in no matching, and a minimum cover never needs them: maximum matching
    size and minimum cover size of the compressed graph are those of the original one (used by the reference computations
    on graphs with very many, almost all isolated, vertices)"""
    es = sorted(set(map(tuple, edges)))
    us = sorted({u for u, _ in es})
    vs = sorted({v for _, v in es})
    um = {u: i for i, u in enumerate(us)}
    vm = {v: i for i, v in enumerate(vs)}
    return len(us), len(vs), [(um[u], vm[v]) for (u, v) in es], um, vm


def _adj_norm(full, nz, length):
    """observed adjacency structure as (length, {vertex: list} of the non-empty lists), from either recorded form"""
    if full is not None:
        return len(full), {i: list(a) for i, a in enumerate(full) if a}
    return length, {int(i): list(a) for i, a in nz}


class C14(Prop):
    id = "C14"
    title = "bipartite vertex cover"
    design_ref = "DESIGN.md section 5 / C14"
    rule = ("graph cases: every edge set on sides <= 3x3 (quick) / <= 4x4 (thorough) in row-major order, plus seeded random graphs "
            "up to 8x8 with shuffled edge order, duplicate edge entries and isolated vertices, plus 'deficient' random graphs "
            "(k U vertices crowded on fewer than k V vertices, so that some U vertex stays unmatched and the Koenig exploration "
            "walks alternating paths; half of them wide num_v > num_u, else tall/square; random vertex numbering; sides up to 9x13); "
            "oracle-only graph cases (flag notie, the model is not evaluated): every edge set of the rectangular shapes "
            "1x4 4x1 2x4 4x2 3x4 4x3 2x5 5x2 (quick) / 2x5 5x2 2x6 6x2 3x5 5x3 (thorough), and the random + deficient families "
            "on sides up to 14x20, and LARGE-INDEX sparse graphs (family large_index): 1..~20 edge entries on a graph one side of which has "
            "B*m + a few vertices, B a power of two (2^4 .. 2^17 quick, .. 2^20 thorough, 2^16 most often), a power of ten or arbitrary, "
            "almost all vertices isolated; endpoints near 0, near the top of the range and near multiples of B, plus edges that alias an "
            "earlier entry under a packed / truncated / decimal-concatenated edge key ((u,v) ~ (u-+d, v+-d*B), (u, v+-d*B)), plus exact "
            "duplicates; 3/4 with the many vertices on the V side, 1/4 on the U side (smaller: up to ~2^11 quick, 2^13, rarely 2^16 thorough); "
            "their observation is recorded compactly (list counts + non-empty adjacency lists) and the reference sizes are computed on "
            "the graph without its isolated vertices; LONG SERIAL ALTERNATING CHAINS (family chain, 8 quick / 40 thorough, oracle only): 1-3 disjoint "
            "ladders u_i-v_i, u_i-v_{i+1} with 65..900 rungs in all (bands 496-700, 701-900, 201-495, 65-200, each twice in every quick run), each closed by a "
            "surplus U vertex on its first V vertex (the longest ladder 90%, the others 60%: V saturated, that U vertex unmatched, the Koenig exploration must walk through all matched "
            "pairs of the ladder one after the other) or by a surplus V vertex; V and / or U randomly renumbered, edge entries shuffled, duplicate "
            "entries, isolated vertices; run under the interpreter's default recursion limit from the harness' shallow call stack (limit recorded); "
            "any exception (RecursionError included) is a violation: the property promises a cover for every bipartite graph, and the reference "
            "maximum matching for these graphs is a queue-based augmenting-path search without recursion; koenig cases: a random valid "
            "(not necessarily maximum) matching handed to _explore_alternating_paths; malformed cases: sides < 1, out-of-range / "
            "negative endpoints (both sides must reject). non-trivial = at least one edge; distinct by case content")
    clauses = [
        ("F", "constructor: adjacency lists = the edge set, duplicates suppressed, both directions consistent; the model accepts exactly the "
              "inputs that pass the constructor's asserts (C14_constructor_adjacency, C14_constructor_accepts, C14_constructor_rejects)"),
        ("F", "Koenig construction for ANY matching list handed to it: both returned lists contain only existing vertices, each once "
              "(C14_mvc_in_range), and touch every edge as soon as the matching uses every U vertex at most once (C14_mvc_is_cover); "
              "exploration fuel always suffices (C14_koenig_fuel_suffices)"),
        ("F", "Hopcroft-Karp: BFS/DFS/outer-loop fuel always suffices (C14_hk_fuel_suffices); every returned pair is an edge and no vertex "
              "is used twice (C14_hk_valid_matching); no augmenting path when the outer loop stops (C14_hk_no_augmenting_path)"),
        ("F", "weak duality and optimality from equal sizes, pure list combinatorics (C14_weak_duality, C14_equal_sizes_optimal)"),
        ("F", "|u_cover| + |v_cover| = |matching| for every accepted input: the code's own assert never fails (C14_mvc_size_eq_matching); "
              "all clauses together incl. minimality of the cover and maximality of the matching: C14_mvc_main"),
        ("F", "the in-Coq equality tests used by the correspondence are sound (C14_all_eqb_sound, C14_koenig_eqb_sound)"),
        ("V", "model = code: exact differential comparison of adjacency lists, matching (order included), both cover lists, outcome of the "
              "size assert and the per-start visit orders of _explore_alternating_paths, on every explored graph that is not flagged oracle-only "
              "(distribution counter tie:model); rejected inputs on both sides. The oracle-only graphs (tie:oracle_only) are judged by the property "
              "oracle alone: cover touches every edge, vertices exist, size = Kuhn maximum matching = exact minimum cover by enumeration; "
              "this includes the large-index sparse graphs (vertex indices up to 2^17 quick / 2^20 thorough) and the long ladder graphs (alternating "
              "paths through up to 900 matched pairs: the implementation's recursive searches must get through them under the default recursion "
              "limit), which the model is never evaluated on"),
    ]
    trusted_base = ["inputs are Python ints (sides) and a sequence of int pairs (the documented domain of BipartiteGraph)",
                    "set(range(n)) is iterated in ascending order by CPython for small ints; irrelevant for the result "
                    "(both returned lists are sorted) and the per-start visited lists are fresh for every start vertex"]
    assumptions = ["num_u >= 1, num_v >= 1, 0 <= u < num_u and 0 <= v < num_v for every edge entry (exactly the constructor's asserts)"]

    # -------------------------------------------------------------------------------
    def generate(self, ctx, stream, budget_scale=1):
        rng = ctx.rng(stream)
        cases = []
        if stream == "main":
            cases.append({"kind": "graph", "nu": 1, "nv": 1, "edges": []})
            maxside = 4 if ctx.thorough() else 3
            for nu in range(1, maxside + 1):
                for nv in range(1, maxside + 1):
                    alle = [(u, v) for u in range(nu) for v in range(nv)]
                    for mask in range(1 << len(alle)):
                        edges = [list(e) for i, e in enumerate(alle) if (mask >> i) & 1]
                        cases.append({"kind": "graph", "nu": nu, "nv": nv, "edges": edges})
            # every edge set of further RECTANGULAR shapes (wide and tall), oracle only (the model is not evaluated on them)
            for (nu, nv) in rect_shapes_oracle_only(ctx.thorough()):
                alle = [(u, v) for u in range(nu) for v in range(nv)]
                for mask in range(1 << len(alle)):
                    edges = [list(e) for i, e in enumerate(alle) if (mask >> i) & 1]
                    cases.append({"kind": "graph", "nu": nu, "nv": nv, "edges": edges, "notie": True})
        nrand = ctx.scale(400, 4000) * budget_scale
        for _ in range(nrand):
            cases.append(self._random_graph(rng))
        # graphs with a DEFICIENT matching on the U side (several U vertices crowd on fewer V vertices), so that the Koenig
        # exploration really starts somewhere and walks alternating paths; wide (num_v > num_u), tall and square, random
        # vertex numbering, sides up to 9 x 13; tied to the model
        rng2 = ctx.rng(stream + ":rect")     # own stream: the older families keep their cases per seed
        for _ in range(ctx.scale(150, 1500) * budget_scale):
            cases.append(self._random_deficient_graph(rng2, 9, 4))
        # the same two random families on larger sides (up to 14 x 20), oracle only
        for _ in range(ctx.scale(1500, 15000) * budget_scale):
            c = self._random_deficient_graph(rng2, 14, 6) if rng2.random() < 0.7 else self._random_graph(rng2, 14, 20)
            c["notie"] = True
            cases.append(c)
        # graphs that need MANY Hopcroft-Karp phases: disjoint unions of paths P_k whose greedy first phase
        # leaves a single augmenting path of length 2k+1 (P_k is completed only in phase k+1), in several
        # vertex numberings / edge orders, plus isolated vertices and duplicate entries
        for K in ([2, 3, 4, 4, 5] if not ctx.thorough() else [2, 3, 4, 4, 5, 5, 6]) * (1 if stream == "main" else budget_scale):
            edges, nu, nv = [], 0, 0
            for k in range(1, K + 1):
                a = [nu + k] + [nu + i for i in range(k)]
                b = [None] + [nv + i for i in range(k + 1)]
                for i in range(1, k + 1):
                    edges.append([a[i], b[i]])
                    edges.append([a[i], b[i + 1]])
                edges.append([a[0], b[1]])
                nu += k + 1
                nv += k + 1
            cases.append({"kind": "graph", "nu": nu, "nv": nv, "edges": [list(e) for e in edges]})
            # a relabelled / reordered copy with an isolated vertex on each side and a duplicate entry
            pu = list(range(nu)); pv = list(range(nv))
            rng.shuffle(pu); rng.shuffle(pv)
            e2 = [[pu[u], pv[v]] for u, v in edges]
            rng.shuffle(e2)
            cases.append({"kind": "graph", "nu": nu + 1, "nv": nv + 1, "edges": e2 + [list(e2[0])]})
        # LARGE-INDEX sparse graphs (oracle only): one side has far more vertices than there are edges (almost all isolated),
        # so that vertex indices pass 2^8, 2^16, 10^k, ... ; few edges, their endpoints near 0, near the top of the range and
        # near multiples of a radix B, together with edges that would ALIAS an earlier one under a packed / truncated /
        # concatenated edge key ((u, v) and (u -+ d, v +- d*B), (u, v +- d*B), decimal concatenation split elsewhere);
        # both orientations (many V vertices: frequent and cheap, many U vertices: rarer and smaller, the BFS visits all of them)
        rng3 = ctx.rng(stream + ":large")
        for _ in range(ctx.scale(260, 2600) * budget_scale):
            cases.append(self._random_large_index_graph(rng3, ctx.thorough()))
        # LONG SERIAL ALTERNATING CHAINS (oracle only): ladders  u_i - v_i, u_i - v_{i+1}  closed by one more U vertex on the first
        # V vertex, so that a maximum matching saturates V, one U vertex stays unmatched and the Koenig exploration has to walk
        # from it through ALL matched pairs one after the other (depth of the search = number of pairs, 65 .. 900; every band
        # in every run); called as a user would: default recursion limit, shallow calling stack
        rng4 = ctx.rng(stream + ":chain")
        for k in range(ctx.scale(8, 40) * budget_scale):
            cases.append(self._chain_graph(rng4, k))
        nk = ctx.scale(150, 1500) * budget_scale
        for _ in range(nk):
            c = self._random_graph(rng)
            es = sorted(set(map(tuple, c["edges"])))
            rng.shuffle(es)
            usedu, usedv, m = set(), set(), []
            for (u, v) in es:
                if u not in usedu and v not in usedv and rng.random() < 0.6:
                    usedu.add(u)
                    usedv.add(v)
                    m.append([u, v])
            rng.shuffle(m)
            c["kind"] = "koenig"
            c["matching"] = m
            cases.append(c)
        nmal = ctx.scale(30, 200) * (1 if stream == "main" else budget_scale)
        for _ in range(nmal):
            c = self._random_graph(rng)
            c["kind"] = "malformed"
            how = rng.choice(["nu0", "nv0", "u_hi", "v_hi", "u_neg", "v_neg", "neg_side"])
            if how == "nu0":
                c["nu"], c["edges"] = 0, []
            elif how == "nv0":
                c["nv"], c["edges"] = 0, []
            elif how == "neg_side":
                c["nu"], c["edges"] = -rng.randrange(1, 4), []
            else:
                bad = {"u_hi": [c["nu"] + rng.randrange(0, 3), rng.randrange(c["nv"])],
                       "v_hi": [rng.randrange(c["nu"]), c["nv"] + rng.randrange(0, 3)],
                       "u_neg": [-rng.randrange(1, 3), rng.randrange(c["nv"])],
                       "v_neg": [rng.randrange(c["nu"]), -rng.randrange(1, 3)]}[how]
                c["edges"].insert(rng.randrange(len(c["edges"]) + 1), bad)
            c["how"] = how
            cases.append(c)
        return cases

    @staticmethod
    def _random_deficient_graph(rng, maxu, widen):
        nu = rng.randrange(2, maxu + 1)
        shape = rng.random()
        if shape < 0.5:       # wide: more V than U vertices
            nv = nu + rng.randrange(1, widen + 1)
        elif shape < 0.75:    # tall or square
            nv = rng.randrange(1, nu + 1)
        else:
            nv = rng.randrange(1, maxu + widen + 1)
        pu = list(range(nu)); pv = list(range(nv))
        if rng.random() < 0.8:
            rng.shuffle(pu)
        if rng.random() < 0.8:
            rng.shuffle(pv)
        k = rng.randrange(2, nu + 1)                 # crowded U vertices ...
        h = rng.randrange(1, min(k, nv + 1))         # ... on fewer hub V vertices: at least k - h of them stay unmatched
        crowded, free = pu[:k], pu[k:]
        hubs, rest = pv[:h], pv[h:]
        edges = []
        for u in crowded:
            for v in rng.sample(hubs, rng.randrange(1, min(h, 3) + 1)):
                edges.append([u, v])
        for u in free:
            pool = rest if (rest and rng.random() < 0.7) else pv
            for v in rng.sample(pool, rng.randrange(1, min(len(pool), 3) + 1)):
                edges.append([u, v])
            if rng.random() < 0.3:                   # lets alternating paths leave the crowded part
                edges.append([u, rng.choice(hubs)])
        if rng.random() < 0.3:                       # a few arbitrary extra edges
            for _ in range(rng.randrange(1, 4)):
                edges.append([rng.randrange(nu), rng.randrange(nv)])
        rng.shuffle(edges)
        if rng.random() < 0.3:                       # explicit duplicates
            for _ in range(rng.randrange(1, 3)):
                edges.insert(rng.randrange(len(edges) + 1), list(rng.choice(edges)))
        return {"kind": "graph", "nu": nu, "nv": nv, "edges": edges, "family": "deficient"}

    CHAIN_BANDS = [(496, 700), (701, 900), (201, 495), (65, 200)]
    CHAIN_MAX = 900      # matched pairs on one alternating path (one Python frame per pair in a recursive search)

    @staticmethod
    def _chain_graph(rng, k):
        """1-3 disjoint ladders with `total` rungs in all (the longest one first); per ladder one surplus vertex on the U side
        (mostly) or on the V side; the vertex numbering of V / of U, the order of the edge entries, duplicate entries and
        isolated vertices are varied"""
        lo, hi = C14.CHAIN_BANDS[k % len(C14.CHAIN_BANDS)]
        total = rng.randrange(lo, hi + 1)
        parts = [total]
        if rng.random() < 0.3:
            rest = rng.randrange(1, max(2, total // 4))
            parts = [total - rest, rest]
            if rng.random() < 0.4 and rest > 2:
                r2 = rng.randrange(1, rest)
                parts = [total - rest, rest - r2, r2]
        edges, nu, nv, styles = [], 0, 0, []
        for j, n in enumerate(parts):
            # (the longest ladder carries the surplus vertex on the U side 9 times of 10: that is the one with the deep search)
            style = "surplus_u" if rng.random() < (0.9 if j == 0 else 0.6) else "surplus_v"
            styles.append(style)
            for i in range(n):
                edges.append((nu + i, nv + i))
                if i + 1 < n:
                    edges.append((nu + i, nv + i + 1))
            if style == "surplus_u":      # u_n - v_0: V saturated, one U vertex unmatched, the search runs through n pairs
                edges.append((nu + n, nv))
                nu, nv = nu + n + 1, nv + n
            else:                         # u_{n-1} - v_n: a path, every U vertex matched
                edges.append((nu + n - 1, nv + n))
                nu, nv = nu + n, nv + n + 1
        iso_u = rng.choice([0, 0, 1, 3])
        iso_v = rng.choice([0, 0, 1, 3])
        nu, nv = nu + iso_u, nv + iso_v
        relabel = []
        if rng.random() < 0.5:
            pv = list(range(nv)); rng.shuffle(pv)
            edges = [(u, pv[v]) for (u, v) in edges]
            relabel.append("V")
        if rng.random() < 0.3:
            pu = list(range(nu)); rng.shuffle(pu)
            edges = [(pu[u], v) for (u, v) in edges]
            relabel.append("U")
        if rng.random() < 0.3:
            rng.shuffle(edges)
            relabel.append("edge_order")
        if rng.random() < 0.3:
            for _ in range(rng.randrange(1, 4)):
                edges.insert(rng.randrange(len(edges) + 1), rng.choice(edges))
        return {"kind": "graph", "nu": nu, "nv": nv, "edges": [list(e) for e in edges], "notie": True, "family": "chain",
                "rungs": parts, "styles": styles, "relabelled": relabel}

    @staticmethod
    def _random_large_index_graph(rng, thorough):
        style = rng.random()
        if style < 0.6:       # radix: a power of two ...
            B = 1 << rng.choice([4, 6, 8, 8, 10, 12, 15, 16, 16, 16, 16, 16])
            if rng.random() < (0.12 if thorough else 0.06):
                B = 1 << rng.choice([17, 17, 17, 18, 20] if thorough else [17])
        elif style < 0.8:     # ... a power of ten ...
            B = 10 ** rng.randrange(1, 6)
        else:                 # ... or anything
            B = rng.randrange(3, 5000)
        over_v = rng.random() < 0.75          # the side whose indices pass the radix (generated as V, transposed at the end)
        if over_v:
            cap = (1 << 20) if thorough else (1 << 17)
        else:                                 # many U vertices are expensive: the BFS of every phase queues each unmatched one
            cap = ((1 << 16) if rng.random() < 0.05 else (1 << 13)) if thorough else (1 << 11)
        B = min(B, cap)
        mult = rng.choice([1, 1, 2, 3]) if B <= ((1 << 12) if over_v else (1 << 9)) else 1
        nbig = B * mult + rng.choice([1, 1, 2, 9, rng.randrange(1, min(B, 64) + 1)])
        nsmall = rng.randrange(1, 13) if rng.random() < 0.8 else rng.randrange(13, 300)

        def pick_big():
            r = rng.random()
            if r < 0.3:
                return rng.randrange(min(nbig, 8))
            if r < 0.45:
                return nbig - 1 - rng.randrange(min(nbig, 8))
            if r < 0.85:
                x = B * rng.randrange(1, nbig // B + 1) + rng.randrange(-3, 9)
                return min(max(x, 0), nbig - 1)
            return rng.randrange(nbig)

        def pick_small():
            return rng.randrange(min(nsmall, 4)) if rng.random() < 0.5 else rng.randrange(nsmall)

        edges = [(pick_small(), pick_big()) for _ in range(rng.randrange(1, 9))]
        for (u, v) in list(edges):
            if rng.random() < 0.6:
                for _ in range(6):            # an alias of (u, v) under a key  u * B + v,  (u << k) | v,  v mod B, ...
                    d = rng.choice([1, 1, 1, 2, 3])
                    sgn = rng.choice([1, -1])
                    u2, v2 = u + rng.choice([0, -sgn * d, -sgn * d]), v + sgn * d * B
                    if 0 <= u2 < nsmall and 0 <= v2 < nbig:
                        edges.append((u2, v2))
                        break
            if rng.random() < 0.2:            # an alias under the concatenation of the decimal spellings
                txt = str(u) + str(v)
                cuts = [i for i in range(1, len(txt)) if i != len(str(u)) and txt[i] != "0"
                        and int(txt[:i]) < nsmall and int(txt[i:]) < nbig]
                if cuts:
                    i = rng.choice(cuts)
                    edges.append((int(txt[:i]), int(txt[i:])))
        rng.shuffle(edges)
        if rng.random() < 0.3:                # explicit duplicates
            for _ in range(rng.randrange(1, 3)):
                edges.insert(rng.randrange(len(edges) + 1), rng.choice(edges))
        if over_v:
            nu, nv, es = nsmall, nbig, [[u, v] for (u, v) in edges]
        else:
            nu, nv, es = nbig, nsmall, [[v, u] for (u, v) in edges]
        return {"kind": "graph", "nu": nu, "nv": nv, "edges": es, "notie": True, "family": "large_index", "radix": B}

    @staticmethod
    def _random_graph(rng, maxu=8, maxv=8):
        nu = rng.randrange(1, maxu + 1)
        nv = rng.randrange(1, maxv + 1)
        style = rng.random()
        if style < 0.25:      # sparse, many isolated vertices
            ne = rng.randrange(0, max(nu, nv) + 1)
        elif style < 0.75:
            ne = rng.randrange(0, 2 * (nu + nv) + 1)
        else:                 # dense
            ne = rng.randrange(nu * nv // 2, nu * nv + 3)
        # restrict to a sub-rectangle sometimes so that whole ranges of vertices stay isolated
        ru = nu if rng.random() < 0.6 else rng.randrange(1, nu + 1)
        rv = nv if rng.random() < 0.6 else rng.randrange(1, nv + 1)
        edges = [[rng.randrange(ru), rng.randrange(rv)] for _ in range(ne)]
        if edges and rng.random() < 0.5:    # explicit duplicates
            for _ in range(rng.randrange(1, 4)):
                edges.insert(rng.randrange(len(edges) + 1), list(rng.choice(edges)))
        return {"kind": "graph", "nu": nu, "nv": nv, "edges": edges}

    def nontrivial(self, case):
        return len(case["edges"]) >= 1

    def distribution(self, cases):
        c = Counter()
        for x in cases:
            c["kind:" + x["kind"]] += 1
            if max(x["nu"], x["nv"]) > BIG_SIDE:
                k = max(x["nu"], x["nv"]).bit_length() - 1
                c["sides:large(2^%d <= max side < 2^%d)" % (k, k + 1)] += 1
                c["large:" + ("many_V" if x["nv"] >= x["nu"] else "many_U")] += 1
            else:
                c["sides:%dx%d" % (max(x["nu"], 0), max(x["nv"], 0))] += 1
            c["tie:" + ("oracle_only" if x.get("notie") else "model")] += 1
            if x.get("family"):
                c["family:" + x["family"]] += 1
            if x.get("family") == "chain":
                lo = next(lo for lo, hi in C14.CHAIN_BANDS if lo <= sum(x["rungs"]) <= hi)
                c["chain:total_rungs>=%d" % lo] += 1
                c["chain:longest_ladder>=%d" % max([lo for lo, hi in C14.CHAIN_BANDS if x["rungs"][0] >= lo], default=0)] += 1
                c["chain:longest_ladder_with_unmatched_U_vertex"] += x["styles"][0] == "surplus_u"
                for r in x["relabelled"]:
                    c["chain:relabelled_" + r] += 1
            if x["kind"] != "malformed":
                c["shape:" + ("wide" if x["nv"] > x["nu"] else "tall" if x["nv"] < x["nu"] else "square")] += 1
            es = [tuple(e) for e in x["edges"]]
            if x["kind"] == "graph" and x["nu"] >= 1 and x["nv"] >= 1:
                cu, cv, ces, _, _ = compress_graph(x["nu"], x["nv"], es)
                if kuhn_max_matching(cu, cv, ces) < x["nu"]:
                    c["with_unmatched_u_vertex"] += 1
            if len(set(es)) < len(es):
                c["with_duplicate_entries"] += 1
            if x["kind"] != "malformed" and x["nu"] >= 1 and x["nv"] >= 1:
                if len({u for u, _ in es}) < x["nu"] or len({v for _, v in es}) < x["nv"]:
                    c["with_isolated_vertices"] += 1
        return dict(c)

    # -------------------------------------------------------------------------------
    def impl(self, ctx, cases):
        from pytreenet.ttno import bipartite_graph as bg
        out = []
        for c in cases:
            ob = {}
            try:
                edges = [tuple(e) for e in c["edges"]]
                try:
                    g = bg.BipartiteGraph(c["nu"], c["nv"], edges)
                except Exception as e:  # noqa
                    ob["ctor_exception"] = type(e).__name__
                    out.append(ob)
                    continue
                big = max(c["nu"], c["nv"]) > BIG_SIDE and c["kind"] == "graph" and c.get("notie")
                if c.get("family") == "chain":
                    import sys
                    ob["recursion_limit"] = sys.getrecursionlimit()
                if big:     # compact record: lengths and the non-empty lists only; no exploration traces (oracle-only case)
                    snap = lambda adj: [[i, list(a)] for i, a in enumerate(adj) if a]
                    ob["adj_len"] = [len(g.adj_u), len(g.adj_v)]
                    ob["adj_u_nz"], ob["adj_v_nz"] = snap(g.adj_u), snap(g.adj_v)
                else:
                    ob["adj_u"] = [list(a) for a in g.adj_u]
                    ob["adj_v"] = [list(a) for a in g.adj_v]
                if c["kind"] == "koenig":
                    matching = [tuple(e) for e in c["matching"]]
                else:
                    matching = bg.HopcroftKarp(g)()
                    ob["matching"] = [list(p) for p in matching]
                    try:
                        uc, vc = bg.minimum_vertex_cover(g)
                        ob["u_cover"], ob["v_cover"] = list(uc), list(vc)
                    except AssertionError:
                        ob["mvc_assert"] = True
                    if big:
                        ob["adj_after_nz"] = [[len(g.adj_u), len(g.adj_v)], snap(g.adj_u), snap(g.adj_v)]
                        out.append(ob)
                        continue
                    ob["adj_after"] = [[list(a) for a in g.adj_u], [list(a) for a in g.adj_v]]
                # the exploration exactly as minimum_vertex_cover calls it: fresh lists per unmatched start vertex
                matched = {u for (u, _) in matching}
                traces = []
                for u in range(c["nu"]):
                    if u in matched:
                        continue
                    uvis, vvis = [], []
                    bg._explore_alternating_paths(u, g, matching, uvis, vvis)
                    traces.append([u, list(uvis), list(vvis)])
                ob["traces"] = traces
            except Exception as e:  # noqa
                import traceback
                ob["exception"] = f"{type(e).__name__}: {e}"
                ob["tb"] = traceback.format_exc()[-1200:]
            out.append(ob)
        return out

    # -------------------------------------------------------------------------------
    # The model value is compared with the observation INSIDE Coq (all_eqb / koenig_eqb, proved sound in
    # ModelProofs.all_eqb_eq) and only a boolean is printed: lib.coq_eval reads a shard's stdout only after
    # coqc has exited, so a shard printing more than the pipe buffer would block.  Cases whose boolean is
    # false (or whose observation cannot be written as a literal) are re-evaluated in full for the message.
    @staticmethod
    def _zl(xs):
        return coq_list(xs, coq_z)

    def _expected(self, c, ob):
        """the observation as a Coq literal of the type of run_all / run_koenig_traces; None if it has no such form"""
        if "exception" in ob:
            return None
        if "ctor_exception" in ob:
            return "None"
        ll = lambda xss: coq_list(xss, self._zl)
        tr = coq_list(ob["traces"], lambda t: f"({coq_z(t[0])}, {self._zl(t[1])}, {self._zl(t[2])})")
        if c["kind"] == "koenig":
            return tr
        if ob.get("mvc_assert"):
            return None
        return (f"Some ({ll(ob['adj_u'])}, {ll(ob['adj_v'])}, Some ({_pairs(ob['matching'])}, {self._zl(ob['u_cover'])}, "
                f"{self._zl(ob['v_cover'])}, true, {tr}))")

    def _full_expr(self, c):
        a = f"{coq_z(c['nu'])} {coq_z(c['nv'])} {_pairs(c['edges'])}"
        if c["kind"] == "koenig":
            return f"(run_all {a}, run_koenig_traces {a} {_pairs(c['matching'])})"
        return f"run_all {a}"

    FULL_LIMIT = 60

    def model(self, ctx, cases, obs):
        exprs, idx = [], []
        out = [None] * len(cases)
        full = []
        for i, (c, ob) in enumerate(zip(cases, obs)):
            if isinstance(ob, lib.SkipCase) or c.get("notie"):
                continue        # oracle-only case: no model value, the tie is skipped (lib.run_check: mo is None)
            exp = self._expected(c, ob)
            a = f"{coq_z(c['nu'])} {coq_z(c['nv'])} {_pairs(c['edges'])}"
            if exp is None:
                full.append(i)
            elif c["kind"] == "koenig":
                # traces equal, and the model's cover is (U minus visited, sorted visited V) of the implementation's traces
                zu = {u for t in ob["traces"] for u in t[1]}
                zv = {v for t in ob["traces"] for v in t[2]}
                cu = sorted(set(range(c["nu"])) - zu)
                cv = sorted(zv)
                exprs.append(f"koenig_eqb (run_koenig_traces {a} {_pairs(c['matching'])}) "
                             f"(Some (Some (({self._zl(cu)}, {self._zl(cv)}), {exp})))")
                idx.append(i)
            else:
                exprs.append(f"all_eqb (run_all {a}) ({exp})")
                idx.append(i)
        vals = coq_eval(ctx, IMPORTS, exprs, shard=ctx.scale(100, 500))
        for i, v in zip(idx, vals):
            if v is True:
                out[i] = "EQ"
            elif isinstance(v, BaseException):
                out[i] = v
            else:
                full.append(i)
        full.sort()
        for i in full[self.FULL_LIMIT:]:
            out[i] = "NEQ"
        sel = full[:self.FULL_LIMIT]
        fvals = coq_eval(ctx, IMPORTS, [self._full_expr(cases[i]) for i in sel], shard=5)
        for i, v in zip(sel, fvals):
            # Coq `None` (constructor assert) must not be mistaken for "no model for this case"
            out[i] = "REJECT" if v is None else v
        return out

    @staticmethod
    def _l(x):
        """parsed Coq list-of-lists / tuples -> nested python lists"""
        if isinstance(x, (list, tuple)):
            return [C14._l(y) for y in x]
        return x

    def compare(self, case, ob, mo):
        if mo == "EQ":
            return None
        if mo == "NEQ":
            return "model and implementation differ (details only for the first %d differing cases)" % self.FULL_LIMIT
        if "exception" in ob:
            return f"implementation raised {ob['exception']} where the model runs"
        kt = None
        if case["kind"] == "koenig" and mo != "REJECT":
            mo, kt = mo
        if mo == "REJECT" or mo is None:
            return None if "ctor_exception" in ob else "model rejects the input (constructor assert), the implementation accepts it"
        if "ctor_exception" in ob:
            return f"implementation rejects the input ({ob['ctor_exception']}), the model accepts it"
        adj_u, adj_v, res = unsome(mo)
        if self._l(adj_u) != ob["adj_u"]:
            return f"adj_u: impl {ob['adj_u']} model {self._l(adj_u)}"
        if self._l(adj_v) != ob["adj_v"]:
            return f"adj_v: impl {ob['adj_v']} model {self._l(adj_v)}"
        if res is None:
            return "model ran out of fuel"
        matching, uc, vc, ok, traces = unsome(res)
        if case["kind"] == "koenig":
            kt = unsome(kt)
            if kt is None or unsome(kt) is None:
                return "koenig model rejected the input / ran out of fuel"
            kcu, kcv, ktr = unsome(kt)      # Coq prints ((a, b), c) as (a, b, c)
            if self._l(ktr) != ob["traces"]:
                return f"exploration traces for the supplied matching: impl {ob['traces']} model {self._l(ktr)}"
            zu = {u for t in ob["traces"] for u in t[1]}
            zv = {v for t in ob["traces"] for v in t[2]}
            if self._l(kcu) != sorted(set(range(case["nu"])) - zu) or self._l(kcv) != sorted(zv):
                return "koenig cover differs from (U minus visited, visited V) of the implementation's exploration"
            return None
        if self._l(matching) != ob["matching"]:
            return f"matching: impl {ob['matching']} model {self._l(matching)}"
        if ob.get("mvc_assert"):
            return None if not ok else "implementation's size assert failed, the model's holds"
        if not ok:
            return "model's size assert fails, the implementation's holds"
        if self._l(uc) != ob["u_cover"] or self._l(vc) != ob["v_cover"]:
            return f"cover: impl {ob['u_cover']},{ob['v_cover']} model {self._l(uc)},{self._l(vc)}"
        if self._l(traces) != ob["traces"]:
            return f"exploration traces: impl {ob['traces']} model {self._l(traces)}"
        return None

    # -------------------------------------------------------------------------------
    def oracle(self, case, ob):
        nu, nv = case["nu"], case["nv"]
        edges = [tuple(e) for e in case["edges"]]
        if case["kind"] == "malformed":
            if "ctor_exception" not in ob:
                return f"malformed input ({case.get('how')}) accepted by BipartiteGraph"
            return None
        if "ctor_exception" in ob:
            return f"valid input rejected by BipartiteGraph ({ob['ctor_exception']})"
        if "exception" in ob:
            if case.get("family") == "chain":
                if ob.get("recursion_limit", 1000) < 1000 and "RecursionError" in ob["exception"]:
                    return None      # the process runs below the interpreter's default recursion limit: nothing can be said
                return (f"raised {ob['exception'][:120]} on a {nu} x {nv} graph with {len(set(edges))} edges made of ladders with "
                        f"{case['rungs']} rungs ({case['styles']}, relabelled: {case['relabelled']}); a minimum cover of size "
                        f"{kuhn_max_matching(*compress_graph(nu, nv, edges)[:3])} exists; recursion limit {ob.get('recursion_limit')}")
            return f"raised {ob['exception']}"
        es = set(edges)
        # adjacency = the edge set, no duplicates (one list per vertex of each side; the non-empty ones are the neighbour sets)
        nbu, nbv = {}, {}
        for (a, b) in es:
            nbu.setdefault(a, set()).add(b)
            nbv.setdefault(b, set()).add(a)
        lu, adju = _adj_norm(ob.get("adj_u"), ob.get("adj_u_nz"), ob.get("adj_len", [None, None])[0])
        lv, adjv = _adj_norm(ob.get("adj_v"), ob.get("adj_v_nz"), ob.get("adj_len", [None, None])[1])
        adj_msg = None
        if lu != nu or lv != nv:
            adj_msg = f"adjacency structure has {lu} x {lv} lists for a graph with {nu} x {nv} vertices"
        for u in sorted(set(adju) | set(nbu)):
            if adj_msg is None and sorted(adju.get(u, [])) != sorted(nbu.get(u, ())):
                adj_msg = f"adj_u[{u}] = {adju.get(u, [])} is not the neighbour set {sorted(nbu.get(u, ()))} of {u}"
        for v in sorted(set(adjv) | set(nbv)):
            if adj_msg is None and sorted(adjv.get(v, [])) != sorted(nbv.get(v, ())):
                adj_msg = f"adj_v[{v}] = {adjv.get(v, [])} is not the neighbour set {sorted(nbv.get(v, ()))} of {v}"
        if case["kind"] == "graph" and not ob.get("mvc_assert"):
            # the clauses of the property text first (cover / matching of the graph GIVEN by the edge list); a wrong adjacency
            # structure is reported together with what it does to the returned cover, or alone if the cover is still right
            msg = self._oracle_cover(case, ob, nu, nv, edges, es)
            if msg and adj_msg:
                return msg + "; the BipartiteGraph object is wrong already: " + adj_msg
            return msg or adj_msg
        if adj_msg:
            return adj_msg
        if case["kind"] == "koenig":
            # closure property of the exploration for an arbitrary valid matching: (U minus visited, visited V) is a cover
            zu = {u for t in ob["traces"] for u in t[1]}
            zv = {v for t in ob["traces"] for v in t[2]}
            if not all(0 <= u < nu for u in zu) or not all(0 <= v < nv for v in zv):
                return "exploration visits a vertex that does not exist"
            for (u, v) in es:
                if u in zu and v not in zv:
                    return f"edge {(u, v)} not covered by (U minus visited, visited V) for matching {case['matching']}"
            return None
        if ob.get("mvc_assert"):
            return "minimum_vertex_cover raised AssertionError (cover size != matching size)"
        return self._oracle_cover(case, ob, nu, nv, edges, es)

    @staticmethod
    def _oracle_cover(case, ob, nu, nv, edges, es):
        if "adj_after_nz" in ob:
            if ob["adj_after_nz"] != [ob["adj_len"], ob["adj_u_nz"], ob["adj_v_nz"]]:
                return "the graph was modified by minimum_vertex_cover"
        elif ob["adj_after"] != [ob["adj_u"], ob["adj_v"]]:
            return "the graph was modified by minimum_vertex_cover"
        m = [tuple(p) for p in ob["matching"]]
        for (u, v) in m:
            if (u, v) not in es:
                return f"matched pair {(u, v)} is not an edge"
        if len({u for u, _ in m}) != len(m) or len({v for _, v in m}) != len(m):
            return f"matching {m} uses a vertex twice"
        uc, vc = ob["u_cover"], ob["v_cover"]
        if not all(isinstance(u, int) and 0 <= u < nu for u in uc) or not all(isinstance(v, int) and 0 <= v < nv for v in vc):
            return f"cover ({uc},{vc}) contains a vertex that does not exist"
        if len(set(uc)) != len(uc) or len(set(vc)) != len(vc):
            return f"cover ({uc},{vc}) lists a vertex twice"
        ucs, vcs = set(uc), set(vc)
        for (u, v) in sorted(es):
            if u not in ucs and v not in vcs:
                return f"edge {(u, v)} is not touched by the cover ({uc},{vc})"
        if max(nu, nv) > BIG_SIDE:     # reference sizes on the graph without its isolated vertices (same sizes, see compress_graph)
            rnu, rnv, redges, _, _ = compress_graph(nu, nv, edges)
        else:
            rnu, rnv, redges = nu, nv, edges
        mm = kuhn_max_matching(rnu, rnv, redges)
        if len(m) != mm:
            return f"matching has size {len(m)}, a maximum matching has size {mm}"
        if len(uc) + len(vc) != mm:
            return f"cover size {len(uc) + len(vc)} != maximum matching size {mm}"
        if min(rnu, rnv) <= 10:
            mc = min_cover_size_enum(rnu, rnv, redges)
            if len(uc) + len(vc) != mc:
                return f"cover size {len(uc) + len(vc)} but a cover of size {mc} exists"
        return None

    def classify(self, case, what, known):
        return None

    def sample_repr(self, case):
        return case
