"""C16 — a density-operator network built from a pure state behaves as |psi><psi|.

Tie (exact): structure of from_ttns (identifiers, dictionary order, parent/children with order,
leg permutations, shapes, raw tensor shapes, the identity on the artificial root, the zero pattern
of the padded root legs, ket tensor = state tensor, bra tensor = its conjugate, contraction order)
against TTNDO/Sym.v (direct description AND the Layer-W store program); the control flow of
tensor_product_expectation_value (which factors reach the traced network, which functional is
evaluated, receiver untouched) against the model under the defect flags; the string identifier
functions against their literal model.
Oracle (independent dense numpy): trace = <psi|psi>, TTNO and tensor-product expectation values
= <psi|O|psi>."""
from __future__ import annotations

import copy
import random
from collections import Counter

import numpy as np

import lib
from lib import Prop, coq_eval, coq_nat, coq_list, unsome
import util
import wmodel
from util import TensorProduct, TTNS
from pytreenet.core.node import Node
from pytreenet.ttns.ttndo import SymmetricTTNDO, from_ttns
from pytreenet.core.ttn import TreeTensorNetwork
from pytreenet.contractions.ttndo_contractions import ttndo_contraction_order

IMPORTS = ("From Coq Require Import List Arith String ZArith. From PTN Require Import Tree.RTree TTNDO.Sym. "
           "From PTN Require TTN.Store. Import ListNotations.")
KSUF, BSUF = "_ket", "_bra"
K_LOOP, K_EMPTY, K_SUFFIX = "C16-tp-loop-deepcopy", "C16-tp-empty", "C16-id-contains-ket-suffix"

# names that stay inside the stated precondition (no name contains the ket suffix) but stress the
# identifier maps: the bra suffix inside a name, underscores, prefixes of the suffixes, digits
TRICKY = ["a_bra", "_bra", "x_bra_bra", "ke", "_ke", "t", "_", "site_1", "a b", "n.0", "K_KET", "bra_", "ket", "q-1", "_brax"]
# outside the precondition: the ket suffix occurs in the name
SUFFIXY = ["a_ket", "_ket", "x_ket_y", "_ketb", "a_ket_bra"]


# ---- building -----------------------------------------------------------------------------
def build_named_ttns(rng, parents, names, phys, bond=None, complex_=True, layout="C"):
    """util.build_ttns with free node names: random complex tensors handed over with their legs
    in a random order, children attached in a random order (lazy leg permutations exercised).
    complex_=False: the same kind of state stored in float64 arrays (a complex state whose imaginary parts are zero);
    layout "F": the arrays are handed over in Fortran memory order."""
    n = len(parents)
    ch = util.children_of(parents)
    bdim = {i: (bond if bond is not None else rng.choice([1, 2, 3])) for i in range(1, n)}
    nprs = np.random.RandomState(rng.randrange(2 ** 31))
    ttn = TTNS()
    order = [0]
    frontier = list(ch[0])
    while frontier:
        c = frontier.pop(rng.randrange(len(frontier)))
        order.append(c)
        frontier.extend(ch[c])
    cur = {}
    for i in order:
        legs = []
        if parents[i] is not None:
            legs.append(("p", parents[i], bdim[i]))
        for c in ch[i]:
            legs.append(("c", c, bdim[c]))
        legs.append(("o", 0, phys[i]))
        rng.shuffle(legs)
        t = util.rand_tensor(nprs, tuple(l[2] for l in legs), bool(complex_), None)
        if layout == "F":
            t = np.asfortranarray(t)
        node = Node(identifier=names[i])
        if parents[i] is None:
            ttn.add_root(node, t)
            cur[i] = legs
        else:
            p = parents[i]
            my_leg = [k for k, l in enumerate(legs) if l[0] == "p"][0]
            pl = cur[p]
            parent_leg = [k for k, l in enumerate(pl) if l[0] == "c" and l[1] == i][0]
            nvirt = ttn.nodes[names[p]].nneighbours()
            ttn.add_child_to_parent(node, t, my_leg, names[p], parent_leg)
            pl.insert(nvirt, pl.pop(parent_leg))
            legs.insert(0, legs.pop(my_leg))
            cur[i] = legs
    return ttn


def logical_tensor(ttn, nid):
    """the tensor of a node in (parent, children, open) order without touching the network"""
    return np.transpose(ttn._tensors.data[nid], ttn.nodes[nid].leg_permutation)


def rtree_of(ttns, index):
    def rec(nid):
        return [index[nid], [rec(c) for c in ttns.nodes[nid].children]]
    return rec(ttns.root_id)


def coq_string(s):
    return lib.coq_string(s) + "%string"


def coq_rtree(t):
    return f"(RNode {coq_nat(t[0])} [" + "; ".join(coq_rtree(c) for c in t[1]) + "])"


def coq_fun(xs):
    return "(fun n => nth n " + coq_list(xs, coq_nat) + " 0%nat)"


def coq_names(xs):
    return "(fun n => nth n " + coq_list(xs, coq_string) + " EmptyString)"


class Recorder:
    """records which factors reach the network whose trace / scalar product is finally evaluated.
    The log lives in the instance dictionary, so deepcopy carries it exactly like the tensors."""

    def __init__(self, receiver, factors):
        self.receiver = receiver
        self.factors = factors
        self.events = []
        self.depth = 0

    def __enter__(self):
        rec = self
        o_abs = TreeTensorNetwork.absorb_into_open_legs
        o_tr = SymmetricTTNDO.trace
        o_sp = SymmetricTTNDO.scalar_product

        def absorb(self, node_id, tensor):
            idx = [j for j, f in enumerate(rec.factors) if f is tensor]
            if not idx:
                idx = [j for j, f in enumerate(rec.factors) if f.shape == np.shape(tensor) and np.array_equal(f, tensor)]
            self.__dict__.setdefault("_c16_log", []).append([node_id, idx[0] if idx else -1])
            return o_abs(self, node_id, tensor)

        def trace(self):
            if rec.depth == 0:
                rec.events.append(["trace", copy.deepcopy(self.__dict__.get("_c16_log", [])), self is rec.receiver])
            rec.depth += 1
            try:
                return o_tr(self)
            finally:
                rec.depth -= 1

        def scalar_product(self, *a, **kw):
            if rec.depth == 0:
                rec.events.append(["scalar_product", copy.deepcopy(self.__dict__.get("_c16_log", [])), self is rec.receiver])
            rec.depth += 1
            try:
                return o_sp(self, *a, **kw)
            finally:
                rec.depth -= 1
        self._restore_trace = o_tr
        SymmetricTTNDO.absorb_into_open_legs = absorb
        SymmetricTTNDO.trace = trace
        SymmetricTTNDO.scalar_product = scalar_product
        return self

    def __exit__(self, *a):
        del SymmetricTTNDO.absorb_into_open_legs
        del SymmetricTTNDO.scalar_product
        SymmetricTTNDO.trace = self._restore_trace
        return False


def cplx(z):
    z = complex(z)
    return [z.real, z.imag]


def uncplx(p):
    return complex(p[0], p[1])


# ---- configurations of the objects the caller hands over (dtype, memory layout) and histories ----------------------
ODTYPES = ("complex", "real")
OLAYOUTS = ("C", "F", "strided")


def make_factor(nprs, d, odtype="complex", olayout="C"):
    """a random non-Hermitian d x d site operator; odtype 'real': stored as float64; layouts: C order, Fortran order, a
    strided view into a larger array. The draws for ('complex', 'C') are the ones the check always made."""
    m = nprs.standard_normal((d, d))
    if odtype != "real":
        m = m + 1j * nprs.standard_normal((d, d))
    if olayout == "F":
        m = np.asfortranarray(m)
    elif olayout == "strided":
        big = np.zeros((2 * d, 2 * d), dtype=m.dtype)
        big[::2, ::2] = m
        m = big[::2, ::2]
    return m


def gen_factor_cfg(rng, sdtype):
    """operator dtype / layout for one measurement: real operators mostly on real-dtype states (the result dtype then equals
    the dtype of the state's arrays), all layouts"""
    if sdtype == "real":
        od = "real" if rng.random() < 0.7 else "complex"
    else:
        od = "real" if rng.random() < 0.3 else "complex"
    return od, rng.choice(["C", "C", "F", "strided"])


def gen_hist_steps(rng, n, sdtype, nsteps):
    """a history on ONE density-operator network and on the objects it was built from / measured with: measurements
    (trace, tensor products, TTNO), the same TensorProduct object measured again, the caller going on to use the SOURCE
    state (apply_operator, canonical_form / move of the centre, normalise(), a measurement on the pure state, an in-place
    write into an array the source holds), a second network built from the same source. Every measurement on the first
    network is judged against |psi><psi| of the state it was built from."""
    steps = []
    have_tp = False
    for j in range(nsteps):
        if rng.random() < 0.3:
            steps.append(gen_net_step(rng, n, sdtype))
            continue
        r = rng.random()
        if j == 0 and r < 0.5:
            r = 0.3            # often: a tensor product is the first thing asked of the fresh network
        if r < 0.12:
            steps.append({"a": "trace"})
        elif r < 0.42:
            m = rng.choice([1, 1, 2, n, rng.randrange(0, n + 1)])
            od, ol = gen_factor_cfg(rng, sdtype)
            steps.append({"a": "tp", "sites": rng.sample(range(n), min(m, n)), "oseed": rng.randrange(10 ** 9), "odtype": od, "olayout": ol})
            have_tp = True
        elif r < 0.5 and have_tp:
            steps.append({"a": "tp_again"})
        elif r < 0.58:
            steps.append({"a": "ttno", "nterms": rng.randrange(1, 4), "hseed": rng.randrange(10 ** 9), "coeffs": rng.random() < 0.5})
        elif r < 0.74:
            m = rng.choice([1, 1, 2, n])
            od, ol = gen_factor_cfg(rng, sdtype)
            steps.append({"a": "src_apply", "sites": rng.sample(range(n), min(m, n)), "oseed": rng.randrange(10 ** 9), "odtype": od, "olayout": ol})
        elif r < 0.82:
            steps.append({"a": rng.choice(["src_canon", "src_move"]), "node": rng.randrange(n)})
        elif r < 0.86:
            steps.append({"a": "src_normalise"})
        elif r < 0.89:
            steps.append({"a": "src_inplace", "node": rng.randrange(n), "factor": rng.choice([2.0, -0.5, 3.0])})
        elif r < 0.93:
            steps.append({"a": "src_measure", "site": rng.randrange(n), "oseed": rng.randrange(10 ** 9)})
        else:
            steps.append({"a": "second", "k": rng.choice([1, 2, 3]), "site": rng.randrange(n), "oseed": rng.randrange(10 ** 9)})
    # always end on measurements of the first network
    od, ol = gen_factor_cfg(rng, sdtype)
    steps.append({"a": "tp", "sites": rng.sample(range(n), rng.choice([1, min(2, n), n])), "oseed": rng.randrange(10 ** 9), "odtype": od, "olayout": ol})
    steps.append({"a": "trace"})
    return steps


BAD_KINDS = ("unknown", "wrongdim", "nonsquare", "rank")


def gen_net_step(rng, n, sdtype):
    """a step on the density-operator NETWORK itself (not on the source state) that leaves the represented operator
    |psi><psi| unchanged, so that every later measurement still has the pure-state value:
      net_canon / net_orth / net_move   the public gauge changes canonical_form / orthogonalize /
                                        move_orthogonalization_center of the network, towards the artificial root, a ket or
                                        a bra node
      net_copy                          the caller goes on with copy.deepcopy(network) / a pickle round trip of it
      tp_bad                            an ILL-FORMED tensor product is asked for: 1..N-1 valid factors and one factor the
                                        library rejects (unknown node identifier, matrix of the wrong dimension, non-square
                                        matrix, wrong rank), mostly AFTER the valid ones in dict order; the caller catches
                                        the exception and keeps using the same network."""
    q = rng.random()
    if q < 0.45:
        side = rng.choice(["root", "ket", "ket", "bra", "bra"])
        return {"a": rng.choice(["net_canon", "net_canon", "net_orth", "net_move"]), "side": side, "node": rng.randrange(n)}
    if q < 0.55:
        return {"a": "net_copy", "how": rng.choice(["deepcopy", "pickle"])}
    kind = rng.choice(BAD_KINDS) if n >= 2 else "unknown"
    m = rng.choice([1, 1, 2, n - 1]) if n >= 2 else 1
    m = max(1, min(m, n - 1 if kind != "unknown" else n))
    sites = rng.sample(range(n), m)
    rest = [i for i in range(n) if i not in sites]
    od, ol = gen_factor_cfg(rng, sdtype)
    return {"a": "tp_bad", "sites": sites, "kind": kind, "badsite": (rng.choice(rest) if rest else 0),
            "badkey": rng.choice(["missing", "root", "ket", "bra"]), "pos": rng.choice([m, m, m, rng.randrange(0, m + 1)]),
            "oseed": rng.randrange(10 ** 9), "odtype": od, "olayout": ol}


def bad_factor(nprs, stp, names, dims, root_id):
    """(key, array) of the factor of a tp_bad step that the library has to reject"""
    nm = names[stp["badsite"]]
    d = dims[nm]
    kind = stp["kind"]
    if kind == "unknown":
        key = {"missing": "no_such_node", "root": root_id, "ket": nm + KSUF, "bra": nm + BSUF}[stp["badkey"]]
        if key in names:
            key = "no_such_node"
        return key, make_factor(nprs, 2)
    if kind == "wrongdim":
        return nm, make_factor(nprs, d + 1)
    if kind == "nonsquare":
        return nm, make_factor(nprs, d + 1)[:d, :]
    return nm, (make_factor(nprs, d)[:, 0] if nprs.randint(2) else make_factor(nprs, d)[:, :, None] * np.ones(2))


# ---- numerically extreme and exactly degenerate members of the input space (op num, oracle only) -------------------
# The property quantifies over ALL complex states, all TTNOs and all tensor products: a tensor network has a gauge
# freedom (a factor moved from one tensor into another leaves the represented state unchanged), a state may have a tiny or
# a huge norm, an operator tiny or huge coefficients, and a site may sit in an exact basis state on which every term of
# the operator has an exactly vanishing matrix element.  References are dense numpy on the same arrays; tolerances are
# RELATIVE to the scale of the reference (no absolute term), so a value that collapses to 0 / nan is seen at every scale.
NUM_KINDS = ("gauge", "norm", "gauge+norm", "frozen", "frozen+gauge")
KILL_KINDS = ("lower", "raise", "rand0", "shift", "offdiag")


def gen_num_case(rng, st, thorough=False):
    """one num case for a setup: how the state's tensors are scaled / frozen and what is measured on the network"""
    n = len(st["parents"])
    phys = st["phys"]
    kind = rng.choice(["gauge", "gauge", "gauge", "norm", "gauge+norm", "frozen", "frozen", "frozen", "frozen+gauge"])
    scales = [0.0] * n
    if "gauge" in kind:
        # per-node factors 10^e, e spread over +-9 orders of magnitude, one node compensates: the state is unchanged
        for i in range(n):
            scales[i] = float(rng.choice([0, 0, rng.randrange(-9, 10), rng.uniform(-9, 9)]))
        comp = rng.randrange(n)
        scales[comp] = 0.0
        scales[comp] = -float(sum(scales))
        if n == 1:
            scales = [0.0]
    if "norm" in kind or (kind == "gauge" and n == 1):
        # the norm of the state: 10^E on one node or spread evenly over all nodes
        E = float(rng.choice([rng.randrange(-20, 21), rng.uniform(-20, 20), -5, -6, 8]))
        if rng.random() < 0.5:
            scales[rng.randrange(n)] += E
        else:
            scales = [e + E / n for e in scales]
    frozen = []
    if "frozen" in kind:
        # sites in an exact basis state |j> (tensor = anything on the virtual legs (x) e_j): not entangled through the
        # physical leg, all other entries exactly zero
        for i in rng.sample(range(n), rng.choice([1, 1, 1, min(2, n), rng.randrange(1, n + 1)])):
            frozen.append([i, rng.randrange(phys[i])])
    meas = [{"a": "trace"}]
    for _ in range(rng.choice([2, 3])):
        m = rng.choice([0, 1, 1, 2, n, rng.randrange(0, n + 1)])
        sites = rng.sample(range(n), min(m, n))
        kill = None
        if frozen and rng.random() < 0.6:
            f = rng.choice(frozen)
            if f[0] not in sites:
                sites.insert(rng.randrange(len(sites) + 1), f[0])
            kill = [f[0], f[1], rng.choice(KILL_KINDS)]
        oexp = 0.0 if rng.random() < 0.6 else float(rng.choice([rng.randrange(-8, 9), rng.uniform(-8, 8)]))
        meas.append({"a": "tp", "sites": sites, "oseed": rng.randrange(10 ** 9), "oexp": oexp, "kill": kill})
    for _ in range(2 if thorough else 1):
        annih = None
        if frozen and rng.random() < 0.75:
            f = rng.choice(frozen)
            annih = [f[0], f[1]]
        hexp = 0.0 if rng.random() < 0.55 else float(rng.choice([rng.randrange(-12, 9), rng.uniform(-12, 8)]))
        meas.append({"a": "ttno", "hseed": rng.randrange(10 ** 9), "nterms": rng.randrange(1, 5), "hexp": hexp,
                     "hwhere": rng.choice(["coeff", "matrix"]), "annih": annih,
                     "control": bool(annih is not None and n >= 2 and rng.random() < 0.25)})
    rng.shuffle(meas)
    return {"kind": kind, "scales": scales, "frozen": frozen, "meas": meas, "canon": False}


def apply_tweaks(ttns, names, case):
    """scales / freezes the arrays of the state in place, before the network is built from it"""
    for i, e in enumerate(case.get("scales") or []):
        if e:
            ttns._tensors.data[names[i]] *= 10.0 ** e
    for i, j in case.get("frozen") or []:
        raw = ttns._tensors.data[names[i]]
        ax = ttns.nodes[names[i]].leg_permutation[-1]       # the physical leg is the last logical leg
        for p in range(raw.shape[ax]):
            if p != j:
                raw[(slice(None),) * ax + (p,)] = 0


def kill_matrix(nprs, d, j, how):
    """a non-Hermitian d x d operator whose matrix element <j|.|j> vanishes exactly"""
    if d == 1:
        return np.zeros((1, 1), dtype=complex)
    if how == "lower":
        return np.diag(np.sqrt(np.arange(1, d)), k=1).astype(complex)
    if how == "raise":
        return np.diag(np.sqrt(np.arange(1, d)), k=-1).astype(complex)
    if how == "shift":
        return np.roll(np.eye(d), 1, axis=0).astype(complex)
    m = nprs.standard_normal((d, d)) + 1j * nprs.standard_normal((d, d))
    if how == "offdiag":
        m[np.arange(d), np.arange(d)] = 0
    else:
        m[j, j] = 0
    return m


def num_ham(stp, ids, dims):
    """a non-Hermitian Hamiltonian for a num measurement: random complex factors; `hexp`: the overall scale 10^hexp sits in
    a symbolic coefficient or in one matrix of every term; `annih` = [site, j]: every term acts on that site with an operator
    whose <j|.|j> element is exactly zero (`control`: one further term that does not act on the site).
    Returns the Hamiltonian, its dense matrix and sum_t |c_t| prod ||factor||_2 (the scale rounding errors live on)."""
    from fractions import Fraction
    from pytreenet.operators.hamiltonian import Hamiltonian
    rng = random.Random(stp["hseed"])
    nprs = np.random.RandomState(rng.randrange(2 ** 31))
    conv = {f"I{d}": np.eye(d) for d in sorted(set(dims.values()))}
    cm = {"1": 1}
    big = 10.0 ** stp["hexp"]
    in_coeff = stp["hexp"] != 0 and stp["hwhere"] == "coeff"
    if in_coeff:
        cm["g"] = big * complex(nprs.standard_normal(), nprs.standard_normal())
    annih = stp.get("annih")
    terms, tscale = [], 0.0
    nterms = stp["nterms"] + (1 if stp.get("control") else 0)
    for t in range(nterms):
        is_control = stp.get("control") and t == nterms - 1
        pool = [i for i in range(len(ids)) if not (is_control and i == annih[0])]
        sites = rng.sample(pool, rng.randrange(1, len(pool) + 1))
        if annih is not None and not is_control and annih[0] not in sites:
            sites[rng.randrange(len(sites))] = annih[0]
        tp = {}
        sc = 1.0
        for q, i in enumerate(sites):
            d = dims[ids[i]]
            if annih is not None and i == annih[0]:
                m = kill_matrix(nprs, d, annih[1], rng.choice(KILL_KINDS))
            else:
                m = nprs.standard_normal((d, d)) + 1j * nprs.standard_normal((d, d))
            if stp["hexp"] != 0 and not in_coeff and q == 0:
                m = m * big
            conv[f"T{t}_{i}"] = m
            tp[ids[i]] = f"T{t}_{i}"
            sc *= float(np.linalg.norm(m, 2))
        fr = Fraction(rng.choice([1, 2, -1, 3, -2]), rng.choice([1, 2, 3]))
        g = "g" if in_coeff else "1"
        terms.append((fr, g, TensorProduct(tp)))
        tscale += abs(float(fr) * cm[g]) * sc
    ham = Hamiltonian(terms, conv, cm)
    return ham, util.dense_ham(ham, ids, dims), tscale


# ==== BEGIN diagram-level tie of the contraction code (model coq/theories/TTNDO/Contr.v) ==========================
# For every explored build case: the density-operator network is the store program TTNDO/Sym.from_ttns_ops (already tied
# exactly to the implementation's network by the build comparison above: node records, leg permutations, raw shapes,
# tensor contents); a random operator network over the same tree, with its OWN child order and leg shuffles, is built by
# add_root / add_child_to_parent on a real TTNO (wmodel.Driver) and by the same op list in the model
# (Blocks.store_at: disjoint wires and atoms).  Kernel-checked per instance (vm_compute): the hypothesis checkers
# ttndo_wfb / ttndo_wf3b of the universal theorems C16_trace_closed / C16_expectation_closed and the result checkers
# ttndo_trace_ok / ttndo_expect_ok.  Value-level tie: the einsum over the atoms of the model's closed diagrams (atoms =
# the network's actual stored arrays, glued wires identified) equals what the library's trace() /
# ttno_expectation_value() return, to 1e-9 relative.
from props.c02 import gen_build_on          # noqa: E402
from props.c04 import eval_closed           # noqa: E402

CONTR_OOFF, CONTR_OAOFF = 1000, 100         # wire / atom offsets of the operator store
CONTR_IMPORTS = ("From Coq Require Import List Arith. From PTN Require Import TTN.Store Contr.Blocks TTNDO.Contr. "
                 "From PTN Require Tree.RTree TTNDO.Sym. Import ListNotations.")
# [value] the structural hypotheses of the value theorem C16_trace_value (TTNDO/Value.v): the network of the store program
# of from_ttns against the state built as a store program over the same tree and dimensions (one atom per node, legs
# (parent, children, open)), wire / atom offsets of the conjugate copy as in C04
VALUE_WOFF, VALUE_AOFF = 1000, 100
VALUE_IMPORTS = ("From Coq Require Import List Arith. From PTN Require TTNDO.Value Tree.RTree. Import ListNotations.")


def value_expr(case, ob):
    args = f"{coq_fun(ob['bond'])} {coq_fun(ob['phys'])} {coq_nat(case['k'])} {_coq_rtree_q(ob['rtree'])}"
    return f"Value.value_case {args} {coq_nat(VALUE_WOFF)} {coq_nat(VALUE_AOFF)}"


class _NodeIndexIds:
    """identifier map of the operator store: the node named names[i] is the natural number i (= reverse_ket_id on codes)"""

    def __init__(self, names):
        self.r = list(names)
        self.d = {nm: i for i, nm in enumerate(names)}

    def __call__(self, s):
        return self.d[s]


def _coq_rtree_q(t):
    return f"(RTree.RNode {coq_nat(t[0])} [" + "; ".join(_coq_rtree_q(c) for c in t[1]) + "])"


def contr_impl(case, ref, ttndo):
    """implementation side: a random TTNO over the state's tree (independent child order), the library's numbers, the
    stored arrays (atoms) of both networks.  Nothing here touches `ttndo` itself (raw arrays are copied first, the
    contractions run on deep copies)."""
    names = case["names"]
    n = len(names)
    rng = random.Random(case["seed"] + 7919)
    dims = [int(ref.nodes[nm].open_dimension()) for nm in names]
    bond = {i: rng.choice([1, 2, 2, 3]) for i in range(1, n)}
    ren = {f"n{i}": names[i] for i in range(n)}
    ops = []
    for o in gen_build_on(rng, case["parents"], [[d, d] for d in dims], bond):
        ops.append([o[0], ren[o[1]], o[2]] if o[0] == "add_root" else [o[0], ren[o[1]], o[2], o[3], ren[o[4]], o[5]])
    drv = wmodel.Driver(ttn_cls=util.TTNO, nprs=np.random.RandomState((case["seed"] + 13) % (2 ** 31)))
    for o in ops:
        ok, err = drv.apply(o)
        if not ok:
            raise RuntimeError(f"operator build failed: {o}: {err}")
    out = {"oops": ops, "osnap": wmodel.snapshot(drv.ttn), "oatoms": [np.array(a) for a in drv.atoms],
           "datoms": [np.array(ttndo._tensors.data[nid]) for nid in ttndo.nodes],
           "child_order_differs": any(list(drv.ttn.nodes[nm].children) != list(ref.nodes[nm].children) for nm in names)}
    psi = util.dense_vec(ref, list(names))
    O = util.dense_ttno(drv.ttn, list(names))
    out["dense_expect"] = cplx(np.vdot(psi, O @ psi))
    out["scale"] = float(abs(np.vdot(psi, psi)) * max(1.0, np.linalg.norm(O, 2)))
    for key, f in (("trace", lambda: copy.deepcopy(ttndo).trace()),
                   ("expect", lambda: copy.deepcopy(ttndo).ttno_expectation_value(copy.deepcopy(drv.ttn)))):
        try:
            out[key] = cplx(f())
        except Exception as e:  # noqa
            out[key + "_exc"] = f"{type(e).__name__}: {e}"
    return out


def contr_expr(case, ob):
    """the Coq expression evaluated for one build case"""
    idm = _NodeIndexIds(case["names"])
    ol = coq_list([("(" + wmodel.coq_op(o, idm) + ")") for o in ob["contr"]["oops"]])
    args = f"{coq_fun(ob['bond'])} {coq_fun(ob['phys'])} {coq_nat(case['k'])} {_coq_rtree_q(ob['rtree'])}"
    return f"ttndo_case code_maps (Sym.from_ttns_ops {args}) {ol} {coq_nat(CONTR_OOFF)} {coq_nat(CONTR_OAOFF)}"


def contr_compare(prop, case, ob, mo):
    """instance obligations + value-level tie for one build case; None or a message"""
    co, cm = ob.get("contr"), mo.get("contr")
    if co is None or cm is None:
        return None
    outside = case.get("variant") == "suffix"
    # Coq prints left-nested pairs flat: the five components of `observe` come first
    obs_o, flags, sums = tuple(cm[:5]), cm[5], cm[6]
    idm = _NodeIndexIds(case["names"])
    d = wmodel.compare_snapshot(co["osnap"], wmodel.model_obs_to_py(obs_o, idm))
    if d:
        return "operator store model: " + d
    names4 = ("ttndo_wfb", "ttndo_trace_ok", "ttndo_wf3b", "ttndo_expect_ok")
    prop._inst[0] += 4
    prop._inst[1] += sum(1 for f in flags if f is True)
    bad = [nm for nm, f in zip(names4, flags) if f is not True]
    if bad:
        prop._contr_fail.append(f"seed {case['seed']} tree {case['parents']} k={case['k']}: {', '.join(bad)} = false")
        return f"model: per-instance checker(s) {bad} evaluate to false (hypotheses of C16_trace_closed / C16_expectation_closed, expected closed diagram)"
    # [value] the structural hypotheses of C16_trace_value (the value-level premises root = eye(k), zero padding,
    # ket = state tensor, bra = its conjugate were compared exactly by the build comparison before this point)
    if "vhyp" in mo:
        prop._inst[0] += 1
        prop._inst[1] += int(mo["vhyp"] is True)
        if mo["vhyp"] is not True:
            prop._contr_fail.append(f"seed {case['seed']} tree {case['parents']} k={case['k']}: value_case = false")
            return ("model: value_case evaluates to false (structural hypotheses of C16_trace_value: the network of from_ttns is not the "
                    "mirrored image of the state's tree with one atom per node and the state's leg dimensions)")
    tables = {a: (co["datoms"][a], list(ws)) for a, ws in mo["store"][4]}
    tables.update({a: (co["oatoms"][a - CONTR_OAOFF], list(ws)) for a, ws in obs_o[4]})
    for what, summ, key in (("trace()", sums[0], "trace"), ("ttno_expectation_value()", sums[1], "expect")):
        if key + "_exc" in co:
            return None if outside else f"{what} raised {co[key + '_exc']} where the model program has a closed diagram"
        summ = unsome(summ)
        if summ is None:
            return f"model: the program for {what} has no value on this network"
        val = eval_closed(summ, tables)
        lib_v = uncplx(co[key])
        prop._stats["contr-value-ties"] += 1
        if val is not None and abs(val - lib_v) > 1e-9 * max(1.0, abs(val)):
            if outside:
                return None
            return (f"{what} = {lib_v} but the model's closed diagram evaluates to {val} on the network's own tensors "
                    f"(tree {case['parents']}, k={case['k']}, operator child order differs: {co['child_order_differs']})")
    return None


def contr_oracle(prop, case, ob):
    """independent dense references for the two numbers of the block (random operator with its own child order)"""
    co = ob.get("contr")
    if co is None:
        return None
    outside = case.get("variant") == "suffix"
    msg = None
    nrm = uncplx(ob["norm2"])
    for key in ("trace", "expect"):
        if key + "_exc" in co:
            msg = f"{key} on names {case['names']}: raised {co[key + '_exc']}"
            break
    if msg is None and not prop._close(uncplx(co["trace"]), nrm, abs(nrm)):
        msg = f"trace() = {uncplx(co['trace'])} but <psi|psi> = {nrm} (tree {case['parents']}, k={case['k']})"
    if msg is None and not prop._close(uncplx(co["expect"]), uncplx(co["dense_expect"]), co["scale"]):
        msg = (f"ttno_expectation_value (operator with its own child order) = {uncplx(co['expect'])} but <psi|O|psi> = "
               f"{uncplx(co['dense_expect'])} (tree {case['parents']}, k={case['k']})")
    if msg is None:
        return None
    return prop._suffix_gate(case, msg) if outside else msg
# ==== END diagram-level tie of the contraction code ==================================================================


class C16(Prop):
    id = "C16"
    title = "density-operator network from a pure state"
    design_ref = "DESIGN.md section 5 / C16"
    rule = ("setups: every rooted ordered tree with <= 5 nodes (quick: 2, thorough: 12 repetitions with fresh dimensions / names / tensors; thorough also every 6-node tree three times) and random "
            "trees with 6-8 nodes, each with root bond dimension k in {1,2,3} (larger trees: one random k), physical dimensions in {1,2,3}, bond dimensions in {1,2,3}, "
            "random complex unnormalised tensors with shuffled legs, plain / tricky node names (bra suffix inside a name, underscores; "
            "a separate variant with the ket suffix inside a name, outside the stated precondition). Per setup one case each for: build "
            "(structure; plus trace and expectation value of a random operator network with its own child order and leg shuffles, for the diagram-level tie), trace, TTNO expectation (non-Hermitian Hamiltonian with coefficients), tensor products on 0,1,...,N sites "
            "(random ordered subsets, non-Hermitian factors); plus identifier-string cases. Configurations of the caller's objects (per setup / per case): the "
            "state stored in complex128 (70%) or float64 arrays (30%, a complex state with zero imaginary parts), C or Fortran memory order; site operators complex "
            "or real (real mostly on real-dtype states), C order / Fortran order / strided view; the tensor-product expectation value asked as the FIRST thing of a "
            "fresh network (50%) or after a trace() call. Histories (op hist, quick 2 / thorough 5 per setup, oracle only): 1-5 random steps + a closing tensor product "
            "and trace on ONE network: trace, tensor products (any number of sites, dtype / layout as above), the same TensorProduct object measured again, TTNO "
            "expectation, the caller going on to use the SOURCE state through the library (apply_operator on 1..N sites, canonical_form, move_orthogonalization_center, "
            "normalise(), single-site measurement, an in-place scaling of an array the source holds), a second network with another k built from the same (possibly "
            "advanced) source; about 30% of the steps act on the NETWORK itself and leave the represented operator unchanged: the public gauge changes "
            "canonical_form / orthogonalize / move_orthogonalization_center of the network towards the artificial root, a ket or a bra node (so that the "
            "next measurement meets pending leg permutations / a recorded centre), the caller going on with copy.deepcopy(network) or a pickle round "
            "trip of it, and ERROR paths: an ill-formed tensor product with 1..N-1 valid factors and one factor the library has to reject (unknown node "
            "identifier incl. the root / a ket / a bra identifier, matrix of the wrong dimension, non-square matrix, wrong rank; mostly after the valid "
            "factors in dict order), the caller catches the exception and keeps using the same network (the call must raise and must leave the network "
            "and the operator objects as they were: all later measurements are judged); every measurement on the first network is judged "
            "against |psi><psi| of the state it was built from, a second network against the dense state of the source when it is built. Numerically extreme and "
            "exactly degenerate inputs (op num, quick 1 / thorough 3 per setup, oracle only, tolerance 1e-9 RELATIVE to |reference| + |<psi|psi>| x operator scale, no "
            "absolute term): gauge-scaled states (the tensor of node i times 10^e_i, e_i spread over [-9, 9], one node compensating so that the represented state is "
            "unchanged), tiny- / huge-norm states (10^E, E in [-20, 20], on one node or spread over all), both together; states with 1..N sites frozen in an exact basis "
            "state |j> (tensor = anything on the virtual legs (x) e_j, all other entries exactly 0), alone or gauge-scaled; on ONE network a shuffled list of "
            "measurements: trace, 2-3 tensor products on 0..N sites (40%: first factor times 10^g, g in [-8, 8]; on frozen states 60%: a factor on a frozen site whose "
            "<j|.|j> element is exactly zero: lowering / raising / cyclic shift / random with zero diagonal / random with one zero entry, the 1x1 zero matrix on a "
            "dimension-1 leg), TTNO expectation of a non-Hermitian Hamiltonian with 1-4 terms (45%: scaled by 10^h, h in [-12, 8], in a symbolic coefficient or in one "
            "matrix per term; on frozen states 75%: EVERY term acts on one frozen site with such an annihilating operator, so that a whole subtree block and the value "
            "vanish exactly, 25% of those with one further term that does not act on the site). non-trivial = at least 2 nodes or an "
            "operator / history / num case; distinct by case content")
    clauses = [
        ("F", "from_ttns structure for every tree, dimension assignment and k: node set and dictionary order, unique identifiers, root with "
              "children (ket root, bra root) and shape (k,k,1), ket/bra branches are images of the state's tree with ordered children and "
              "(parent, children, physical) legs (C16_doubled_tree_structure); one add_symmetric_children_to_parent call per node in "
              "pre-order with child leg 0 and parent leg position+1 (C16_calls); contraction order = ket post-order (C16_contraction_order*)"),
        ("F", "identifier maps mutually inverse, abstractly and for the literal string functions with any non-empty suffix; distinct names "
              "(C16_identifier_maps, C16_identifier_strings, C16_names_distinct); regex-filter precondition (C16_suffix_filter_quirk)"),
        ("F", "for every k >= 1: padded leg of length k with index 0 the only non-zero slice, eye(k) on the root, root factor = 1 (C16_root_bond_dimension)"),
        ("F", "tensor_product_expectation_value control flow: repaired flags => every factor applied exactly once to its ket node, empty product "
              "takes the trace branch (C16_tp_expectation_fixed); defect flags => only the last factor / scalar-product branch "
              "(C16_tp_expectation_defects, C16_tp_expectation_refuted)"),
        ("F", "the contraction code of ttndo_contractions.py at the diagram level (model TTNDO/Contr.v: linearise + ket filter, the loop over the "
              "contraction order with its dictionary, bra node through ket_to_bra_id, operator node through reverse_ket_id, contract_any_nodes / "
              "contract_any_node_environment_but_one with id_trafo, _contract_ttno_root incl. the single-site branch, _contract_final_block and [0]): "
              "for every tree, every child order of the bra side and of the operator and every dimension assignment (hence every root bond dimension) "
              "trace_ttndo and ttndo_ttno_expectation_value succeed and return the closed network -- no open axis, atoms = root atom + all ket/bra "
              "(+ operator) atoms, bound wires = the root's open wire + every edge wire, glued pairs exactly (ket open m, bra open m) resp. "
              "(ket open m, operator input m), (operator output m, bra open m); no conjugation (C16_trace_closed, C16_expectation_closed, "
              "C16_contraction_loop, C16_contraction_order_store, C16_bra_to_ket_ignore_id_trafo, C16_cache_view, C16_code_maps)"),
        ("I", "per explored build case (vm_compute, checker proved sound: C16_store_check_sound): the store program of from_ttns is accepted "
              "step by step by the Layer-W model TTN/Store.v and leaves exactly the records of the direct description; child leg 0 and "
              "the parent's leg are the same wire"),
        ("I", "per explored build case (vm_compute; checkers proved sound: C16_wfb_trace_closed, C16_wf3b_expectation_closed, C16_trace_ok_sound, "
              "C16_expect_ok_sound): the network built by the store program of from_ttns and a random operator network with its own child order satisfy "
              "the hypotheses ttndo_wfb / ttndo_wf3b of the two diagram theorems, and the diagrams the two programs return are the expected ones "
              "with every atom and every bound wire exactly once (ttndo_trace_ok / ttndo_expect_ok). That from_ttns satisfies the hypotheses for "
              "EVERY tree is not proved (per instance only)"),
        ("O", "trace() = <psi|psi> as ONE statement (C16_trace_value, model TTNDO/Value.v, proofs TTNDO/ValueProofs.v): for every well-formed state "
              "store s with one open leg per node (arbitrary node diagrams), every tree, every root bond dimension k >= 1, every commutative "
              "semiring and every pair of atom tables, if d is structurally the network from_ttns builds from s (ttndo_of: mirrored image of the "
              "state's tree, one atom per node, the state's leg dimensions, k on the root's two legs) then trace_ttndo on d and scalar_product "
              "(= contract_two_ttns s (conj_store s), the <psi|psi> diagram of C04) both succeed with closed diagrams of EQUAL VALUE (gvalue of "
              "C04) -- under the named build contracts build_contracts: (i) every ket atom below the state's root holds the state's tensor in "
              "logical leg order and every bra atom what C04's conjugate copy holds, (ii) the root's ket / bra atom is that tensor in slice 0 of a "
              "new leading leg of length k and zero in every other slice, (iii) the artificial root atom is eye(k).reshape(k,k,1); entry by entry "
              "within the dimensions. Proof: C04's fused form of <psi|psi> at the root, wire-by-wire renaming of sums (C16_sum_rename), "
              "delta / zero-padding elimination of the three root wires. Executable forms proved sound: C16_trace_value_checked, "
              "C16_ttndo_ofb_sound, C16_build_contractsb_sound (contracts over Z on every in-range index)"),
        ("O", "tensor-product expectation value = <psi| (x)_i O_i |psi> as ONE statement, for ANY number of single-site factors on pairwise DISTINCT "
              "sites (C16_tp_value, executable-hypothesis form C16_tp_value_checked, state side in C04's own pair world C16_tp_value_pair_world; "
              "TTNDO/ValueTPNA.v + ValueTPN.v; the one-factor instance with its own world C16_tp1_value / C16_tp1_value_checked, TTNDO/ValueTP1.v): "
              "for every well-formed state store with one open leg per node, every tree, every k >= 1 and every list of (site, shape (dd, dd)) with "
              "distinct sites, dd the physical dimension of the site (the empty list included): the code path of "
              "TTNDO.tensor_product_expectation_value (ttndo_tp_expectation: absorb_into_open_legs at the ket image of every site in dict order, "
              "then trace_ttndo) and C04's pure-state path tp_expectation (conjugate copy of the original state, apply_operator, contract_two_ttns) "
              "both succeed with closed diagrams of EQUAL VALUE over any commutative semiring -- under ttndo_of, the build contracts of "
              "C16_trace_value and the premise that factor i (atom next_atom + i of the network / of the state) holds the same matrix in both atom "
              "tables. Proof: tp_apply node by node (tp_apply_views), the absorbed network is still a well-formed density-operator network, "
              "C04's fused form re-proved for a general glue list (C16_tp_state_value, F), wire-by-wire renaming with one extra pair per factor. "
              "Kept as theorems: C16_tp1_absorbed_closed_partial, C16_tp1_state_value_partial (the two one-factor halves, F). Non-vacuity: "
              "C16_example_tp1_numbers / C16_example_tp_numbers (non-symmetric integer factors on one and on two sites of the four-node tree, both "
              "diagrams evaluated by vm_compute), C16_example_tp1_applies, C16_example_tp_hyp, C16_example_tp_applies. NOT proved: a value "
              "statement for the TTNO path (ttndo_ttno_expectation_value); the theorems say nothing when a site occurs twice (a TensorProduct is a "
              "dict: cannot happen)"),
        ("I", "per explored build case (vm_compute): value_case = all structural hypotheses of C16_trace_value (value_hyp: wfsb of both stores, one open "
              "leg per node, ttndo_ofb) hold for the store program of from_ttns against the state built as a store program over the same tree and "
              "dimensions; the three build contracts are exactly what the build comparison checks on the arrays of the same case (root = eye(k), "
              "non-zero slices = [True, False, ...], ket tensor = state tensor resp. slice 0, bra tensor = its conjugate; exact)"),
        ("V", "value level: bra tensor = conj(ket tensor), root = eye(k), padded slices zero (exact, every build case); the einsum of the model's closed "
              "diagrams over the network's own stored arrays equals trace() / ttno_expectation_value() to 1e-9 relative on every build case; "
              "trace() = <psi|psi>, TTNO expectation = <psi|H|psi> (also for an operator network with its own child order), tensor-product expectation "
              "= <psi|(x)O|psi> against an independent dense numpy oracle, also for states stored in float64 arrays / Fortran order, real / Fortran-ordered / strided "
              "factors, on a network nothing was asked of before, and along histories (several measurements on one network, operator objects reused, the source "
              "state advanced through the library API after the build, a second network from the same source, the network regauged by canonical_form / "
              "orthogonalize / move_orthogonalization_center, deep-copied or pickled between the measurements, ill-formed tensor products rejected "
              "in between (the rejection leaves the network as it was); no model for these: oracle only), and for badly "
              "scaled inputs with a tolerance relative to the reference (gauge factors 1e-9..1e+9 between the tensors of one state, norms 1e-20..1e+20, operator "
              "scales 1e-12..1e+8) and exactly degenerate ones (sites in an exact basis state, operators with exactly vanishing matrix elements, values and whole "
              "subtree blocks exactly 0: the value must be finite and 0 up to the rounding scale, not nan) (op num, oracle only); tensor-product "
              "calls leave the receiver (trace still <psi|psi>) and the factor matrices unchanged. The value statements for trace() and for tensor products on any number of distinct sites are the O clauses above; for the TTNO "
              "expectation value the corresponding value statement is not a Coq theorem (diagram level C16_expectation_closed + these ties only)"),
    ]
    trusted_base = ["NumPy eye/pad/reshape/conj entry formulas = the premises build_contracts of C16_trace_value / C16_tp_value (validated exactly on every build case: "
                    "root = eye(k), padded slices zero, ket = state tensor, bra = conj(ket)); over an abstract semiring conjugation is not an operation: "
                    "'bra = conj(ket)' is the statement that the network's bra atom and the conjugate copy of C04 carry the same table",
                    "C16_tp_value / C16_tp1_value: 'factor i holds the same matrix in both tables' is a premise (the caller hands the same ndarray to both code "
                    "paths); absorb_into_open_legs is the Layer-W operation absorb_open (model tie of C04 / C08), the TTNDO tensor-product path is modelled as "
                    "tp_apply at the ket identifiers followed by trace_ttndo (ValueTP1.ttndo_tp_expectation; control flow = C16_tp_expectation_fixed); the "
                    "diagram of that path is not tied per instance to the library's number (the tensor-product value is compared with the dense oracle only)",
                    "gvalue (Contr/TensorProdBridge.v) as the denotation of a glued diagram: a definition, justified by C04_gvalue_g_tensordot and by the "
                    "einsum tie of the same diagrams against the library's numbers",
                    "dense references: util.dense_vec / dense_tp / dense_ham / dense_ttno (einsum, Kronecker products), tolerance 1e-9 relative to the operator scale "
                    "(op num: 1e-9 x (|reference| + |<psi|psi>| x prod ||factor||_2 resp. x sum_t |c_t| prod ||factor||_2), no absolute term; exponents are bounded "
                    "so that no intermediate of the dense reference or of an exact contraction over- or underflows)",
                    "NumPy tensordot / transpose / matmul / [0] on a length-1 axis implement the diagram operations of TTNDO/Contr.v (validated per build case: "
                    "einsum of the model diagram = library value); ttndo[id] is modelled by the logical (transposed) view, as in Contr/Blocks.v"]
    assumptions = ["root bond dimension k >= 1 (positivity_check rejects others)",
                   "no node name contains the ket suffix and the root identifier contains neither suffix: the code filters ket nodes with "
                   "re.match('.*'+ket_suffix, id), which also accepts e.g. the bra image of a node named 'a_ket' (reported; cases of this "
                   "kind are evaluated by the oracle only when the finding C16-id-contains-ket-suffix is recorded)",
                   "names without newline / regex metacharacters in the suffixes",
                   "histories: a gauge change of the network through the public TTN API (canonical_form / orthogonalize / move_orthogonalization_center) "
                   "and a deepcopy / pickle round trip leave the represented operator unchanged, so the network is still the one obtained from psi; a "
                   "failure of such a call itself belongs to other properties and ends the history unjudged",
                   "histories: whatever the caller does to the source state after from_ttns (library calls incl. normalise(), in-place writes into the "
                   "source's arrays) must not change the network built before: the network owns its tensors"]

    def __init__(self):
        self._known_all = {k["id"]: k.get("status") for k in lib.load_known() if k.get("property") == "C16"}
        self._stats = Counter()
        self._inst = [0, 0]       # per-instance kernel-checked obligations: store_check / wires_check = true
        self._contr_fail = []     # [contr] failed per-instance checkers of the contraction block

    # ---------------------------------------------------------------------------------------
    def _setups(self, ctx, rng, stream, budget_scale):
        trees = []
        for n in range(1, 6):
            trees += util.all_parents(n)
        reps = ctx.scale(2, 12)
        large = [util.random_parents(rng, rng.choice([6, 6, 7, 8])) for _ in range(ctx.scale(8, 120) * budget_scale)]
        if ctx.thorough():
            large += util.all_parents(6) * 3
        if stream != "main":
            trees = [util.random_parents(rng, rng.randrange(1, 6)) for _ in range(10 * budget_scale)]
            reps = 1
        out = []
        for _ in range(reps):
            for par in trees:
                for k in (1, 2, 3):
                    out.append((par, k))
        for par in large:
            out.append((par, rng.choice([1, 2, 3])))
        setups = []
        for j, (par, k) in enumerate(out):
            n = len(par)
            phys = [rng.choice([1, 2, 2, 3]) for _ in range(n)]
            # keep the dense operator matrices small
            while int(np.prod(phys)) > 600:
                i = rng.randrange(n)
                phys[i] = max(1, phys[i] - 1)
            r = rng.random()
            if r < 0.45:
                variant, names = "plain", [f"n{i}" for i in range(n)]
            elif r < 0.9 or n > len(SUFFIXY):
                variant = "tricky"
                pool = TRICKY + [f"n{i}" for i in range(n)]
                names = rng.sample(pool, n)
            else:
                variant = "suffix"
                names = rng.sample(SUFFIXY + TRICKY[:3], n)
                if not any(KSUF in x for x in names):
                    names[rng.randrange(n)] = rng.choice([s for s in SUFFIXY if s not in names])
            setups.append({"parents": par, "k": k, "seed": rng.randrange(10 ** 9), "phys": phys, "names": names, "variant": variant,
                           "root_id": rng.choice(["ttndo_root", "ttndo_root", "root", "r"]),
                           # how the caller stores the state: complex128 or float64 arrays (imaginary parts zero), C / Fortran order
                           "sdtype": ("real" if rng.random() < 0.3 else "complex"), "slayout": ("F" if rng.random() < 0.2 else "C")})
        return setups

    def generate(self, ctx, stream, budget_scale=1):
        rng = ctx.rng(stream)
        cases = []
        for st in self._setups(ctx, rng, stream, budget_scale):
            n = len(st["parents"])
            cases.append(dict(st, op="build"))
            cases.append(dict(st, op="trace"))
            for _ in range(ctx.scale(1, 2)):
                cases.append(dict(st, op="ttno", nterms=rng.randrange(1, 5), hseed=rng.randrange(10 ** 9), coeffs=rng.random() < 0.7))
            sizes = list(range(0, n + 1)) if n <= 5 else sorted(set([0, 1, 2, n] + [rng.randrange(0, n + 1) for _ in range(3)]))
            for m in sizes:
                sites = rng.sample(range(n), m)
                od, ol = gen_factor_cfg(rng, st["sdtype"])
                # fresh: the expectation value is the first thing asked of the network (no earlier trace() on it)
                cases.append(dict(st, op="tp", sites=sites, oseed=rng.randrange(10 ** 9),
                                  via=("single" if (m == 1 and rng.random() < 0.5) else "operator"),
                                  odtype=od, olayout=ol, fresh=rng.random() < 0.5))
            for _ in range(ctx.scale(2, 5)):
                cases.append(dict(st, op="hist", steps=gen_hist_steps(rng, n, st["sdtype"], rng.randrange(1, 6))))
            # badly scaled / tiny- or huge-norm / exactly degenerate states and operators (oracle only, relative tolerances)
            for _ in range(ctx.scale(1, 3)):
                cases.append(dict(st, op="num", **gen_num_case(rng, st, ctx.thorough())))
        # malformed inputs: both sides must reject (non-positive root bond dimension, empty state)
        for k in (0, -1, -3, 1, 2):
            for empty in (False, True):
                cases.append({"op": "reject", "k": k, "empty": empty})
        # identifier strings
        alphabet = "ab_ketbra_KET.- 1"
        for _ in range(ctx.scale(6, 40) * budget_scale):
            ks, bs = rng.choice([(KSUF, BSUF), (KSUF, BSUF), ("_k", "_b"), ("ket", "bra"), ("K1", "B22"), ("_ket_", "_")])
            strs = []
            for _ in range(12):
                r = rng.random()
                base = "".join(rng.choice(alphabet) for _ in range(rng.randrange(0, 7)))
                if r < 0.3:
                    s = base + ks
                elif r < 0.5:
                    s = base + bs
                elif r < 0.65:
                    s = base + ks + rng.choice([bs, "x", ks, ""])
                elif r < 0.75:
                    s = rng.choice([ks[1:], ks[:-1], bs[:-1], "", ks, bs])
                else:
                    s = base
                strs.append(s)
            cases.append({"op": "ids", "ksuf": ks, "bsuf": bs, "strings": strs})
        return cases

    def nontrivial(self, case):
        if case["op"] in ("ids", "reject"):
            return True
        return len(case["parents"]) >= 2 or case["op"] in ("ttno", "tp", "hist", "num")

    def distribution(self, cases):
        c = Counter()
        for x in cases:
            c["op:" + x["op"]] += 1
            if x["op"] not in ("ids", "reject"):
                c[f"nodes={len(x['parents'])}"] += 1
                c[f"k={x['k']}"] += 1
                c["names:" + x["variant"]] += 1
                c["state-dtype:" + x.get("sdtype", "complex")] += 1
                c["state-layout:" + x.get("slayout", "C")] += 1
            if x["op"] == "tp":
                c[f"factors={len(x['sites'])}"] += 1
                c[f"tp:state-{x.get('sdtype', 'complex')}/op-{x.get('odtype', 'complex')}"] += 1
                c["tp:op-layout:" + x.get("olayout", "C")] += 1
                c["tp:fresh-network" if x.get("fresh") else "tp:after-trace"] += 1
            if x["op"] == "hist":
                c[f"hist:steps={len(x['steps'])}"] += 1
                prev = None
                for stp in x["steps"]:
                    c["hist-step:" + stp["a"]] += 1
                    if stp["a"] == "tp_bad":
                        c["hist-tp_bad:" + stp["kind"] + (" after >= 1 valid factor" if stp["pos"] >= 1 else " as first factor")] += 1
                    if stp["a"].startswith("net_") and stp["a"] != "net_copy":
                        c["hist-regauge towards " + stp["side"]] += 1
                    if prev in ("net_canon", "net_orth", "net_move") and stp["a"] == "tp" and stp["sites"]:
                        c["hist: tensor product directly after a gauge change of the network"] += 1
                    prev = stp["a"]
            if x["op"] == "num":
                c["num:kind=" + x["kind"]] += 1
                ex = [abs(e) for e in x["scales"]]
                c["num:largest-tensor-scale=1e+-" + ("0" if max(ex) == 0 else "(0,3]" if max(ex) <= 3 else "(3,6]" if max(ex) <= 6 else "(6,12]" if max(ex) <= 12 else ">12")] += 1
                tot = abs(sum(x["scales"]))
                c["num:state-norm=" + ("unchanged" if tot < 1e-9 else "1e+-(0,6]" if tot <= 6 else "1e+-(6,20]")] += 1
                c[f"num:frozen-sites={len(x['frozen'])}"] += 1
                for stp in x["meas"]:
                    c["num-meas:" + stp["a"]] += 1
                    if stp["a"] == "tp":
                        c["num-tp:" + ("factor-scaled" if stp["oexp"] else "factor-O(1)") + ("/annihilates-frozen-site" if stp["kill"] else "")] += 1
                    if stp["a"] == "ttno":
                        c["num-ttno:" + ("scaled-" + stp["hwhere"] if stp["hexp"] else "O(1)")
                          + ("/every-term-annihilates-one-site" + ("+control-term" if stp["control"] else "") if stp["annih"] else "")] += 1
        c.update(self._stats)
        return dict(c)

    # ---------------------------------------------------------------------------------------
    def _setup(self, case):
        rng = random.Random(case["seed"])
        names = case["names"]
        ttns = build_named_ttns(rng, case["parents"], names, case["phys"], bond=case.get("bond"),
                                complex_=(case.get("sdtype", "complex") != "real"), layout=case.get("slayout", "C"))
        if case.get("canon", case["seed"] % 3 == 0):
            # a state handed over in canonical form (recorded orthogonality centre at a random node)
            ttns.canonical_form(random.Random(case["seed"] + 1).choice(list(ttns.nodes)))
        if case["op"] == "num":
            apply_tweaks(ttns, names, case)
        ref = copy.deepcopy(ttns)        # untouched copy: every reference value is computed from it
        ttndo = from_ttns(ttns, root_id=case["root_id"], root_bond_dim=case["k"])
        return ttns, ref, ttndo

    def _impl_one(self, case):
        op = case["op"]
        if op == "ids":
            d = SymmetricTTNDO(bra_suffix=case["bsuf"], ket_suffix=case["ksuf"])

            def guard(f, s):
                try:
                    return f(s)
                except AssertionError:
                    return None
            rows = []
            for s in case["strings"]:
                rows.append([d.ket_id(s), d.bra_id(s), guard(d.reverse_ket_id, s), guard(d.reverse_bra_id, s),
                             guard(d.ket_to_bra_id, s), guard(d.bra_to_ket_id, s), s.endswith(case["ksuf"])])
            return {"rows": rows}
        if op == "reject":
            st = TTNS()
            if not case["empty"]:
                st.add_root(Node(identifier="n0"), np.array([1.0 + 2.0j, 0.5]))
            try:
                from_ttns(st, root_bond_dim=case["k"])
                return {"code": 0}
            except ValueError as e:
                return {"code": 1, "msg": str(e)}
            except KeyError as e:
                return {"code": 2, "msg": str(e)}
        ttns, ref, ttndo = self._setup(case)
        names = case["names"]
        ids = list(names)                        # dense axis order = node index order
        dims = {nm: ref.nodes[nm].open_dimension() for nm in names}
        psi = util.dense_vec(ref, ids)
        nrm = complex(np.vdot(psi, psi))
        ob = {"norm2": cplx(nrm)}
        if op == "build":
            index = {nm: i for i, nm in enumerate(names)}
            ob["rtree"] = rtree_of(ref, index)
            ob["bond"] = [0 if ref.nodes[nm].is_root() else int(logical_tensor(ref, nm).shape[0]) for nm in names]
            ob["phys"] = [int(dims[nm]) for nm in names]
            ob["snap"] = wmodel.snapshot(ttndo)
            ob["shapes"] = {nid: [int(x) for x in nd.shape] for nid, nd in ttndo.nodes.items()}
            root_t = logical_tensor(ttndo, ttndo.root_id)
            ob["root_rows"] = [[(int(v) if float(v).is_integer() else float(v)) for v in row] for row in np.real(root_t[:, :, 0]).tolist()] \
                if root_t.ndim == 3 else None
            ob["root_imag_zero"] = bool(not np.iscomplexobj(root_t) or not np.any(np.imag(root_t)))
            rname = ref.root_id
            content = True
            pads = {}
            for nm in names:
                src = logical_tensor(ref, nm)
                for side, suf, want in (("ket", KSUF, src), ("bra", BSUF, np.conj(src))):
                    nid = nm + suf
                    if nid not in ttndo.nodes:
                        content = False
                        continue
                    got = logical_tensor(ttndo, nid)
                    if nm == rname:
                        pads[side] = [bool(np.any(got[a] != 0)) for a in range(got.shape[0])]
                        content = content and got.shape[1:] == want.shape and bool(np.array_equal(got[0], want))
                    else:
                        content = content and got.shape == want.shape and bool(np.array_equal(got, want))
            ob["content_equal"] = content
            ob["pads"] = pads
            ob["source_unchanged"] = bool(np.array_equal(util.dense_vec(ttns, ids), psi))
            try:
                ob["order"] = list(ttndo_contraction_order(ttndo))
            except Exception as e:  # noqa
                ob["order"] = f"{type(e).__name__}: {e}"
            ob["idmaps"] = [[ttndo.ket_id(nm), ttndo.bra_id(nm), ttndo.reverse_ket_id(nm + KSUF), ttndo.ket_to_bra_id(nm + KSUF),
                             ttndo.reverse_bra_id(nm + BSUF), ttndo.bra_to_ket_id(nm + BSUF)] for nm in names]
            if content and case.get("contr", True):      # [contr] diagram-level tie of the contraction code
                ob["contr"] = contr_impl(case, ref, ttndo)
            return ob
        if op == "trace":
            ob["value"] = cplx(ttndo.trace())
            ob["norm_value"] = cplx(ttndo.norm())
            return ob
        if op == "ttno":
            hr = random.Random(case["hseed"])
            ham = util.rand_ham(hr, ids, dims, case["nterms"], hermitian=False, coeffs=case["coeffs"])
            H = util.dense_ham(ham, ids, dims)
            ttno = util.TTNO.from_hamiltonian(copy.deepcopy(ham), ref)
            ob["value"] = cplx(ttndo.operator_expectation_value(ttno))
            ob["value2"] = cplx(ttndo.ttno_expectation_value(ttno))
            ob["ref"] = cplx(np.vdot(psi, H @ psi))
            ob["scale"] = float(abs(nrm) * max(1.0, np.linalg.norm(H, 2)))
            ob["hermitian_part_only"] = cplx(np.vdot(psi, (H + H.conj().T) / 2 @ psi))
            return ob
        if op == "tp":
            nprs = np.random.RandomState(case["oseed"] % (2 ** 31))
            sites = [names[i] for i in case["sites"]]
            mats = [make_factor(nprs, dims[nm], case.get("odtype", "complex"), case.get("olayout", "C")) for nm in sites]
            keep = [np.array(m) for m in mats]        # the factors as handed over (the call must not change them)
            opd = {nm: m for nm, m in zip(sites, mats)}
            if not case.get("fresh", False):
                ob["receiver_trace_before"] = cplx(ttndo.trace())
            rec = Recorder(ttndo, mats)
            with rec:
                if case["via"] == "single" and len(sites) == 1:
                    val = ttndo.single_site_operator_expectation_value(sites[0], mats[0])
                else:
                    val = ttndo.operator_expectation_value(TensorProduct(opd))
            ob["value"] = cplx(val)
            ob["events"] = rec.events
            ob["self_log_after"] = copy.deepcopy(ttndo.__dict__.get("_c16_log", []))
            ob["ref"] = cplx(np.vdot(psi, util.dense_tp(opd, ids, dims) @ psi))
            if sites:
                ob["ref_last"] = cplx(np.vdot(psi, util.dense_tp({sites[-1]: mats[-1]}, ids, dims) @ psi))
            ob["ref_sp"] = cplx(nrm * nrm)
            ob["scale"] = float(abs(nrm) * max(1.0, float(np.prod([np.linalg.norm(m, 2) for m in mats])) if mats else 1.0))
            # the receiver still represents the same state
            ob["receiver_trace_after"] = cplx(ttndo.trace())
            ob["factors_unchanged"] = bool(all(np.array_equal(a, b) for a, b in zip(keep, mats)))
            return ob
        if op == "hist":
            ob["steps"] = self._impl_hist(case, ttns, ref, ttndo, psi, ids, dims)
            return ob
        if op == "num":
            ob["steps"] = self._impl_num(case, ref, ttndo, psi, ids, dims)
            return ob
        raise ValueError(op)

    def _impl_num(self, case, ref, ttndo, psi, ids, dims):
        """the measurements of a num case on ONE network; every record carries the dense reference and the scale rounding
        errors live on (|<psi|psi>| times the product of the factor norms resp. the sum over the terms of |c| prod ||factor||)"""
        names = case["names"]
        nrm = complex(np.vdot(psi, psi))
        recs = []
        for stp in case["meas"]:
            a = stp["a"]
            rec = {"a": a}
            try:
                with np.errstate(all="ignore"):
                    if a == "trace":
                        rec.update(value=cplx(ttndo.trace()), ref=cplx(nrm), scale=float(abs(nrm)))
                    elif a == "tp":
                        nprs = np.random.RandomState(stp["oseed"] % (2 ** 31))
                        sites = [names[i] for i in stp["sites"]]
                        mats = []
                        for q, i in enumerate(stp["sites"]):
                            if stp["kill"] and stp["kill"][0] == i:
                                m = kill_matrix(nprs, dims[names[i]], stp["kill"][1], stp["kill"][2])
                            else:
                                m = make_factor(nprs, dims[names[i]])
                            if q == 0 and stp["oexp"]:
                                m = m * 10.0 ** stp["oexp"]
                            mats.append(m)
                        opd = {nm: m for nm, m in zip(sites, mats)}
                        v = ttndo.operator_expectation_value(TensorProduct(opd))
                        rec.update(value=cplx(v), ref=cplx(np.vdot(psi, util.dense_tp(opd, ids, dims) @ psi)),
                                   scale=float(abs(nrm) * float(np.prod([np.linalg.norm(m, 2) for m in mats])) if mats else abs(nrm)),
                                   sites=stp["sites"])
                    elif a == "ttno":
                        ham, H, tscale = num_ham(stp, ids, dims)
                        ttno = util.TTNO.from_hamiltonian(copy.deepcopy(ham), ref)
                        rec.update(value=cplx(ttndo.operator_expectation_value(ttno)), ref=cplx(np.vdot(psi, H @ psi)),
                                   scale=float(abs(nrm) * tscale),
                                   terms=[[str(fr), g, {k: v for k, v in tp.items()}] for fr, g, tp in ham.terms])
                    else:
                        raise ValueError(a)
            except Exception as e:  # noqa
                import traceback
                rec["exc"] = f"{type(e).__name__}: {e}"
                rec["tb"] = traceback.format_exc()[-800:]
            recs.append(rec)
        return recs

    def _impl_hist(self, case, ttns, ref, ttndo, psi, ids, dims):
        """runs the history of the case; one record per step. Measurements on the first network carry the dense reference
        computed from psi = the state the network was built from; `second` networks the state the source represents when
        they are built (dense contraction of a deep copy of the source at that moment)."""
        names = case["names"]
        nrm = complex(np.vdot(psi, psi))
        recs = []
        last_tp = None

        def measure_tp(net, vec, opd, mats):
            v = net.operator_expectation_value(opd if isinstance(opd, TensorProduct) else TensorProduct(opd))
            n2 = abs(np.vdot(vec, vec))
            return {"value": cplx(v), "ref": cplx(np.vdot(vec, util.dense_tp(dict(opd), ids, dims) @ vec)),
                    "scale": float(n2 * max(1.0, float(np.prod([np.linalg.norm(m, 2) for m in mats])) if mats else 1.0))}
        for stp in case["steps"]:
            a = stp["a"]
            rec = {"a": a}
            try:
                if a == "trace":
                    rec.update(value=cplx(ttndo.trace()), ref=cplx(nrm), scale=float(abs(nrm)))
                elif a == "tp":
                    nprs = np.random.RandomState(stp["oseed"] % (2 ** 31))
                    sites = [names[i] for i in stp["sites"]]
                    mats = [make_factor(nprs, dims[nm], stp["odtype"], stp["olayout"]) for nm in sites]
                    keep = [np.array(m) for m in mats]
                    tp = TensorProduct({nm: m for nm, m in zip(sites, mats)})
                    rec.update(measure_tp(ttndo, psi, tp, keep))
                    rec["factors_unchanged"] = bool(list(tp.keys()) == sites and all(np.array_equal(k, tp[nm]) for k, nm in zip(keep, sites)))
                    last_tp = (tp, keep)
                    rec["sites"] = stp["sites"]
                elif a == "tp_again":
                    if last_tp is None:
                        continue
                    # the reference is computed from the factors as they were handed over the first time
                    tp, keep = last_tp
                    ref_opd = {nm: k for nm, k in zip(list(tp.keys()), keep)} if len(tp) == len(keep) else dict(tp)
                    v = ttndo.operator_expectation_value(tp)
                    rec.update(value=cplx(v), ref=cplx(np.vdot(psi, util.dense_tp(ref_opd, ids, dims) @ psi)),
                               scale=float(abs(nrm) * max(1.0, float(np.prod([np.linalg.norm(m, 2) for m in keep])) if keep else 1.0)))
                elif a == "ttno":
                    hr = random.Random(stp["hseed"])
                    ham = util.rand_ham(hr, ids, dims, stp["nterms"], hermitian=False, coeffs=stp["coeffs"])
                    H = util.dense_ham(ham, ids, dims)
                    ttno = util.TTNO.from_hamiltonian(copy.deepcopy(ham), ref)
                    rec.update(value=cplx(ttndo.operator_expectation_value(ttno)), ref=cplx(np.vdot(psi, H @ psi)),
                               scale=float(abs(nrm) * max(1.0, np.linalg.norm(H, 2))))
                elif a == "tp_bad":
                    nprs = np.random.RandomState(stp["oseed"] % (2 ** 31))
                    sites = [names[i] for i in stp["sites"]]
                    items = [(nm, make_factor(nprs, dims[nm], stp["odtype"], stp["olayout"])) for nm in sites]
                    items.insert(stp["pos"], bad_factor(nprs, stp, names, dims, case["root_id"]))
                    keep = [(k, np.array(m)) for k, m in items]
                    tp = TensorProduct(dict(items))
                    rec.update(kind=stp["kind"], keys=[k for k, _ in items], pos=stp["pos"], shape=list(items[stp["pos"]][1].shape))
                    try:
                        v = ttndo.operator_expectation_value(tp)
                        rec["accepted"] = cplx(v)
                    except Exception as e:  # noqa  (the rejection the caller catches)
                        rec["raised"] = f"{type(e).__name__}: {str(e)[:120]}"
                    rec["factors_unchanged"] = bool(list(tp.keys()) == [k for k, _ in keep]
                                                    and all(np.array_equal(m, tp[k]) for k, m in keep))
                elif a in ("net_canon", "net_orth", "net_move", "net_copy"):
                    # the caller changes the gauge of the NETWORK / goes on with a copy of it; failures of these calls belong
                    # to other properties and end the history
                    try:
                        if a == "net_copy":
                            if stp["how"] == "pickle":
                                import pickle
                                ttndo = pickle.loads(pickle.dumps(ttndo))
                            else:
                                ttndo = copy.deepcopy(ttndo)
                        else:
                            nm = names[stp["node"]]
                            target = {"root": ttndo.root_id, "ket": nm + KSUF, "bra": nm + BSUF}[stp["side"]]
                            rec["target"] = target
                            if a == "net_canon":
                                ttndo.canonical_form(target)
                            elif a == "net_orth":
                                ttndo.orthogonalize(target)
                            elif ttndo.orthogonality_center_id is None:
                                ttndo.canonical_form(target)
                            else:
                                ttndo.move_orthogonalization_center(target)
                    except Exception as e:  # noqa
                        rec["src_exc"] = f"{type(e).__name__}: {e}"
                        recs.append(rec)
                        break
                elif a == "second":
                    vec = util.dense_vec(copy.deepcopy(ttns), ids)
                    net = from_ttns(ttns, root_id=case["root_id"], root_bond_dim=stp["k"])
                    n2 = complex(np.vdot(vec, vec))
                    rec.update(value=cplx(net.trace()), ref=cplx(n2), scale=float(abs(n2)))
                    recs.append(rec)
                    rec = {"a": "second_tp"}
                    nm = names[stp["site"]]
                    m = make_factor(np.random.RandomState(stp["oseed"] % (2 ** 31)), dims[nm])
                    rec.update(measure_tp(net, vec, {nm: m}, [np.array(m)]))
                else:
                    # the caller goes on using the SOURCE state; nothing is judged here, failures of these calls belong to
                    # other properties and end the history
                    try:
                        if a == "src_apply":
                            nprs = np.random.RandomState(stp["oseed"] % (2 ** 31))
                            sites = [names[i] for i in stp["sites"]]
                            ttns.apply_operator(TensorProduct({nm: make_factor(nprs, dims[nm], stp["odtype"], stp["olayout"]) for nm in sites}))
                        elif a == "src_canon":
                            ttns.canonical_form(names[stp["node"]])
                        elif a == "src_move":
                            if ttns.orthogonality_center_id is None:
                                ttns.canonical_form(names[stp["node"]])
                            else:
                                ttns.move_orthogonalization_center(names[stp["node"]])
                        elif a == "src_measure":
                            nm = names[stp["site"]]
                            ttns.single_site_operator_expectation_value(nm, make_factor(np.random.RandomState(stp["oseed"] % (2 ** 31)), dims[nm]))
                        elif a == "src_normalise":
                            rec["centre"] = ttns.orthogonality_center_id
                            ttns.normalise()
                        elif a == "src_inplace":
                            # the caller scales an array its own state holds, in place
                            arr = ttns.tensors[names[stp["node"]]]
                            arr *= stp["factor"]
                        else:
                            raise ValueError(a)
                    except Exception as e:  # noqa
                        rec["src_exc"] = f"{type(e).__name__}: {e}"
                        recs.append(rec)
                        break
            except Exception as e:  # noqa
                import traceback
                rec["exc"] = f"{type(e).__name__}: {e}"
                rec["tb"] = traceback.format_exc()[-800:]
                recs.append(rec)
                break
            recs.append(rec)
        return recs

    def impl(self, ctx, cases):
        out = []
        for c in cases:
            try:
                out.append(self._impl_one(c))
            except Exception as e:  # noqa
                import traceback
                out.append({"exception": f"{type(e).__name__}: {e}", "tb": traceback.format_exc()[-1500:]})
        return out

    # ---------------------------------------------------------------------------------------
    def model(self, ctx, cases, obs):
        exprs, where = [], []
        for i, (c, ob) in enumerate(zip(cases, obs)):
            if isinstance(ob, dict) and "exception" in ob and c["op"] in ("build", "ids", "reject"):
                continue
            if c["op"] == "build":
                t = coq_rtree(ob["rtree"])
                args = f"{coq_fun(ob['bond'])} {coq_fun(ob['phys'])} {coq_nat(c['k'])} {t}"
                exprs.append(f"build_obs {args}")
                where.append((i, "obs"))
                exprs.append(f"Store.observe (fst (from_ttns_store {args}))")
                where.append((i, "store"))
                nameargs = f"{coq_string(c['root_id'])} {coq_string(KSUF)} {coq_string(BSUF)} {coq_names(c['names'])}"
                exprs.append(f"map (fun r => (code (dn_id r), name_of {nameargs} (dn_id r))) (doubled {args})")
                where.append((i, "names"))
                tail = f"{nameargs} {t}"
                exprs.append(f"(map code (contraction_order_s true {tail}), map code (contraction_order_s false {tail}))")
                where.append((i, "order"))
            elif c["op"] == "tp":
                nodes = coq_list(c["sites"], coq_nat)
                exprs.append(f"(tp_obs false false {nodes}, tp_obs true true {nodes})")
                where.append((i, "tp"))
            elif c["op"] == "reject":
                exprs.append(f"from_ttns_guard ({int(c['k'])})%Z {'None' if c['empty'] else '(Some (RNode 0%nat []))'}")
                where.append((i, "guard"))
            elif c["op"] == "ids":
                ks, bs = coq_string(c["ksuf"]), coq_string(c["bsuf"])
                rows = []
                for s in c["strings"]:
                    q = coq_string(s)
                    rows.append(f"(ket_id_s {ks} {q}, bra_id_s {bs} {q}, reverse_id_s {ks} {q}, reverse_id_s {bs} {q}, "
                                f"ket_to_bra_id_s {ks} {bs} {q}, bra_to_ket_id_s {ks} {bs} {q}, ends_with {ks} {q})")
                exprs.append("[" + "; ".join(rows) + "]")
                where.append((i, "ids"))
        vals = coq_eval(ctx, IMPORTS, exprs, shard=60, scope="nat_scope")
        # [contr] the contraction programs and their checkers, one expression per build case (own imports: Contr/Closed.v
        # and Tree/RTree.v both define `rid`)
        cidx = [i for i, (c, ob) in enumerate(zip(cases, obs)) if isinstance(ob, dict) and "contr" in ob]
        cvals = coq_eval(ctx, CONTR_IMPORTS, [contr_expr(cases[i], obs[i]) for i in cidx], shard=12, scope="nat_scope")
        where = where + [(i, "contr") for i in cidx]
        vals = list(vals) + list(cvals)
        # [value] hypotheses of C16_trace_value on the same build cases
        vvals = coq_eval(ctx, VALUE_IMPORTS, [value_expr(cases[i], obs[i]) for i in cidx], shard=30, scope="nat_scope")
        where = where + [(i, "vhyp") for i in cidx]
        vals = vals + list(vvals)
        out = [None] * len(cases)
        for (i, key), v in zip(where, vals):
            if out[i] is None:
                out[i] = {}
            if isinstance(v, BaseException):
                out[i] = v
            elif not isinstance(out[i], BaseException):
                out[i][key] = v
        return out

    @staticmethod
    def _name_table(case):
        n = len(case["names"])
        r = [None] * (2 * n + 3)
        r[0] = case["root_id"]
        for i, nm in enumerate(case["names"]):
            r[2 * i + 1] = nm + KSUF
            r[2 * i + 2] = nm + BSUF
        return r

    def compare(self, case, ob, mo):
        op = case["op"]
        if "exception" in ob:
            if op in ("trace", "ttno", "num"):
                return None             # no model for the numerical paths: the oracle reports the exception
            if op == "tp" and case.get("variant") == "suffix":
                return None             # outside the stated precondition (the oracle decides, see _suffix_gate)
            return f"implementation raised {ob['exception']} where the model runs"
        if op == "reject":
            if ob["code"] != mo["guard"]:
                return f"from_ttns(k={case['k']}, empty={case['empty']}): impl outcome {ob} model {mo['guard']} (0 accept, 1 ValueError, 2 KeyError)"
            return None
        if op == "ids":
            rows_m = mo["ids"]
            for s, ri, rm in zip(case["strings"], ob["rows"], rows_m):
                rm = [unsome(x) for x in rm]
                if list(ri) != list(rm):
                    return f"identifier functions on {s!r} (suffixes {case['ksuf']!r},{case['bsuf']!r}): impl {ri} model {rm}"
            return None
        if op == "build":
            # identifier strings as the model's name_of produces them (not re-derived here)
            table = [None] * (2 * len(case["names"]) + 3)
            for c, name in mo["names"]:
                table[c] = name

            def nm(c):
                return table[c] if c < len(table) and table[c] is not None else f"?{c}"
            (recs, order, eye, pad, (store_ok, wires_ok)) = mo["obs"]
            self._inst[0] += 2
            self._inst[1] += int(bool(store_ok)) + int(bool(wires_ok))
            if not store_ok:
                return "model: the store program of from_ttns does not reproduce the direct description (store_check = false)"
            if not wires_ok:
                return "model: a child's leg 0 is not the wire of its parent's leg (wires_check = false)"
            impl_nodes = [[n[0], n[1], n[2], n[3], ob["shapes"][n[0]]] for n in ob["snap"]["nodes"]]
            model_nodes = [[nm(c), (nm(unsome(p)) if p is not None else None), [nm(x) for x in ch], list(perm), list(shp)]
                           for (c, p, ch, perm, shp) in recs]
            if impl_nodes != model_nodes:
                for a, b in zip(impl_nodes, model_nodes):
                    if a != b:
                        return f"node record differs: impl {a} model {b}"
                return f"node sets differ: impl {[a[0] for a in impl_nodes]} model {[b[0] for b in model_nodes]}"
            idm = type("T", (), {"r": table})()
            d = wmodel.compare_snapshot(ob["snap"], wmodel.model_obs_to_py(mo["store"], idm))
            if d:
                return "store model: " + d
            if ob["root_rows"] != [list(r) for r in eye] or not ob["root_imag_zero"]:
                return f"artificial root tensor: impl {ob['root_rows']} model eye {eye}"
            for side in ("ket", "bra"):
                if ob["pads"].get(side) != list(pad):
                    return f"padded {side} root leg: non-zero slices impl {ob['pads'].get(side)} model {pad}"
            if not ob["content_equal"]:
                return "a ket tensor differs from the state's tensor or a bra tensor from its conjugate (slice 0 for the root)"
            if not ob["source_unchanged"]:
                return "from_ttns changed the state it was built from"
            # either filter variant of the model: the regex of the code as it stands or the repaired endswith
            want_orders = [[nm(c) for c in o] for o in mo["order"]]
            if ob["order"] not in want_orders:
                return f"contraction order: impl {ob['order']} model (regex filter) {want_orders[0]} (endswith filter) {want_orders[1]}"
            for i, name in enumerate(case["names"]):
                want = [name + KSUF, name + BSUF, name, name + BSUF, name, name + KSUF]
                if ob["idmaps"][i] != want:
                    return f"identifier maps for {name!r}: impl {ob['idmaps'][i]} expected {want}"
            return contr_compare(self, case, ob, mo)      # [contr]
        if op == "tp":
            table = {v: c for c, v in enumerate(self._name_table(case)) if v is not None}
            ff0, ff1, tt = mo["tp"]        # Coq prints ((a, b), (c, d)) as (a, b, (c, d))
            ff = (ff0, [tuple(x) for x in ff1])
            tt = (tt[0], [tuple(x) for x in tt[1]])
            ev = ob["events"]
            if len(ev) != 1:
                return f"{len(ev)} final evaluations recorded, the model has exactly one"
            real = (ev[0][0] == "trace", [(table.get(nid, -1), idx) for nid, idx in ev[0][1]])
            if ob["self_log_after"]:
                return f"the receiver was modified: factors {ob['self_log_after']} absorbed into self"
            if real == ff:
                if ev[0][2] and case["sites"]:
                    return "the receiver itself was traced after absorbing factors"
                return None
            if real == tt:
                tag = "[bug_empty]" if not case["sites"] else "[bug_loop]"
                return f"agrees with the defect model {tag}: functional={ev[0][0]} applied={real[1]}, repaired model applies {ff[1]}"
            return f"control flow: impl functional={ev[0][0]} applied={real[1]}; model repaired={ff} defect={tt}"
        return None

    # ---------------------------------------------------------------------------------------
    @staticmethod
    def _close(a, b, scale):
        return abs(a - b) <= 1e-9 * (1.0 + abs(b) + scale)

    def _suffix_gate(self, case, msg):
        """names containing the ket suffix are outside the stated precondition unless the finding is on record"""
        self._stats["outside-precondition-deviations"] += 1
        if K_SUFFIX in self._known_all:
            return msg + " [id-contains-ket-suffix]"
        return None

    def oracle(self, case, ob):
        op = case["op"]
        if op in ("ids", "build", "reject"):
            if "exception" in ob:
                return f"{op}: raised {ob['exception']}"
            return contr_oracle(self, case, ob) if op == "build" else None      # [contr]
        outside = case.get("variant") == "suffix"
        if "exception" in ob:
            msg = f"{op} on names {case['names']}: raised {ob['exception']}"
            return self._suffix_gate(case, msg) if outside else msg
        if op == "hist":
            msg = self._oracle_hist(case, ob)
            return (self._suffix_gate(case, msg) if outside else msg) if msg else None
        if op == "num":
            msg = self._oracle_num(case, ob)
            return (self._suffix_gate(case, msg) if outside else msg) if msg else None
        nrm = uncplx(ob["norm2"])
        val = uncplx(ob["value"])
        if op == "trace":
            for key in ("value", "norm_value"):
                v = uncplx(ob[key])
                if not self._close(v, nrm, abs(nrm)):
                    msg = f"trace: {key} {v} but <psi|psi> = {nrm} (names {case['names']}, k={case['k']})"
                    return self._suffix_gate(case, msg) if outside else msg
            return None
        if op == "ttno":
            ref = uncplx(ob["ref"])
            for key in ("value", "value2"):
                v = uncplx(ob[key])
                if not self._close(v, ref, ob["scale"]):
                    msg = f"TTNO expectation {key} = {v} but <psi|H|psi> = {ref} (k={case['k']}, tree {case['parents']})"
                    return self._suffix_gate(case, msg) if outside else msg
            return None
        if op == "tp":
            ref = uncplx(ob["ref"])
            sc = ob["scale"]
            if self._close(val, ref, sc):
                before = uncplx(ob["receiver_trace_before"]) if "receiver_trace_before" in ob else nrm
                for want in (before, nrm):
                    if not self._close(uncplx(ob["receiver_trace_after"]), want, abs(nrm)):
                        msg = (f"tensor product on sites {case['sites']}: the call changed the receiver, its trace went from "
                               f"{want} to {uncplx(ob['receiver_trace_after'])}")
                        return self._suffix_gate(case, msg) if outside else msg
                if ob.get("factors_unchanged") is False:
                    return f"tensor product on sites {case['sites']}: the call changed the operator matrices it was given"
                return None
            m = len(case["sites"])
            if m == 0 and self._close(val, uncplx(ob["ref_sp"]), abs(nrm) ** 2):
                return (f"empty tensor product: value {val} is the scalar product <rho|rho> = <psi|psi>^2, the trace <psi|psi> is {ref} "
                        f"[scalar-product] (tree {case['parents']}, k={case['k']})")
            if m >= 2 and self._close(val, uncplx(ob["ref_last"]), sc):
                return (f"tensor product of {m} factors: value {val} equals the value with only the last factor applied, "
                        f"<psi|(x)O|psi> = {ref} [last-only] (tree {case['parents']}, sites {case['sites']}, k={case['k']})")
            msg = (f"tensor product on sites {case['sites']}: value {val} but <psi|(x)O|psi> = {ref} (tree {case['parents']}, k={case['k']}, state stored as "
                   f"{case.get('sdtype', 'complex')}/{case.get('slayout', 'C')}, factors {case.get('odtype', 'complex')}/{case.get('olayout', 'C')}, "
                   f"{'first call on the fresh network' if case.get('fresh') else 'after a trace() call'})")
            return self._suffix_gate(case, msg) if outside else msg
        return None

    def _oracle_hist(self, case, ob):
        """every measurement of the history against its dense reference; the first deviation is reported with the steps
        that led to it"""
        done = []
        for rec in ob["steps"]:
            a = rec["a"]
            if "src_exc" in rec:
                self._stats["hist:network-regauge/copy-call-raised" if a.startswith("net_") else "hist:source-call-raised"] += 1
                return None
            msg = None
            if "exc" in rec:
                msg = f"step {len(done)} ({a}) raised {rec['exc']}"
            elif a == "tp_bad":
                self._stats["hist:ill-formed product " + ("rejected" if "raised" in rec else "accepted")] += 1
                if "accepted" in rec:
                    msg = (f"step {len(done)}: an ill-formed tensor product (keys {rec['keys']}, factor {rec['pos']} is {rec['kind']} with shape "
                           f"{rec['shape']}) was not rejected but gave {uncplx(rec['accepted'])}")
                elif rec.get("factors_unchanged") is False:
                    msg = f"step {len(done)}: the rejected call changed the TensorProduct / operator matrices it was given"
            elif "value" in rec:
                v, r = uncplx(rec["value"]), uncplx(rec["ref"])
                if not self._close(v, r, rec["scale"]):
                    what = {"trace": "trace()", "tp": f"tensor product on sites {rec.get('sites')}", "tp_again": "the same TensorProduct object measured again",
                            "ttno": "TTNO expectation value", "second": "trace() of a second network built from the same source",
                            "second_tp": "single-site expectation value on a second network built from the same source"}[a]
                    msg = f"step {len(done)}: {what} = {v} but the pure-state value is {r}"
                elif rec.get("factors_unchanged") is False:
                    msg = f"step {len(done)}: the call changed the TensorProduct / operator matrices it was given"
            if msg is not None:
                msg = (f"history on one network (tree {case['parents']}, k={case['k']}, state stored as {case.get('sdtype', 'complex')}/"
                       f"{case.get('slayout', 'C')}) after steps {done}: {msg}")
                return msg
            done.append(a + (str(rec["sites"]) if "sites" in rec else "")
                        + (f"({rec['target']!r})" if "target" in rec else "")
                        + (f"(keys {rec['keys']}, factor {rec['pos']} rejected: {rec['kind']} shape {rec['shape']} -> {rec.get('raised')})"
                           if a == "tp_bad" else ""))
        return None

    @staticmethod
    def _close_rel(a, b, scale):
        """relative to the reference and the scale rounding errors live on; no absolute term (nan / inf are never close)"""
        return bool(abs(a - b) <= 1e-9 * (abs(b) + scale))

    def _oracle_num(self, case, ob):
        """every measurement of a num case against its dense reference with a RELATIVE tolerance"""
        def e10(e):
            return f"1e{e:+.3g}" if e else "1"
        for k, rec in enumerate(ob["steps"]):
            a = rec["a"]
            msg = None
            if "exc" in rec:
                msg = f"{a} raised {rec['exc']}"
            else:
                v, r = uncplx(rec["value"]), uncplx(rec["ref"])
                if r == 0:
                    self._stats["num:reference-exactly-0"] += 1
                if not self._close_rel(v, r, rec["scale"]):
                    stp = case["meas"][k]
                    what = {"trace": "trace()",
                            "tp": f"tensor product on sites {rec.get('sites')}"
                                  + (f" (first factor times {e10(stp.get('oexp'))})" if stp.get("oexp") else "")
                                  + (f" (factor on site {stp['kill'][0]}: '{stp['kill'][2]}' matrix with <{stp['kill'][1]}|.|{stp['kill'][1]}> = 0)" if stp.get("kill") else ""),
                            "ttno": "TTNO expectation value"
                                    + (f" (Hamiltonian scaled by {e10(stp.get('hexp'))} in a {stp.get('hwhere')})" if stp.get("hexp") else "")
                                    + (f" (every term acts on site {stp['annih'][0]} with an operator whose <{stp['annih'][1]}|.|{stp['annih'][1]}> element is exactly 0"
                                       + (", plus one term not acting on it" if stp.get("control") else "") + ")" if stp.get("annih") else "")
                                    + f" terms {rec.get('terms')}"}[a]
                    msg = f"{what} = {v} but the pure-state value is {r} (rounding scale {rec['scale']:.3g})"
            if msg is not None:
                return (f"{case['kind']} state (tree {case['parents']}, k={case['k']}, physical dimensions {case['phys']}, tensor of node i multiplied by "
                        f"{[e10(e) for e in case['scales']]}, sites frozen in a basis state [node, j]: {case['frozen']}; stored as "
                        f"{case.get('sdtype', 'complex')}/{case.get('slayout', 'C')}): measurement {k} on the network: {msg}")
        return None

    def classify(self, case, what, known):
        if case.get("op") == "tp":
            m = len(case["sites"])
            if m >= 2 and ("[last-only]" in what or "[bug_loop]" in what) and K_LOOP in known:
                return K_LOOP
            if m == 0 and ("[scalar-product]" in what or "[bug_empty]" in what) and K_EMPTY in known:
                return K_EMPTY
        if case.get("variant") == "suffix" and "[id-contains-ket-suffix]" in what and K_SUFFIX in known:
            return K_SUFFIX
        return None

    def extra_obligations(self, ctx):
        """store_check and wires_check evaluated by vm_compute for every explored build case (soundness: C16_store_check_sound)"""
        total, ok = self._inst
        fails = [] if ok == total else [f"{total - ok} of {total} per-instance checks (store_check / wires_check / contraction checkers) evaluated to false"]
        return total, ok, fails + self._contr_fail[:5]      # [contr]

    def sample_repr(self, case):
        return case
