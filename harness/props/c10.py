"""C10 — truncation keeps the right singular values and bounds the error it introduces.

Three kinds of cases
  sv   : one spectrum (exact dyadic rationals) x one parameter combination -> truncate_singular_values,
         compared EXACTLY with the Coq model Trunc/Select.v and with an independent restatement of
         the rule (plain Fractions).
  val  : SVDParameters validation (types and ranges of the three numeric fields).
  tsvd : truncated_tensor_svd / contr_truncated_svd_splitting on a random tensor and leg bipartition,
         checked against the harness' own numpy SVD of the matricisation.
  tree : recursive_truncation / svd_truncation on a random tree state; structure, bond limits,
         identity-when-nothing-is-discarded and the error bound are checked against an independent
         dense contraction; every call of truncate_singular_values made on the way is recorded and
         re-derived by the oracle (and, where the float comparison is exact, by the Coq model).
  hist : HISTORIES around the tree-level routines (oracle only, no model tie): ONE SVDParameters object is
         handed to 1..3 consecutive truncations (fresh states of different sizes, or the state the previous
         truncation left) and finally to a direct truncate_singular_values call; every state is prepared by a
         history of public operations (canonical_form, move_orthogonalization_center, absorb_into_open_legs
         with unitary / general / diagonal / rank-deficient operators, absorb_matrix on a virtual or open leg,
         replace_tensor, rescaling to a given norm) that ends with the caller's own canonical_form.  Every truncation of the history is judged like
         a tree case, with the parameter VALUES the caller put into the object and the dense state right
         before the call as the reference.
         [round 7] the parameter object is an SVDParameters, a subclass the library defines (BUGConfig) or a caller's dataclass
         subclass; between the truncations its fields are re-assigned (both directions), it is copied / deep-copied / pickled /
         dataclasses.replace()d, a construction with invalid values is rejected; between the caller's canonical_form and the
         truncation the state is observed (is_in_canonical_form, full scalar product, norm, expectation value) and the centre
         node is split by a bare split_node_svd / split_node_qr (one node more; reference = the tree right before the call);
         rejected calls (svd_truncation without recorded centre, split of an unknown node) must leave the state as it was.
"""
from __future__ import annotations

import copy
import itertools
import math
import random
import warnings
from collections import Counter
from fractions import Fraction

import numpy as np

from lib import Prop, coq_q, coq_nat, coq_z, coq_bool, coq_list
import util

INF = float("inf")

IMPORTS = ("From Coq Require Import ZArith QArith List. From PTN Require Import Trunc.Select. "
           "Import ListNotations.")
PRELUDE = """
Definition P mb rel tot rn st sr := {| max_bond := mb; rel_tol := rel; total_tol := tot; renorm := rn; sum_trunc := st; sum_renorm := sr |}.
Definition qz (q : Q) := (Qnum q, Zpos (Qden q)).
Definition out (r : option (list Q * list Q)) :=
  match r with None => None | Some (a, b) => Some (map qz a, map qz b) end.
Definition run (s : list Q) (g : list (mbd_arg * params)) :=
  map (fun mp => (validate (fst mp) (rel_tol (snd mp)) (total_tol (snd mp)), out (truncate (snd mp) s))) g.
Definition klen (p : params) (s : list Q) := (length (fst (select p s)), length (snd (select p s))).
"""


# ---- extended values ---------------------------------------------------------------------
def ext_parse(t):
    """'nan' | '-inf' | 'inf' | 'a/b' -> same strings or Fraction"""
    if t in ("nan", "-inf", "inf"):
        return t
    return Fraction(t)


def ext_float(t):
    t = ext_parse(t)
    if t == "nan":
        return float("nan")
    if t == "-inf":
        return -INF
    if t == "inf":
        return INF
    f = float(t)
    assert Fraction(f) == t, f"tolerance {t} is not a double"
    return f


def coq_ext(t):
    t = ext_parse(t)
    if t == "nan":
        return "NaN"
    if t == "-inf":
        return "NegInf"
    if t == "inf":
        return "PosInf"
    return f"(Fin {coq_q(t)})"


def fexact(fr):
    """the rational fr is exactly a double"""
    try:
        return Fraction(float(fr)) == fr
    except OverflowError:
        return False


def is_dyadic_square(fr):
    """fr >= 0 is the square of a rational whose square root is a double (then sqrt is exact)"""
    n, d = fr.numerator, fr.denominator
    rn, rd = math.isqrt(n), math.isqrt(d)
    return rn * rn == n and rd * rd == d and fexact(Fraction(rn, rd))


# ---- the oracle's own arithmetic on extended values (written from the property text) ------
def x_lt(a, b):
    """a < b for a, b in {'-inf','inf',Fraction}"""
    if a == b:
        return False
    if a == "-inf" or b == "inf":
        return True
    if a == "inf" or b == "-inf":
        return False
    return a < b


def x_max(a, b):
    return b if x_lt(a, b) else a


def x_scale(a, x):
    """a * x for a extended, x a rational; None when undefined (inf * 0)"""
    if isinstance(a, Fraction):
        return a * x
    if x == 0:
        return None
    pos = (a == "inf") == (x > 0)
    return "inf" if pos else "-inf"


def x_square(a):
    return a * a if isinstance(a, Fraction) else "inf"


def rule_from_text(s, mbd, rel, tot, sum_trunc, sum_renorm, slack=Fraction(1)):
    """Number of kept values according to the property statement, or a set of admissible numbers
    where the statement leaves the outcome open.  s: list of Fractions (descending, >= 0);
    mbd: int or 'inf'; rel, tot: '-inf' | 'inf' | Fraction.  `slack` scales the thresholds (used
    only for float spectra recorded at tree level, to recognise rounding-boundary decisions)."""
    n = len(s)
    cap = n if mbd == "inf" else min(mbd, n)
    if not sum_trunc:
        a = x_scale(rel, max(s))
        if a is None:
            # rel_tol infinite and s_max = 0: 'rel_tol * s_max' has no value; any non-empty prefix
            # within the bond limit is compatible with the text
            return set(range(1, cap + 1))
        thr = x_max(a, tot)
        if isinstance(thr, Fraction):
            thr = thr * slack
        above = [x_lt(thr, x) for x in s]
        k = sum(above)
        if above != [True] * k + [False] * (n - k):
            return "values above the cutoff are not a prefix (spectrum not descending?)"
    else:
        total = sum(x * x for x in s)
        thr2 = x_square(tot)
        if isinstance(thr2, Fraction):
            thr2 = thr2 * slack
        discard = 0
        for d in range(n + 1):               # candidate tails, shortest first; weights grow with d
            tail = s[n - d:]
            w = sum(x * x for x in tail)
            if sum_renorm and total != 0:
                w = w / total
            if not x_lt(thr2, w):            # weight does not exceed total_tol squared
                discard = d
        k = n - discard
    k = min(k, cap)
    return {max(k, 1)}


# ---- parameters --------------------------------------------------------------------------
def make_params(mbd, rel, tot, renorm, sum_trunc, sum_renorm):
    """(SVDParameters built the official way or, when validation rejects, by attribute assignment,
    verdict string)"""
    from pytreenet.util.tensor_splitting import SVDParameters
    kw = dict(max_bond_dim=mbd, rel_tol=rel, total_tol=tot, renorm=renorm, sum_trunc=sum_trunc,
              sum_renorm=sum_renorm)
    try:
        return SVDParameters(**kw), "Accept"
    except TypeError as e:
        verdict = "TypeError"
    except ValueError as e:
        msg = str(e)
        which = 0 if "max_bond_dim" in msg else 1 if "rel_tol" in msg else 2 if "total_tol" in msg else 9
        verdict = f"ValueError:{which}"
    p = SVDParameters()
    for k, v in kw.items():
        setattr(p, k, v)
    return p, verdict


def mbd_value(m):
    return INF if m == "inf" else int(m)


# ---- parameter objects of the histories (kind hist) -----------------------------------------------
HIST_ATTR = {"mbd": "max_bond_dim", "rel": "rel_tol", "tot": "total_tol", "renorm": "renorm", "sum_trunc": "sum_trunc",
             "sum_renorm": "sum_renorm"}
HIST_CLASSES = ["SVDParameters", "BUGConfig", "TruncationSettings"]


def hist_attr_value(key, v):
    """case spelling of a parameter value -> what the caller writes into the object"""
    if key == "mbd":
        return mbd_value(v)
    if key in ("rel", "tot"):
        return float(v)
    return bool(v)


def hist_values(case):
    """Replay of the parameter-object part of a history WITHOUT the library: the parameter VALUES (case spelling) the caller's
    object holds at each truncation of the history and at the final direct call -> (list per run, final)"""
    vals = {k: case[k] for k in HIST_ATTR}
    per_run = []
    for run in case["runs"]:
        for op in run.get("pobj", []):
            if op[0] == "set":
                vals[op[1]] = op[2]
            elif op[0] == "clone" and op[1] == "replace":
                vals.update(op[2])
        per_run.append(dict(vals))
    return per_run, dict(vals)



VAL_MBD = [{"t": "int", "v": 3}, {"t": "int", "v": 1}, {"t": "int", "v": 0}, {"t": "int", "v": -2},
           {"t": "bool", "v": True}, {"t": "bool", "v": False}, {"t": "inf"}, {"t": "-inf"}, {"t": "nan"},
           {"t": "float", "v": 2.0}, {"t": "float", "v": 0.0}, {"t": "str"}, {"t": "npint", "v": 3}, {"t": "none"}]


def val_mbd_object(m):
    t = m["t"]
    if t == "int":
        return int(m["v"])
    if t == "bool":
        return bool(m["v"])
    if t == "inf":
        return INF
    if t == "-inf":
        return -INF
    if t == "nan":
        return float("nan")
    if t == "float":
        return float(m["v"])
    if t == "str":
        return "3"
    if t == "npint":
        return np.int64(m["v"])
    return None


def val_mbd_coq(m):
    t = m["t"]
    if t in ("int", "bool"):
        return f"(MInt {coq_z(int(m['v']))})"
    if t == "inf":
        return "MInf"
    return "MOther"


# ---- float safety of an sv case ------------------------------------------------------------
def float_safe(case):
    """True iff every float operation truncate_singular_values performs on this input is exact or
    cannot change a decision; checked with exact rationals, without running the code.
    Returns (safe, why)."""
    s = [Fraction(x) for x in case["s"]]
    rel, tot = ext_parse(case["rel"]), ext_parse(case["tot"])
    def on_lattice(x):
        return (x * 1024).denominator == 1 and abs(x) < 2 ** 20
    if not all(on_lattice(x) for x in s) or any(isinstance(t, Fraction) and not on_lattice(t) for t in (rel, tot)):
        return False, "off the dyadic lattice k/1024, |x| < 2^20 (products, squares and sums of <= 8 terms are exact on it)"
    if not all(fexact(x) for x in s):
        return False, "spectrum not doubles"
    if not case["sum_trunc"]:
        if isinstance(rel, Fraction) and not fexact(rel * s[0]):
            return False, "rel*s0 rounds"
    else:
        sq = [x * x for x in s]
        run = Fraction(0)
        partial = []
        for q in reversed(sq):
            run += q
            partial.append(run)
        if not all(fexact(q) for q in sq) or not all(fexact(r) for r in partial):
            return False, "squares or partial sums round"
        if isinstance(tot, Fraction) and not fexact(tot * tot):
            return False, "tot**2 rounds"
        N = partial[-1]
        if case["sum_renorm"] and N != 0 and isinstance(tot, Fraction):
            thr = tot * tot
            sq_exact = is_dyadic_square(N)
            for T in partial:
                r = T / N
                if r == thr:
                    if T != 0 and not sq_exact:          # 0/normsq is 0 whatever normsq is
                        return False, "exact boundary with a rounded norm"
                elif abs(r - thr) <= Fraction(1, 10 ** 9) * max(r, thr):
                    return False, "near boundary"
    # renormalisation: sums and the product new_s*sum(s) must be exact (the division is then
    # correctly rounded and compared as such); any kept prefix is a prefix of s
    if case["renorm"]:
        tot_sum = sum(s)
        run = Fraction(0)
        for x in s:
            run += x
            if not fexact(run):
                return False, "sum rounds"
        if not all(fexact(x * tot_sum) for x in s):
            return False, "new_s*norm_old rounds"
    return True, ""


def coq_eval_files(ctx, imports, exprs, prelude="", shard=20, timeout=900, jobs=14):
    """lib.coq_eval with the coqc output redirected to files: lib.coq_eval polls the processes without
    draining their stdout pipes, so a shard printing more than the pipe buffer (64 KiB) blocks forever.
    Same file format, same parser."""
    import re
    import subprocess
    from concurrent.futures import ThreadPoolExecutor
    import lib
    if not exprs:
        return []
    ctx.ncoq += 1
    d = ctx.work / f"eval{ctx.ncoq}"
    d.mkdir()
    shards = [exprs[i:i + shard] for i in range(0, len(exprs), shard)]
    files = []
    for k, sh in enumerate(shards):
        f = d / f"cases_{k}.v"
        body = [lib.COQ_HEADER, imports, prelude, "Open Scope Z_scope."]
        for j, e in enumerate(sh):
            body.append(f"Definition case_{j} := {e}.")
            body.append(f"Eval vm_compute in case_{j}.")
        f.write_text("\n".join(body) + "\n")
        files.append(f)

    def one(k):
        f = files[k]
        with open(f.with_suffix(".out"), "w") as so, open(f.with_suffix(".err"), "w") as se:
            try:
                p = subprocess.run(["timeout", str(timeout), "coqc", "-Q", str(lib.THEORIES), "PTN", "-o",
                                    str(f.with_suffix(".vo")), str(f)], stdout=so, stderr=se, timeout=timeout + 30)
                rc = p.returncode
            except subprocess.TimeoutExpired:
                rc = 124
        return rc, f.with_suffix(".out").read_text(), f.with_suffix(".err").read_text()
    with ThreadPoolExecutor(max_workers=jobs) as ex:
        results = list(ex.map(one, range(len(shards))))
    values = []
    for k, sh in enumerate(shards):
        rc, out, err = results[k]
        if rc != 0:
            values += [RuntimeError(f"coqc failed on {files[k]} rc={rc}: {err[-1500:]}")] * len(sh)
            continue
        chunks = re.split(r"^\s*= ", out, flags=re.M)[1:]
        if len(chunks) != len(sh):
            values += [RuntimeError(f"coq output count mismatch {len(chunks)} vs {len(sh)} in {files[k]}")] * len(sh)
            continue
        for ch in chunks:
            idx = ch.rfind("\n     : ")
            if idx < 0:
                idx = ch.rfind(" : ")
            try:
                values.append(lib.parse_coq(ch[:idx]))
            except Exception as e:  # noqa
                values.append(RuntimeError(f"parse error: {e}: {ch[:200]}"))
    return values


def nonincreasing(alphabet, length):
    vals = sorted(alphabet, reverse=True)
    return [list(c) for c in itertools.combinations_with_replacement(vals, length)]


# ==== BEGIN Layer-W tie of the tree-level routines (model: coq/theories/TTN/TruncTree.v) ==========
# For a tree case the same tree is built a second time through wmodel.Driver (so every tensor is a
# recorded atom), optionally canonicalised, and the routine is run with recorders installed:
#   * every kernel factor entering the network (QR factors, truncated-SVD factors, the projector
#     pair handed to split_node_replace, the identity of insert_identity) becomes an atom, in call
#     order = the model's fresh_atom order;
#   * the number of singular values kept at every truncated bond is read from the recorded
#     truncate_singular_values calls and handed to the model (`kd`, keyed by the child of the bond).
# The model program (recursive_truncation / svd_truncation of TruncTree.v) is evaluated by vm_compute
# on the same build sequence; node dict order, parents, children order, leg permutations, recorded
# shapes, tensor dict order, root, raw shapes and the recorded centre must agree EXACTLY, and every
# raw tensor must equal its model diagram evaluated on the recorded atoms.
W_IMPORTS = ("From Coq Require Import List Arith Bool. From PTN Require Import TTN.Store TTN.Canon TTN.TruncTree "
             "TTN.Inv TTN.InvRun TTN.TruncTreeValue. Import ListNotations.")
W_TMP = "(fun j c n => 2000 + 3 * (16 * c + n) + j)"


def wtie_impl(case, p):
    import wmodel
    from props.c02 import gen_build_on
    import pytreenet.core.ttn as ttn_mod
    from pytreenet.util import tensor_splitting as ts
    import pytreenet.core.truncation.recursive_truncation as rt_mod
    import pytreenet.core.truncation.svd_truncation as st_mod
    rng = random.Random(case["seed"] * 7919 + 13)
    par = case["parents"]
    n = len(par)
    open_dims = [[rng.choice([2, 3])] for _ in range(n)]
    bond = {i: (case["bond"] if case["bond"] is not None else rng.choice([1, 2, 3])) for i in range(1, n)}
    ops = gen_build_on(rng, par, open_dims, bond)
    drv = wmodel.Driver(ttn_cls=util.TTNS, nprs=np.random.RandomState(case["seed"] % (2 ** 31)), complex_=case["complex"],
                        lowrank=0.5 if case["lowrank"] else 0.0)
    # what happens before the routine: svd_truncation needs a centre (a few cases go without: it must
    # raise, the model must reject); recursive_truncation canonicalises itself unless the root is
    # the recorded centre (all three situations are generated)
    r = rng.random()
    pre = []
    if case["algo"] == "svd":
        if r < 0.9 or n == 1:
            pre = [["canon", f"n{case['centre']}", "reduced"]]
    else:
        if r < 0.3:
            pre = [["canon", "n0", "reduced"]]
        elif r < 0.6:
            pre = [["canon", f"n{case['centre']}", "reduced"]]
    ops = ops + pre
    for op in ops:
        ok, err = drv.apply(op)
        if not ok:
            return {"exception": f"harness(wtie): build op {op} rejected: {err}"}
    t = drv.ttn
    w = {"algo": case["algo"], "ops": ops, "pre_snap": wmodel.snapshot(t), "pre_centre": t.orthogonality_center_id}
    kept, visits = [], []
    # [ext-C10V] number of values each truncate_singular_values call discards, and the numerical validation of the
    # kernel contracts of C10_*_identity_when_nothing_discarded (TTN/TruncTreeValue.v: def_holds / proj_contract)
    disc, contracts, pending = [], [], []
    names = ["tensor_qr_decomposition", "contr_truncated_svd_splitting", "idiots_splitting"]
    kinds = {"tensor_qr_decomposition": "qr", "contr_truncated_svd_splitting": "svd", "idiots_splitting": "pair"}
    orig = {nm: getattr(ttn_mod, nm) for nm in names}
    orig_ii = ttn_mod.TreeTensorNetwork.insert_identity
    orig_tsv = ts.truncate_singular_values
    orig_gp, orig_cs = rt_mod.get_truncation_projector, st_mod.contract_and_split_with_parent

    def wrap(f, kind):
        def g(*a, **kw):
            n0 = len(disc)
            q, rr = f(*a, **kw)
            drv.atoms.append(np.array(q))
            drv.atoms.append(np.array(rr))
            if kind == "pair" and pending:
                # proj_contract: the pair that replaces the identity on the bond, applied to the tensor above the bond
                # on the leg of the bond, gives that tensor back (P P^dagger A = A); promised when the SVD that
                # produced the projector discarded nothing
                A, idx, nothing = pending.pop()
                pair = np.tensordot(np.asarray(q), np.asarray(rr), axes=(-1, 0))       # [i, j] = sum_l Q[i, l] R[l, j]
                ok = pair.ndim == 2 and pair.shape[0] == A.shape[idx]
                back = np.moveaxis(np.tensordot(A, pair, axes=(idx, 0)), -1, idx) if ok else None
                ok = ok and back.shape == A.shape
                contracts.append({"kind": "proj", "nothing": nothing,
                                  "res": (float(np.max(np.abs(back - A))) if A.size else 0.0) if ok else float("inf"),
                                  "scale": float(max(1.0, np.max(np.abs(A)))) if A.size else 1.0,
                                  "square": bool(np.asarray(q).shape[0] == np.asarray(q).shape[-1])})
            if kind in ("qr", "svd"):
                # def_holds: first factor . second factor (over the new bond) = the split tensor, legs out ++ in;
                # a truncated SVD promises this only when the call discarded nothing
                ref = np.asarray(a[0]).transpose(tuple(a[1]) + tuple(a[2]))
                prod = np.tensordot(np.asarray(q), np.asarray(rr), axes=(-1, 0))
                same = prod.shape == ref.shape
                contracts.append({"kind": kind, "nothing": bool(kind == "qr" or all(d == 0 for d in disc[n0:])),
                                  "res": float(np.max(np.abs(prod - ref))) if (same and ref.size) else (0.0 if same else float("inf")),
                                  "scale": float(max(1.0, np.max(np.abs(ref)))) if ref.size else 1.0})
            return q, rr
        return g

    def ii(self, child_id, parent_id, new_identifier=None):
        before = set(self._tensors.data.keys())
        orig_ii(self, child_id, parent_id, new_identifier=new_identifier)
        new = [k for k in self._tensors.data.keys() if k not in before]
        assert len(new) == 1
        drv.atoms.append(np.array(wmodel.raw_tensor(self, new[0])))

    def tsv(s, params):
        res = orig_tsv(s, params)
        kept.append(int(len(res[0])))
        disc.append(int(len(res[1])))
        return res

    def gp(node, node_tensor, child_id, svd_parameters):
        visits.append(child_id)
        n0 = len(disc)
        proj = orig_gp(node, node_tensor, child_id, svd_parameters)
        # the tensor above the bond and its leg toward the child, for the contract of the pair that is inserted next
        del pending[:]
        pending.append((np.array(node_tensor), node.neighbour_index(child_id), bool(all(d == 0 for d in disc[n0:]))))
        return proj

    def cs(node_id, tree, params):
        visits.append(node_id)
        return orig_cs(node_id, tree, params)
    for nm in names:
        setattr(ttn_mod, nm, wrap(orig[nm], kinds[nm]))
    ttn_mod.TreeTensorNetwork.insert_identity = ii
    ts.truncate_singular_values = tsv
    rt_mod.get_truncation_projector, st_mod.contract_and_split_with_parent = gp, cs
    natoms = len(drv.atoms)
    backup = copy.deepcopy(t)
    try:
        with warnings.catch_warnings():
            warnings.simplefilter("ignore")
            with np.errstate(all="ignore"):
                (rt_mod.recursive_truncation if case["algo"] == "rec" else st_mod.svd_truncation)(t, p)
        w["ok"], w["err"] = True, None
    except Exception as e:  # noqa
        w["ok"], w["err"] = False, f"{type(e).__name__}: {e}"
        drv.ttn = t = backup
        del drv.atoms[natoms:]
    finally:
        for nm in names:
            setattr(ttn_mod, nm, orig[nm])
        ttn_mod.TreeTensorNetwork.insert_identity = orig_ii
        ts.truncate_singular_values = orig_tsv
        rt_mod.get_truncation_projector, st_mod.contract_and_split_with_parent = orig_gp, orig_cs
    w["post_snap"] = wmodel.snapshot(t)
    w["post_centre"] = t.orthogonality_center_id
    w["raws"] = {k: np.array(v) for k, v in t._tensors.data.items()}
    w["atoms"] = drv.atoms
    w["visits"], w["kept"] = visits, kept
    w["disc"], w["contracts"] = disc, contracts
    return w


def wtie_exprs(w, n):
    """(Coq expression of the model run, Coq expression of the instance hypotheses, IdMap)"""
    import wmodel
    idm = wmodel.IdMap()
    body = coq_list([("(" + wmodel.coq_cop(o, idm) + ")") for o in w["ops"]])
    rid = 1000 + n
    if w["ok"] and len(w["visits"]) == len(w["kept"]):
        kd = list(zip(w["visits"], w["kept"]))
    else:
        # the routine raised: whatever was recorded up to there, padded with 1 (the model must reject
        # for a reason that does not depend on the dimensions)
        kd = [(v, (w["kept"][j] if j < len(w["kept"]) else 1)) for j, v in enumerate(w["visits"])]
    kdl = coq_list([f"({coq_nat(idm(c))}, {coq_nat(k)})" for c, k in kd])
    algo = "true" if w["algo"] == "rec" else "false"
    ops = (f"recursive_truncation_ops {W_TMP} (dget {kdl}) {coq_nat(rid)} cs" if w["algo"] == "rec"
           else f"svd_truncation_ops (dget {kdl}) {coq_nat(rid)} cs")
    run = (f"let cs := crun {coq_nat(rid)} (empty_store, None) {body} in "
           f"([cobs true cs; trunc_obs {algo} {W_TMP} {kdl} {coq_nat(rid)} cs], "
           f"trunc_info {algo} {W_TMP} {kdl} {coq_nat(rid)} cs, "
           f"alongb nd_step (fst cs) ({ops}))")        # [ext-C10V] nothing_discarded on the trace of the routine
    return run, idm


def wtie_compare(w, mo, idm):
    import wmodel
    ((ok0, o0, c0), (ok1, o1, c1)), (hyps, post, trace), nd = mo
    m0, m1 = wmodel.model_obs_to_py(o0, idm), wmodel.model_obs_to_py(o1, idm)
    d = wmodel.compare_snapshot(w["pre_snap"], m0)
    if d:
        return f"before the routine: {d}"
    if (w["pre_centre"] or None) != (idm.r[c0[0]] if c0 else None):
        return f"before the routine: centre impl {w['pre_centre']} model {c0}"
    if w["ok"] != ok1:
        return (f"{w['algo']}: implementation {'finished' if w['ok'] else 'raised ' + str(w['err'])} but the model "
                f"{'finished' if ok1 else 'rejects'} (kept dimensions {list(zip(w['visits'], w['kept']))})")
    d = wmodel.compare_snapshot(w["post_snap"], m1)
    if d:
        return f"after {w['algo']}: {d} (kept dimensions {list(zip(w['visits'], w['kept']))})"
    if (w["post_centre"] or None) != (idm.r[c1[0]] if c1 else None):
        return f"after {w['algo']}: recorded centre impl {w['post_centre']} model {[idm.r[c] for c in c1]}"
    for kk, raw in w["raws"].items():
        val = wmodel.eval_diagram(m1["tensors"][kk], m1["atab"], w["atoms"])
        tol = 1e-8 * max(1.0, float(np.max(np.abs(raw))) if raw.size else 1.0)
        if val.shape != raw.shape or not np.allclose(val, raw, rtol=1e-8, atol=tol):
            return f"after {w['algo']}: tensor {kk} differs from the model diagram evaluated on the recorded atoms"
    # the order in which the bonds are handled: trace of the model recursion / the model's update path
    if w["ok"] and [idm.r[c] for c in trace] != w["visits"]:
        return f"{w['algo']}: bonds handled in the order {w['visits']}, model {[idm.r[c] for c in trace]}"
    # [ext-C10V] the hypothesis `nothing_discarded` of the identity theorems, evaluated on the model's trace, is true
    # exactly when no truncate_singular_values call of the run discarded a value
    if w["ok"] and len(w["visits"]) == len(w["kept"]) and bool(nd) != all(d == 0 for d in w["disc"]):
        return (f"{w['algo']}: model nothing_discarded = {nd} but the calls discarded {w['disc']} values "
                f"(kept dimensions {list(zip(w['visits'], w['kept']))})")
    return None


def wtie_obligations(mo):
    """per-instance kernel-checked facts: (hypotheses of C10_rec_* / C10_svd_* hold on the start store,
    invariant and supplied dimensions hold on the result)"""
    _obs, (hyps, post, _trace), _nd = mo
    return hyps is True, post is True
# ==== END Layer-W tie ================================================================================


class C10(Prop):
    id = "C10"
    title = "truncation rule and tree-level truncation"
    design_ref = "DESIGN.md section 5 / C10"
    rule = ("sv: every non-increasing spectrum of length 1..5 over a dyadic alphabet (ties, zeros, single value) x the full "
            "parameter grid (max_bond_dim incl. inf, rel_tol, total_tol incl. 0, -inf, +inf, renorm, sum_trunc, sum_renorm), plus "
            "seeded random dyadic spectra (length 1..8) with parameters from a wider lattice incl. values the validation rejects "
            "(set by attribute assignment), nan, max_bond_dim=0, unsorted and negative inputs; cases on which a float rounding "
            "could change a decision (screened with exact rationals before running) are kept out of the exact tie and checked by "
            "the oracle with both sides of the boundary admissible (counted). val: all max_bond_dim kinds x tolerance kinds. "
            "tsvd: random real/complex tensors (2..4 legs, dims 1..4, optional exact low rank), random leg bipartition and order, "
            "random parameters, the three contraction modes. "
            "tree: random trees (1..7 nodes), random bond/physical dimensions, random norm scale, both routines, random "
            "parameters; every tree case is also built through wmodel.Driver (shuffled legs, optional canonical form at the root / "
            "another node / none) and run step-tied against the Coq programs of TTN/TruncTree.v. "
            "hist (oracle only): one SVDParameters object shared by 1..3 consecutive tree truncations (each of a freshly built "
            "state of its own size, 1..6 nodes, or of the state the previous truncation left; routine chosen per truncation) "
            "and a final direct truncate_singular_values call on a random dyadic spectrum; each state is prepared by a random "
            "history of public operations -- canonical_form (often to the node that already is the recorded centre), "
            "move_orthogonalization_center, absorb_into_open_legs with unitary / general (singular values 1..100) / diagonal "
            "/ rank-deficient operators, absorb_matrix (2x2, any leg of dimension 2, virtual legs included), replace_tensor with a "
            "random tensor, rescaling to norm 0.01..10 at the recorded "
            "centre -- ending with the caller's canonical_form whenever a tensor was modified; every truncation judged by "
            "the tree oracle with the parameter values of the case and the dense state right before the call. "
            "Round 7 (hist): the shared parameter object is an SVDParameters, a subclass the library defines (BUGConfig) or a caller's "
            "dataclass subclass; before a truncation its fields are re-assigned (max_bond_dim raised / lowered / lifted to inf, tolerances, "
            "sum_trunc, sum_renorm), the used object is replaced by its copy / deepcopy / pickle round trip / dataclasses.replace (with or "
            "without a changed field), a construction with invalid values is rejected and the caller carries on -- every truncation is "
            "judged with the VALUES the object holds at that moment (replayed without the library); in half of the runs the caller, after "
            "his last canonical_form, observes the state (is_in_canonical_form, scalar_product without the centre shortcut, norm, a "
            "tensor-product expectation value) and/or splits the recorded centre node by a bare split_node_svd (no truncation) / "
            "split_node_qr -- the new node, child or new parent (possibly new root) of the centre node, takes a random non-empty part of "
            "its children / open legs and the isometric factor, the centre node keeps its identifier -- so the truncated tree has one "
            "node more than was built and the reference structure is the tree right before the call; rejected calls (svd_truncation of a "
            "fresh state without recorded centre, split_node_svd of an unknown node) must raise and leave structure, recorded centre and "
            "dense state as they were, the history continues. non-trivial: sv = at least two values, tsvd = matricisation with both sides >= 2, tree = at least one bond, hist = some state with a bond; "
            "distinct by content")
    clauses = [
        ("F", "kept part is a non-empty prefix of the descending spectrum, second component the complementary suffix, "
              "length <= max_bond_dim (C10_trunc_prefix, C10_trunc_length, C10_empty_rejected)"),
        ("F", "value rule: kept length = max 1 (min max_bond #{x > max(rel*s0, tot)}), that set is a prefix; cutoff semantics "
              "incl. -inf/+inf/nan and inf*0 (C10_value_rule, C10_value_threshold, C10_threshold_cases)"),
        ("F", "sum rule: discarded tail = longest tail whose squared weight (over the total when sum_renorm) does not exceed "
              "total_tol**2, same clamp and fallback; all-zero spectrum keeps one value (C10_sum_rule, C10_all_zero)"),
        ("F", "renorm: prefix times sum(s)/sum(kept) when sum(kept) != 0, l1 weight restored; when sum(kept) = 0 (only the "
              "all-zero spectrum) the kept values come back unchanged; the number of values never changes (C10_renorm_scales, "
              "C10_renorm_sum, C10_renorm_guard, C10_renorm_guard_zero_only, C10_no_renorm, C10_renorm_length)"),
        ("F", "parameter validation: accepted iff max_bond_dim is inf or a positive int and each tolerance is >= 0 or infinite "
              "(or nan); TypeError exactly for non-int non-inf (C10_params_validation, C10_params_type_error, C10_params_bond_ok)"),
        ("F", "scalar step of the error bound: sum of squares of the discarded values <= (their sum)^2 (C10_discarded_weight)"),
        ("F", "tree level, recursive_truncation as a program over the symbolic store (TTN/TruncTree.v, every tree, every supplied "
              "kept dimension): the result satisfies the store invariant, has the same identifiers, parent pointers, children sets "
              "and root, all temporary identifiers (uuid and bond-named) are gone, the recorded centre is the root "
              "(C10_rec_structure); every (child, parent) bond ends with exactly the supplied dimension, hence in "
              "[1, max_bond_dim] when the dimensions come from the scalar rule (C10_rec_bonds, C10_rec_bonds_select; per "
              "recursion step C10_truncate_node_effect: only the bonds below the node change); every bond is truncated exactly "
              "once (C10_rec_trace_erase, C10_rec_trace_coverage); the recursion fuel suffices (C10_rec_fuel)"),
        ("F", "tree level, svd_truncation: invariant, identifiers, parents, children sets and root preserved, temporary gone, "
              "recorded centre = parent of the last node handled (C10_svd_structure); one contract_and_split_with_parent gives "
              "the bond above the node exactly the supplied dimension, records the parent as centre and leaves every other "
              "node's parent and bond dimension alone (C10_svd_step_bond); the update path handles every node that has a parent "
              "exactly once, root last and dropped (C10_svd_path_coverage)"),
        ("I", "per explored tree instance (vm_compute on the tied model): the hypotheses of the theorems hold on the store the "
              "routine starts from (trunc_hyps: wfb, fresh temporaries); the result store passes wfb and every truncated bond has "
              "the supplied dimension -- for svd_truncation the FINAL dimensions are only established this way (the centre moves "
              "between two steps are not proved to stay off the bonds already truncated)"),
        ("V", "tree level, model = code: on every tree case the model program, run on the same build sequence with the observed "
              "kept dimensions, reproduces the implementation exactly (node dict order, parents, children order, leg "
              "permutations, recorded and raw shapes, tensor dict order, root, recorded centre, order in which the bonds are "
              "handled, raising vs finishing) and every raw tensor equals its model diagram evaluated on the recorded kernel "
              "factors (differential tie, not a theorem)"),
        ("V", "tree level, oracle on random states (independent dense contraction): identifiers and parent/child relations "
              "preserved, one truncation per bond, every bond in [1, max_bond_dim]"),
        ("F", "tree level, both routines are RUNS OF EDIT OPERATIONS of the store model of C02 (TTN/TruncTreeValue.v): an executable "
              "trace function lists the access / insert_identity / contract_nodes / split_nodes operations the routine performs, and "
              "on every well-formed store a successful run of the program equals `run` of its trace with every operation accepted "
              "and inside its documented precondition (C10_svd_truncation_is_a_run_of_edits, "
              "C10_recursive_truncation_is_a_run_of_edits); `full rank' of a recorded factorisation is the dimension the model gives "
              "the untruncated factorisation (C10_full_rank_is_untruncated_dimension)"),
        ("O", "tree level, IDENTITY WHEN NOTHING IS DISCARDED, for every tree / store, both routines, over any commutative semiring "
              "(C10_svd_truncation_identity_when_nothing_discarded, C10_recursive_truncation_identity_when_nothing_discarded): if "
              "every truncating factorisation of the run keeps the dimension of the untruncated one (`nothing_discarded', an "
              "executable predicate on the trace: min(rows, columns) for the truncated SVD of contract_and_split_with_parent, "
              "min(bond dimension, product of the other legs of the upper tensor) for a projector of recursive_truncation), then "
              "under the kernel contracts the result has the same open wires, the same value of the whole network (net_value of "
              "C02) at every index assignment, and satisfies the extended invariant wfs.  Kernel contracts (`kernel_contracts', "
              "premises on the atom table, per step of the trace): QR: Q.R = A over the new bond; truncated SVD: U.(S Vh) = A "
              "provided nothing is discarded; projector pair (conj(P), P^T) that replaces the inserted identity: P P^dagger A = A "
              "for the tensor A above the bond, provided nothing is discarded (`proj_contract': contextual -- with nothing "
              "discarded P has min(d, rest) columns and P P^dagger is the identity matrix only when rest >= d; "
              "C10_projector_pair_step, C10_unitary_projector_contract).  Also without the proviso whenever all factors are exact "
              "(C10_*_exact_factors) and for svd_truncation under the contracts of C02 verbatim "
              "(C10_svd_truncation_value_C02_contracts).  Non-vacuity: concrete tables over nat for both routines, incl. a bond "
              "going from 2 to 1 with nothing discarded (C10_example_svd_identity, C10_example_rec_identity)"),
        ("I", "per explored tree instance: the model's `nothing_discarded' flag on the trace of the routine is true exactly when no "
              "truncate_singular_values call of the real run discarded a value (part of the Layer-W tie)"),
        ("V", "tree level, the kernel contracts of the O clause validated numerically each run on the kernel factors recorded at the "
              "boundary of pytreenet.core.ttn in the Layer-W run: every QR (Q.R = A), every truncated SVD that discarded nothing "
              "(U.(S Vh) = A), every projector pair whose SVD discarded nothing (pair applied to the node tensor = node tensor), "
              "to 1e-10*max(1, max|A|); counts in the distribution"),
        ("V", "tree level: identity (dense state unchanged to 1e-10*max(1,norm)) when no value is discarded on any bond: "
              "runtime check against an independent dense contraction"),
        ("V", "tree level, no renormalisation: ||psi - psi'|| <= (sum of all discarded values) * max(1, ||psi||): runtime check; "
              "the discarded values are re-derived by the oracle from the recorded full spectra"),
        ("V", "tree level, histories (kind hist, oracle only): all the tree-level clauses above (structure, bond limits, each "
              "recorded truncate_singular_values call = the rule of the text for the parameter VALUES the caller chose, identity "
              "when nothing is discarded, error bound) hold for every truncation of a history in which one SVDParameters object is "
              "reused across several truncations of different states and a later direct truncate_singular_values call, and in "
              "which the truncated state was reached through canonical_form / centre moves / in-place operator applications / "
              "tensor replacement / rescaling followed by the caller's canonical_form (reference: dense contraction of the state "
              "right before each call): runtime check; [round 7] also when the object's fields are re-assigned between the "
              "truncations, when it is a library-defined subclass (BUGConfig) or a copy / deepcopy / pickle / dataclasses.replace of "
              "the used object, when the state was observed and its centre node split by a bare split after the caller's "
              "canonical_form, and after rejected calls (state unchanged by a call that raises)"),
        ("V", "truncated_tensor_svd / contr_truncated_svd_splitting on random tensors and leg bipartitions: number of kept values "
              "= the rule applied to the harness' own singular values, U/Vh sliced to isometries of that width, U S Vh = (rescaled) "
              "best rank-k approximation, ||T - U S Vh|| = Frobenius weight of the discarded values <= their sum, the three "
              "contraction modes multiply back to U S Vh: runtime check (LAPACK SVD is not modelled)"),
    ]
    trusted_base = [
        "spectra and tolerances enter the model as the exact rational values of the doubles; every case of the exact tie is "
        "pre-screened with exact rationals (harness, float_safe) so that each float operation of the code is exact or, for the "
        "one division by the squared norm / the renormalisation quotient, correctly rounded without effect on a comparison",
        "renormalised values are compared with the correctly rounded double of the model's exact rational (IEEE-754 division)",
        "tree level: numpy einsum dense contraction (harness/util.py) as the reference; truncate_singular_values is observed "
        "through a recording wrapper installed on pytreenet.util.tensor_splitting",
        "tree level, Layer-W tie: kernel factors (QR factors, truncated-SVD factors, the projector pair handed to "
        "split_node_replace, the identity of insert_identity) enter the model as opaque atoms recorded at the boundary of "
        "pytreenet.core.ttn; the kept dimension per bond is read from the recorded truncate_singular_values calls; the values of "
        "the factors are outside the model",
        "kernel contracts of the identity theorems (premises `kernel_contracts' of C10_*_identity_when_nothing_discarded, "
        "TTN/TruncTreeValue.v; not axioms): numpy.linalg.qr / tensor_qr_decomposition returns Q, R with Q.R = A; "
        "contr_truncated_svd_splitting returns U, S Vh with U.(S Vh) = A when truncate_singular_values discards nothing; the "
        "projector P of get_truncation_projector (U of the truncated SVD of the node tensor w.r.t. the child leg) satisfies "
        "P P^dagger A = A when nothing is discarded.  Validated numerically on every recorded kernel call of every "
        "nothing-discarded Layer-W run (oracle _oracle_contracts), not proved (LAPACK is not modelled).  The value semantics "
        "(net_value, atom tables zero outside the index ranges) is that of C02 (TTN/InvSem.v, Wire/Sem.v)",
    ]
    assumptions = [
        "spectra handed to truncate_singular_values are non-increasing and non-negative (numpy.linalg.svd contract); the model "
        "is total and is also tied on unsorted / negative inputs, but the prefix theorems assume a descending list",
        "svd_truncation is called on a state that has an orthogonality centre (it raises otherwise; model and code agree on "
        "that); recursive_truncation canonicalises itself",
        "recursive_truncation names its temporaries after the bond ('<c>_identity_<n>', '<n>_projectorstar_<c>', "
        "'<n>_projector_<c>'): the caller's identifiers must not collide with them and they must differ from each other "
        "(tmp_fresh / tmp_inj in the theorems; true for the harness' identifiers, checked per instance)",
        "histories (kind hist): a state whose tensors were modified in place after the library recorded an orthogonality centre "
        "is handed to a truncation routine only after the caller has called canonical_form again (replace_tensor, "
        "absorb_matrix and the truncation routines themselves keep orthogonality_center_id although the state is no longer "
        "canonical there; a state with a stale recorded centre is outside the explored inputs)",
        "parameters outside the validated domain (negative finite tolerances, max_bond_dim=0, nan) are only reachable by "
        "assigning dataclass attributes after construction; they are tied to the model but outside the property oracle",
    ]

    # ----------------------------------------------------------------------------------------
    def _sv_case(self, s, mbd, rel, tot, renorm, sum_trunc, sum_renorm):
        return {"kind": "sv", "s": [str(Fraction(x)) for x in s], "mbd": mbd, "rel": str(rel), "tot": str(tot),
                "renorm": bool(renorm), "sum_trunc": bool(sum_trunc), "sum_renorm": bool(sum_renorm)}

    def _grid(self, mbds, rels, tots):
        g = []
        for m in mbds:
            for rn in (False, True):
                for r in rels:
                    for t in tots:
                        g.append((m, r, t, rn, False, True))
                for t in tots:
                    for sr in (False, True):
                        g.append((m, "0", t, rn, True, sr))
        return g

    # ---- hist: histories around the tree-level routines ----------------------------------------------------
    @staticmethod
    def _tree_params(rng, lossy=False):
        """parameter values of a hist case (decimal strings; float(...) of them is what the code receives)"""
        mode = 1.0 if lossy else rng.random()
        if mode < 0.15:                          # nothing can be discarded
            return dict(mbd="inf", rel="-inf", tot="-inf", sum_trunc=False)
        if mode < 0.25:                          # only exact zeros / noise can be discarded
            return dict(mbd="inf", rel=rng.choice(["0", "1e-15", "-inf"]), tot=rng.choice(["0", "1e-15"]), sum_trunc=False)
        return dict(mbd=rng.choice([1, 2, 2, 3, 4, "inf"]),
                    rel=rng.choice(["-inf", "0", "1e-15", "0.05", "0.125", "0.25", "0.5"]),
                    tot=rng.choice(["-inf", "0", "1e-15", "0.1", "0.5", "2"]), sum_trunc=rng.random() < 0.35)

    def _gen_hist(self, rng):
        """ONE SVDParameters object, 1..3 consecutive truncations (each of a freshly built state or of the state the
        previous truncation left), each state prepared by a history of public operations, then one direct
        truncate_singular_values call with the same object"""
        runs = []
        n = None
        for r in range(rng.choice([1, 2, 2, 3])):
            run = {"algo": rng.choice(["rec", "svd"])}
            if r > 0 and rng.random() < 0.3:
                run["tree"] = "same"
            else:
                n = rng.choice([1, 2, 2, 3, 3, 4, 4, 5, 6])
                run.update(tree="new", parents=util.random_parents(rng, n), bond=rng.choice([None, None, 1, 2, 3, 4]),
                           scale=rng.choice([1.0, 1.0, 0.05, 0.3, 4.0]))
            # the centre the caller establishes last: recursive_truncation canonicalises to the root by itself unless the
            # root is the recorded centre, svd_truncation starts from wherever the recorded centre is
            X = 0 if (run["algo"] == "rec" and rng.random() < 0.7) else rng.randrange(n)
            prep = []
            if run["tree"] == "new" and rng.random() < 0.25:
                # fresh state, recorded centre (if any) established by the library on unmodified tensors
                if run["algo"] == "svd" or rng.random() < 0.5:
                    prep.append(["canon", X])
                if prep and rng.random() < 0.3:
                    prep.append(["move", rng.randrange(n)])
            else:
                # canonical form, in-place modifications through the public API, canonical form again
                if run["tree"] == "new" or rng.random() < 0.5:
                    prep.append(["canon", X if rng.random() < 0.75 else rng.randrange(n)])
                for _ in range(rng.randint(0 if run["tree"] == "same" else 1, 4)):
                    k = rng.randrange(n)
                    what = rng.choice(["absorb", "absorb", "replace", "replace", "legmat", "legmat", "move", "norm", "canon"])
                    if what == "norm":             # rescale the state to the given norm (at the recorded centre, else the root)
                        prep.append(["norm", rng.choice([0.01, 0.1, 1.0, 1.0, 10.0])])
                    elif what == "canon":
                        prep.append(["canon", X if rng.random() < 0.5 else k])
                    elif what == "absorb":
                        prep.append(["absorb", k, rng.choice(["unitary", "general", "general", "diag", "lowrank"]),
                                     rng.choice([1, 3, 10, 100])])
                    elif what == "replace":
                        prep.append(["replace", k, rng.choice([0.1, 1.0, 10.0])])
                    elif what == "legmat":         # absorb_matrix on one (virtual or open) leg of the node
                        prep.append(["legmat", k, rng.randrange(8), rng.choice(["unitary", "general", "diag"]),
                                     rng.choice([1, 3, 10, 100])])
                    elif prep:
                        prep.append(["move", k])
                if rng.random() < 0.55:                # the caller normalises (or scales down) before truncating
                    prep.append(["norm", rng.choice([0.01, 0.1, 1.0, 1.0])])
                prep.append(["canon", X])
            run["prep"] = prep
            # [round 7] what the caller does between his last canonical_form and the truncation: OBSERVATIONS (is_in_canonical_form,
            # the full-contraction scalar product, norm, an expectation value -- they leave the state alone) and a BARE SPLIT of the
            # recorded centre node (split_node_svd without truncation / split_node_qr; the part that keeps the identifier holds the
            # non-isometric factor, so the state stays canonical at the recorded centre; the new node is a child or the new parent of it)
            post = []
            if rng.random() < 0.5:
                obs_kinds = ["is_canon", "is_canon", "scal_full", "norm", "expect"]
                for _ in range(rng.choice([0, 1, 1, 2])):
                    post.append(["observe", rng.choice(obs_kinds)])
                if rng.random() < 0.75:
                    post.append(["split", rng.choice(["svd", "svd", "qr"]), rng.choice(["down", "down", "up"]), rng.randrange(10 ** 6)])
                    if rng.random() < 0.25:
                        post.append(["observe", rng.choice(obs_kinds)])
            run["post"] = post
            # [round 7] rejected calls the caller recovers from: svd_truncation of a state without recorded centre (first thing on a
            # fresh state), a split of a node that does not exist; the state has to be what it was
            rej = []
            if run["tree"] == "new" and rng.random() < 0.12:
                rej.append("svd_no_centre")
            if rng.random() < 0.08:
                rej.append("split_unknown")
            run["rejects"] = rej
            # [round 7] what happens to the parameter object before this truncation: fields re-assigned (both directions), the used
            # object copied / deep-copied / pickled / dataclasses.replace()d and the copy used from then on, a construction with
            # invalid values rejected
            pobj = []
            for _ in range(rng.choice([0, 1, 1, 2]) if r > 0 else rng.choice([0, 0, 0, 1])):
                x = rng.random()
                if x < 0.6:
                    key = "mbd" if rng.random() < 0.6 else rng.choice(["rel", "tot", "sum_trunc", "sum_renorm"])
                    pobj.append(["set", key, self._tree_params(rng, lossy=True)[key] if key != "sum_renorm" else rng.random() < 0.5])
                elif x < 0.9:
                    how = rng.choice(["copy", "deepcopy", "pickle", "replace"])
                    ch = {}
                    if how == "replace" and rng.random() < 0.6:
                        ch["mbd"] = rng.choice([1, 2, 3, 4, "inf"])
                    pobj.append(["clone", how, ch])
                else:
                    pobj.append(["reject", rng.choice([{"max_bond_dim": 0}, {"max_bond_dim": 2.5}, {"rel_tol": -0.5}, {"total_tol": -0.001}])])
            run["pobj"] = pobj
            runs.append(run)
        probe = sorted([Fraction(rng.randint(0, 24), 8) for _ in range(rng.randint(1, 8))], reverse=True)
        return {"kind": "hist", "seed": rng.randrange(10 ** 9), "complex": rng.random() < 0.7, "runs": runs,
                "cls": rng.choice(HIST_CLASSES), "probe": [str(x) for x in probe], "renorm": rng.random() < 0.15, "sum_renorm": rng.random() < 0.5,
                **self._tree_params(rng)}

    def generate(self, ctx, stream, budget_scale=1):
        rng = ctx.rng(stream)
        cases = []
        self.dropped = Counter()
        self.boundary_dev = Counter()
        self.wtie_stats = getattr(self, "wtie_stats", Counter())
        if stream == "main":
            self.wtie_obl = [0, 0, []]
        F = Fraction
        if stream == "main":
            if ctx.thorough():
                alphabet = [F(0), F(1, 4), F(1, 2), F(1), F(2), F(3)]
                grid = self._grid([1, 2, 4, "inf"], ["-inf", "0", "1/4", "1/2", "1", "inf"],
                                  ["-inf", "0", "1/4", "1/2", "1", "2"])
            else:
                alphabet = [F(0), F(1, 2), F(1), F(2)]
                grid = self._grid([1, 2, 3, "inf"], ["-inf", "0", "1/2", "1"], ["-inf", "0", "1/2", "1"])
            for L in range(1, 6):
                for s in nonincreasing(alphabet, L):
                    for g in grid:
                        cases.append(self._sv_case(s, *g))
            # fixed corner cases named by the quantifier / by the code's quirks
            corner = [
                ([0, 0, 0], "inf", "-inf", "-inf", False, False, True),      # -inf * 0 = nan
                ([0, 0], "inf", "0", "0", True, True, True),                 # renorm of the all-zero spectrum
                ([1, 1, 1, 1], "inf", "0", "1/2", False, True, True),        # exact boundary, normalised
                ([2, 1, 1, 1, 1], 3, "0", "1", True, True, False),           # boundary + clamp + renorm
                ([3, 1, 1, 1], "inf", "0", "1/2", False, True, True),        # exact boundary, irrational norm (fuzzy)
                ([1, F(1, 2)], 0, "0", "0", False, False, True),             # max_bond_dim = 0 (post-construction)
                ([1, F(1, 2), F(1, 2)], "inf", "0", "-3/4", False, True, True),   # negative tolerance squared
                ([1, F(1, 2)], "inf", "0", "nan", False, False, True),
                ([1, F(1, 2)], "inf", "nan", "0", False, False, True),
                ([1, F(1, 2)], "inf", "0", "nan", False, True, True),
                ([F(1, 2), 1, 0, 2], 2, "1/2", "0", False, False, True),     # unsorted
                ([0, 1], "inf", "-inf", "-inf", False, False, True),         # unsorted, s0 = 0 -> nan cutoff
                ([-1, -2], "inf", "-inf", "0", False, False, True),          # negative s0: -inf * s0 = +inf
                ([], "inf", "0", "0", False, False, True),                   # empty spectrum: ValueError
            ]
            for c in corner:
                cases.append(self._sv_case(*c))
        # seeded random dyadic spectra, wider parameter lattice
        nrand = (ctx.scale(1200, 15000) if stream == "main" else 1200) * budget_scale
        tol_pool = ["-inf", "-inf", "0", "0", "1/8", "1/4", "3/8", "1/2", "3/4", "1", "3/2", "2", "inf", "nan", "-1/4", "-1"]
        for _ in range(nrand):
            L = rng.randint(1, 8)
            kind = rng.random()
            vals = [Fraction(rng.randint(0, 24), 8) for _ in range(L)]
            if kind < 0.85:
                vals.sort(reverse=True)
                if rng.random() < 0.3:
                    z = rng.randint(0, L - 1)
                    vals = vals[:z] + [Fraction(0)] * (L - z)
                if rng.random() < 0.2:
                    vals = [rng.choice(vals)] * L
            elif kind < 0.95:
                pass                                   # unsorted
            else:
                vals = [-v if rng.random() < 0.5 else v for v in vals]   # signs
            mbd = rng.choice([0, 1, 1, 2, 3, 4, 6, 9, "inf", "inf"])
            cases.append(self._sv_case(vals, mbd, rng.choice(tol_pool), rng.choice(tol_pool), rng.random() < 0.4,
                                       rng.random() < 0.45, rng.random() < 0.5))
        # cases on which float rounding could decide are kept out of the exact tie (no model, lenient oracle)
        for c in cases:
            ok, why = float_safe(c) if c["s"] else (True, "")
            if not ok:
                c["fuzzy"] = why
                self.dropped[why] += 1
        # validation
        if stream == "main":
            tols = ["-inf", "inf", "nan", "0", "1/2", "-1/2", "-1/1024"]
            for m in VAL_MBD:
                for r in tols:
                    for t in tols:
                        if r in ("0", "-inf") or t in ("0", "-inf") or ctx.thorough():
                            cases.append({"kind": "val", "mbd": m, "rel": r, "tot": t})
        # tensor level: truncated_tensor_svd / contr_truncated_svd_splitting
        ntsvd = (ctx.scale(150, 2000) if stream == "main" else 100) * budget_scale
        for i in range(ntsvd):
            nd = rng.choice([2, 2, 3, 3, 4])
            shape = [rng.choice([1, 2, 2, 3, 4]) for _ in range(nd)]
            legs = list(range(nd))
            rng.shuffle(legs)
            cut = rng.randint(1, nd - 1)
            mode = rng.random()
            if mode < 0.2:
                prm = dict(mbd="inf", rel="-inf", tot="-inf", sum_trunc=False)
            else:
                prm = dict(mbd=rng.choice([1, 2, 2, 3, 4, "inf"]),
                           rel=rng.choice(["-inf", "0", "1e-15", "0.05", "0.125", "0.25", "0.5"]),
                           tot=rng.choice(["-inf", "0", "1e-15", "0.1", "0.5", "2"]), sum_trunc=rng.random() < 0.35)
            cases.append({"kind": "tsvd", "seed": rng.randrange(10 ** 9), "shape": shape, "u_legs": legs[:cut], "v_legs": legs[cut:],
                          "contr": rng.choice(["ucontr", "vcontr", "equal"]), "rank": rng.choice([None, None, 1, 2]),
                          "complex": rng.random() < 0.7, "renorm": rng.random() < 0.3, "sum_renorm": rng.random() < 0.5, **prm})
        # tree level
        ntree = (ctx.scale(220, 3000) if stream == "main" else 150) * budget_scale
        for i in range(ntree):
            n = rng.choice([1, 2, 2, 3, 3, 4, 4, 5, 5, 6, 7])
            par = util.random_parents(rng, n)
            mode = rng.random()
            # tolerances are decimal strings (float(...) of them is what the code receives)
            if mode < 0.25:                          # nothing can be discarded
                prm = dict(mbd="inf", rel="-inf", tot="-inf", sum_trunc=False)
            elif mode < 0.35:                        # only exact zeros / noise can be discarded
                prm = dict(mbd="inf", rel=rng.choice(["0", "1e-15", "-inf"]), tot=rng.choice(["0", "1e-15"]), sum_trunc=False)
            else:
                prm = dict(mbd=rng.choice([1, 2, 2, 3, 4, "inf"]),
                           rel=rng.choice(["-inf", "0", "1e-15", "0.05", "0.125", "0.25", "0.5"]),
                           tot=rng.choice(["-inf", "0", "1e-15", "0.1", "0.5", "2"]), sum_trunc=rng.random() < 0.35)
            cases.append({"kind": "tree", "algo": rng.choice(["rec", "svd"]), "parents": par, "seed": rng.randrange(10 ** 9),
                          "bond": rng.choice([None, None, 1, 2, 3, 4]), "scale": rng.choice([1.0, 1.0, 0.05, 0.3, 4.0]),
                          "centre": rng.randrange(n), "lowrank": rng.random() < 0.2, "complex": rng.random() < 0.7,
                          "renorm": rng.random() < 0.25, "sum_renorm": rng.random() < 0.5, **prm})
        # Layer-W tie (TTN/TruncTree.v): every tree case is also run step-tied on a Driver-built network
        for c in cases:
            if c["kind"] == "tree":
                c["wtie"] = True
        # histories (oracle only): one parameter object across several truncations, states prepared by public operations
        nhist = (ctx.scale(250, 4000) if stream == "main" else 200) * budget_scale
        for i in range(nhist):
            cases.append(self._gen_hist(rng))
        return cases

    def nontrivial(self, case):
        if case["kind"] == "sv":
            return len(case["s"]) >= 2
        if case["kind"] == "tree":
            return len(case["parents"]) >= 2
        if case["kind"] == "hist":
            return any(len(r.get("parents", [])) >= 2 for r in case["runs"])
        if case["kind"] == "tsvd":
            return min(int(np.prod([case["shape"][i] for i in case["u_legs"]])),
                       int(np.prod([case["shape"][i] for i in case["v_legs"]]))) >= 2
        return True

    def distribution(self, cases):
        c = Counter()
        for x in cases:
            c["kind:" + x["kind"]] += 1
            if x["kind"] == "sv":
                c["sv:len=%d" % len(x["s"])] += 1
                c["sv:" + ("sum" if x["sum_trunc"] else "value") + ("+renorm" if x["renorm"] else "")] += 1
                c["sv:mbd=" + ("inf" if x["mbd"] == "inf" else "int")] += 1
                for k in ("rel", "tot"):
                    if x[k] in ("-inf", "inf", "nan", "0"):
                        c[f"sv:{k}={x[k]}"] += 1
                    elif x[k].startswith("-"):
                        c[f"sv:{k}<0"] += 1
                fs = [Fraction(v) for v in x["s"]]
                if fs and all(v == 0 for v in fs):
                    c["sv:all-zero"] += 1
                if len(set(fs)) < len(fs):
                    c["sv:ties"] += 1
                if fs != sorted(fs, reverse=True) or any(v < 0 for v in fs):
                    c["sv:unsorted-or-negative"] += 1
            elif x["kind"] == "tree":
                c["tree:" + x["algo"]] += 1
                c["tree:nodes=%d" % len(x["parents"])] += 1
            elif x["kind"] == "hist":
                c["hist:runs=%d" % len(x["runs"])] += 1
                c["hist:mbd=" + ("inf" if x["mbd"] == "inf" else "int")] += 1
                for r in x["runs"]:
                    c["hist-run:" + r["algo"] + (":same tree again" if r["tree"] == "same" else "")] += 1
                    kinds = [o[0] for o in r["prep"]]
                    if any(k in ("absorb", "replace", "legmat") for k in kinds):
                        c["hist-run:modified in place, then canonical_form"] += 1
                    elif not kinds:
                        c["hist-run:fresh state, no recorded centre"] += 1
                    post = [o[0] + ":" + o[1] for o in r.get("post", [])]
                    if any(o.startswith("observe") for o in post):
                        c["hist-run:observations (is_in_canonical_form / full scalar product / norm / expectation value) before the truncation"] += 1
                    if any(o.startswith("split") for o in post):
                        c["hist-run:bare split of the centre node requested before the truncation"] += 1
                    for o in r.get("pobj", []):
                        c["hist-params:" + (o[0] + " " + o[1] if o[0] != "reject" else "rejected construction, caller carries on")] += 1
                    for o in r.get("rejects", []):
                        c["hist-run:rejected call requested (" + o + ")"] += 1
                if "cls" in x:
                    c["hist:class=" + x["cls"]] += 1
                    vs = hist_values(x)[0]
                    for a, b in zip(vs, vs[1:]):
                        if a["mbd"] != b["mbd"]:
                            c["hist:consecutive truncations with max_bond_dim " + ("raised" if mbd_value(b["mbd"]) > mbd_value(a["mbd"]) else "lowered")] += 1
                        elif a != b:
                            c["hist:consecutive truncations with another field changed"] += 1
        for why, k in getattr(self, "dropped", {}).items():
            c["not in the exact tie (float-unsafe):" + why] += k
        for why, k in getattr(self, "boundary_dev", {}).items():
            c["float-unsafe case outcome:" + why] += k
        for k, v in getattr(self, "tree_stats", {}).items():
            c["tree-observed:" + k] += v
        for k, v in getattr(self, "hist_stats", {}).items():
            c["hist-observed:" + k] += v
        for k, v in getattr(self, "wtie_stats", {}).items():
            c["tree-layer-W:" + k] += v
        return dict(c)

    def sample_repr(self, case):
        return case

    # ----------------------------------------------------------------------------------------
    # implementation side
    def _sv_impl(self, case):
        from pytreenet.util.tensor_splitting import truncate_singular_values
        p, verdict = make_params(mbd_value(case["mbd"]), ext_float(case["rel"]), ext_float(case["tot"]),
                                 case["renorm"], case["sum_trunc"], case["sum_renorm"])
        s = np.array([float(Fraction(x)) for x in case["s"]], dtype=float)
        s_in = s.copy()
        ob = {"verdict": verdict}
        import dataclasses
        p_before = dataclasses.asdict(p) if dataclasses.is_dataclass(p) else dict(vars(p))
        try:
            with warnings.catch_warnings():
                warnings.simplefilter("ignore")
                with np.errstate(all="ignore"):
                    new_s, s_trunc = truncate_singular_values(s, p)
            ob["new"] = [float(x) for x in np.asarray(new_s).tolist()]
            ob["trunc"] = [float(x) for x in np.asarray(s_trunc).tolist()]
            p_after = dataclasses.asdict(p) if dataclasses.is_dataclass(p) else dict(vars(p))
            # the caller's parameter object is shared between calls (it is even a default argument of
            # split_node_svd / contr_truncated_svd_splitting): a call must not change it
            same = all((p_before[k] == p_after[k]) or (p_before[k] != p_before[k] and p_after[k] != p_after[k]) for k in p_before)
            ob["input_unchanged"] = bool(np.array_equal(s, s_in)) and same and set(p_before) == set(p_after)
        except Exception as e:  # noqa
            ob["exception"] = f"{type(e).__name__}: {e}"
        return ob

    def _val_impl(self, case):
        from pytreenet.util.tensor_splitting import SVDParameters
        try:
            SVDParameters(max_bond_dim=val_mbd_object(case["mbd"]), rel_tol=ext_float(case["rel"]),
                          total_tol=ext_float(case["tot"]))
            return {"verdict": "Accept"}
        except TypeError:
            return {"verdict": "TypeError"}
        except ValueError as e:
            msg = str(e)
            which = 0 if "max_bond_dim" in msg else 1 if "rel_tol" in msg else 2 if "total_tol" in msg else 9
            return {"verdict": f"ValueError:{which}"}
        except Exception as e:  # noqa
            return {"verdict": f"other:{type(e).__name__}: {e}"}

    def _tsvd_impl(self, case):
        from pytreenet.util.tensor_splitting import truncated_tensor_svd, contr_truncated_svd_splitting, ContractionMode
        nprs = np.random.RandomState(case["seed"])
        shape = tuple(case["shape"])
        ul, vl = tuple(case["u_legs"]), tuple(case["v_legs"])
        du = int(np.prod([shape[i] for i in ul]))
        dv = int(np.prod([shape[i] for i in vl]))

        def rnd(sh):
            a = nprs.standard_normal(sh)
            return a + 1j * nprs.standard_normal(sh) if case["complex"] else a
        if case["rank"] is None:
            M = rnd((du, dv))
        else:
            r = case["rank"]
            M = rnd((du, r)) @ rnd((r, dv))
        # the tensor whose (u_legs | v_legs) matricisation is M
        T = M.reshape([shape[i] for i in ul] + [shape[i] for i in vl]).transpose(np.argsort(list(ul) + list(vl)))
        T = np.ascontiguousarray(T)
        p, verdict = make_params(mbd_value(case["mbd"]), float(case["rel"]), float(case["tot"]), case["renorm"],
                                 case["sum_trunc"], case["sum_renorm"])
        ob = {"verdict": verdict, "du": du, "dv": dv}
        U0, S0, V0 = np.linalg.svd(M, full_matrices=False)     # the harness' own decomposition
        ob["full_s"] = S0.tolist()
        ob["normM"] = float(np.linalg.norm(M))
        try:
            with warnings.catch_warnings():
                warnings.simplefilter("ignore")
                with np.errstate(all="ignore"):
                    T_in = T.copy()
                    u, s, vh = truncated_tensor_svd(T, ul, vl, p)
                    a, b = contr_truncated_svd_splitting(T, ul, vl, ContractionMode(case["contr"]), p)
            ob["input_unchanged"] = bool(np.array_equal(T, T_in))
            k = len(s)
            ob["s"] = np.asarray(s, dtype=float).tolist()
            ob["u_shape"], ob["vh_shape"] = list(u.shape), list(vh.shape)
            ob["a_shape"], ob["b_shape"] = list(a.shape), list(b.shape)
            ob["exp_u_shape"] = [shape[i] for i in ul] + [k]
            ob["exp_vh_shape"] = [k] + [shape[i] for i in vl]
            um, vm = u.reshape(du, -1), vh.reshape(-1, dv)
            ob["iso_u"] = float(np.linalg.norm(um.conj().T @ um - np.eye(um.shape[1])))
            ob["iso_v"] = float(np.linalg.norm(vm @ vm.conj().T - np.eye(vm.shape[0])))
            recon = um @ np.diag(np.asarray(s)) @ vm
            kk = min(k, len(S0))
            fac = (float(np.sum(S0)) / float(np.sum(S0[:kk]))) if (case["renorm"] and np.sum(S0[:kk]) != 0) else 1.0
            best = (U0[:, :kk] * (fac * S0[:kk])) @ V0[:kk, :]
            ob["recon_dev"] = float(np.linalg.norm(recon - best))
            ob["err"] = float(np.linalg.norm(recon - M))
            ob["contr_dev"] = float(np.linalg.norm(a.reshape(du, -1) @ b.reshape(-1, dv) - recon)) \
                if a.reshape(du, -1).shape[1] == b.reshape(-1, dv).shape[0] else float("inf")
            ob["gap"] = float(S0[kk - 1] - S0[kk]) if 0 < kk < len(S0) else float("inf")
        except Exception as e:  # noqa
            import traceback
            ob["exception"] = f"{type(e).__name__}: {e}"
            ob["tb"] = traceback.format_exc()[-1200:]
        return ob

    @staticmethod
    def _trunc_run(work, ids, rid, struct0, before, algo, p):
        """run one tree-level routine on `work` with the parameter object `p`, recording every truncate_singular_values
        call and every bond handled; observation fields shared by the tree and hist kinds"""
        from pytreenet.util import tensor_splitting as ts
        from pytreenet.core.truncation.recursive_truncation import recursive_truncation
        from pytreenet.core.truncation.svd_truncation import svd_truncation
        ob = {}
        import pytreenet.core.truncation.recursive_truncation as rt_mod
        import pytreenet.core.truncation.svd_truncation as st_mod
        calls = []
        visits = []
        orig = ts.truncate_singular_values
        orig_gp, orig_cs = rt_mod.get_truncation_projector, st_mod.contract_and_split_with_parent

        def rec_gp(node, node_tensor, child_id, svd_parameters):
            visits.append([child_id, node.identifier])
            return orig_gp(node, node_tensor, child_id, svd_parameters)

        def rec_cs(node_id, tree, params):
            visits.append([node_id, tree.nodes[node_id].parent])
            return orig_cs(node_id, tree, params)

        def recording(s, params):
            s_in = np.array(s, dtype=float, copy=True)
            r = orig(s, params)
            calls.append((s_in.tolist(), np.asarray(r[0], dtype=float).tolist(), np.asarray(r[1], dtype=float).tolist(),
                          params is p))
            return r
        ts.truncate_singular_values = recording
        rt_mod.get_truncation_projector, st_mod.contract_and_split_with_parent = rec_gp, rec_cs
        try:
            with warnings.catch_warnings():
                warnings.simplefilter("ignore")
                with np.errstate(all="ignore"):
                    res = (recursive_truncation if algo == "rec" else svd_truncation)(work, p)
            ob["returns_same_object"] = res is work
            after = util.dense_vec(work, ids)
            ob["err"] = float(np.linalg.norm(after - before))
            ob["finite"] = bool(np.all(np.isfinite(after)))
            ob["struct_same"] = util.structure_unordered(work) == struct0
            ob["ids"] = sorted(work.nodes)
            ob["root_same"] = work.root_id == rid
            bonds = []
            consistent = True
            for nid in work.nodes:
                node = work.nodes[nid]
                t = work.tensors[nid]
                if tuple(t.shape) != tuple(node.shape):
                    consistent = False
                if not node.is_root():
                    pn = work.nodes[node.parent]
                    pt = work.tensors[node.parent]
                    d_child = t.shape[node.neighbour_index(node.parent)]
                    d_par = pt.shape[pn.neighbour_index(nid)]
                    if d_child != d_par:
                        consistent = False
                    bonds.append(int(d_child))
            ob["bonds"] = bonds
            ob["consistent"] = consistent
        except Exception as e:  # noqa
            import traceback
            ob["exception"] = f"{type(e).__name__}: {e}"
            ob["tb"] = traceback.format_exc()[-1200:]
        finally:
            ts.truncate_singular_values = orig
            rt_mod.get_truncation_projector, st_mod.contract_and_split_with_parent = orig_gp, orig_cs
        ob["calls"] = calls
        ob["visits"] = visits
        return ob

    def _tree_impl(self, case):
        from pytreenet.util import tensor_splitting as ts
        from pytreenet.core.truncation.recursive_truncation import recursive_truncation
        from pytreenet.core.truncation.svd_truncation import svd_truncation
        rng = random.Random(case["seed"])
        par = case["parents"]
        n = len(par)
        bond = case["bond"]
        ttns = util.build_ttns(rng, par, bond=bond, complex_=case["complex"])
        ids = sorted(ttns.nodes)
        if case["lowrank"] and n >= 2:
            # make one bond rank-deficient: zero one slice of a child's parent leg
            c = rng.randrange(1, n)
            t = ttns.tensors[f"n{c}"]
            if t.shape[0] >= 2:
                t = t.copy()
                t[-1, ...] = 0
                ttns.tensors[f"n{c}"] = t
        rid = ttns.root_id
        ttns.tensors[rid] = ttns.tensors[rid] * case["scale"]
        before = util.dense_vec(ttns, ids)
        struct0 = util.structure_unordered(ttns)
        p, verdict = make_params(mbd_value(case["mbd"]), float(case["rel"]), float(case["tot"]), case["renorm"],
                                 case["sum_trunc"], case["sum_renorm"])
        ob = {"n": n, "norm": float(np.linalg.norm(before)), "verdict": verdict}
        work = copy.deepcopy(ttns)
        if case["algo"] == "svd":
            work.canonical_form(f"n{case['centre']}")
            canon = util.dense_vec(work, ids)
            ob["canon_dev"] = float(np.linalg.norm(canon - before))
        ob.update(self._trunc_run(work, ids, rid, struct0, before, case["algo"], p))
        # ---- BEGIN Layer-W tie (TTN/TruncTree.v) -------------------------------------------------
        if case.get("wtie"):
            try:
                ob["w"] = wtie_impl(case, p)
            except Exception as e:  # noqa
                import traceback
                ob["w"] = {"exception": f"harness(wtie): {type(e).__name__}: {e}", "tb": traceback.format_exc()[-1500:]}
        # ---- END Layer-W tie ---------------------------------------------------------------------
        return ob

    @staticmethod
    def _centre_defect(tree, centre):
        """largest deviation from an isometry (legs away from `centre` -> leg towards it) over the tensors other than
        the centre's: 0 for a state that is canonical at `centre` (independent numpy check, diagnostic only)"""
        chain = [centre]
        while tree.nodes[chain[-1]].parent is not None:
            chain.append(tree.nodes[chain[-1]].parent)
        worst = 0.0
        for nid, node in tree.nodes.items():
            if nid == centre:
                continue
            towards = chain[chain.index(nid) - 1] if nid in chain else node.parent
            t = np.moveaxis(np.asarray(tree.tensors[nid]), node.neighbour_index(towards), -1)
            m = t.reshape(-1, t.shape[-1])
            worst = max(worst, float(np.max(np.abs(m.conj().T @ m - np.eye(m.shape[1])))) if m.size else 0.0)
        return worst

    @staticmethod
    def _hist_split(work, op, new_id):
        """bare split of the recorded centre node: the new node `new_id` gets the isometric factor (U / Q) and a non-empty part
        of the children / open legs (variant 'up': also the parent leg, it becomes the parent of the centre node; 'down': it
        becomes a child), the centre node keeps its identifier and the rest of the legs.  Returns what was done (or why not)."""
        from pytreenet.core.leg_specification import LegSpecification
        from pytreenet.util.tensor_splitting import SVDParameters
        c = work.orthogonality_center_id
        if c is None:
            return "no recorded centre"
        node = work.nodes[c]
        r2 = random.Random(op[3])
        children, opens = list(node.children), list(node.open_legs)
        legs = [("c", x) for x in children] + [("o", x) for x in opens]
        up = op[2] == "up"
        if len(legs) < (1 if up and not node.is_root() else 2) or (up and len(legs) < 2 and node.is_root()):
            return "too few legs"
        if up and not node.is_root():
            k = r2.randint(0, len(legs) - 1)          # the new node has the parent leg anyway
        else:
            k = r2.randint(1, len(legs) - 1)
        r2.shuffle(legs)
        mine, rest = legs[:k], legs[k:]
        if not rest:
            return "too few legs"
        sub = lambda part, t: [x for tt, x in part if tt == t]  # noqa
        if up:
            new_legs = LegSpecification(node.parent, sub(mine, "c"), sub(mine, "o"), is_root=node.is_root())
            old_legs = LegSpecification(None, sub(rest, "c"), sub(rest, "o"))
        else:
            new_legs = LegSpecification(None, sub(mine, "c"), sub(mine, "o"))
            old_legs = LegSpecification(node.parent, sub(rest, "c"), sub(rest, "o"), is_root=node.is_root())
        if op[1] == "svd":
            work.split_node_svd(c, new_legs, old_legs, u_identifier=new_id, v_identifier=c,
                                svd_params=SVDParameters(max_bond_dim=INF, rel_tol=-INF, total_tol=-INF))
        else:
            work.split_node_qr(c, new_legs, old_legs, q_identifier=new_id, r_identifier=c)
        return f"{new_id} {'above' if up else 'below'} {c} with {[x for _, x in mine]}"

    def _hist_impl(self, case):
        import dataclasses
        import pickle
        from pytreenet.util import tensor_splitting as ts
        from pytreenet.core.truncation.svd_truncation import svd_truncation
        from pytreenet.core.leg_specification import LegSpecification
        if "cls" in case:
            from props.c11 import param_classes
            cls = param_classes()[case["cls"]]
            try:
                p, verdict = cls(**{HIST_ATTR[k]: hist_attr_value(k, case[k]) for k in HIST_ATTR}), "Accept"
            except Exception as e:  # noqa
                return {"verdict": f"{type(e).__name__}: {e}", "runs": []}
        else:
            p, verdict = make_params(mbd_value(case["mbd"]), float(case["rel"]), float(case["tot"]), case["renorm"],
                                     case["sum_trunc"], case["sum_renorm"])
        ob = {"verdict": verdict, "runs": []}
        work = None
        for j, run in enumerate(case["runs"]):
            rng = random.Random(case["seed"] * 31 + j)
            nprs = np.random.RandomState(rng.randrange(2 ** 31))
            # ---- the parameter object before this truncation
            try:
                for op in run.get("pobj", []):
                    if op[0] == "set":
                        setattr(p, HIST_ATTR[op[1]], hist_attr_value(op[1], op[2]))
                    elif op[0] == "clone":
                        if op[1] == "copy":
                            p = copy.copy(p)
                        elif op[1] == "deepcopy":
                            p = copy.deepcopy(p)
                        elif op[1] == "pickle":
                            p = pickle.loads(pickle.dumps(p))
                        else:
                            p = dataclasses.replace(p, **{HIST_ATTR[k]: hist_attr_value(k, v) for k, v in op[2].items()})
                    else:
                        try:
                            type(p)(**op[1])
                        except Exception:  # noqa
                            pass
            except Exception as e:  # noqa
                ob["runs"].append({"pobj_exception": f"{op}: {type(e).__name__}: {e}"})
                work = None
                continue
            if run["tree"] == "new":
                par = run["parents"]
                work = util.build_ttns(rng, par, bond=run["bond"], complex_=case["complex"])
                work.tensors[work.root_id] = work.tensors[work.root_id] * run["scale"]
            elif work is None:
                ob["runs"].append({"skipped": "no state left by the previous run"})
                continue
            n = len(par)
            ro = {"n": n, "verdict": verdict, "parents": par, "rejected": []}

            def rejected(what, call):
                ids_r = sorted(work.nodes)
                st0, d0, c0 = util.structure_unordered(work), util.dense_vec(work, ids_r), work.orthogonality_center_id
                try:
                    with warnings.catch_warnings():
                        warnings.simplefilter("ignore")
                        call()
                    ro["rejected"].append([what, "accepted", None])
                except Exception as e:  # noqa
                    same = (sorted(work.nodes) == ids_r and util.structure_unordered(work) == st0
                            and work.orthogonality_center_id == c0
                            and float(np.linalg.norm(util.dense_vec(work, ids_r) - d0)) <= 1e-12 * max(1.0, float(np.linalg.norm(d0))))
                    ro["rejected"].append([what, f"{type(e).__name__}", bool(same)])
            try:
                if "svd_no_centre" in run.get("rejects", []) and work.orthogonality_center_id is None:
                    rejected("svd_truncation of a state without recorded centre", lambda: svd_truncation(work, p))
                for op in run["prep"]:
                    nid = f"n{op[1]}"
                    if op[0] == "norm":
                        # what TTNS.normalise does (scale the recorded centre, else the root), with the norm taken from the
                        # independent dense contraction and the factor applied through absorb_into_open_legs
                        cur = float(np.linalg.norm(util.dense_vec(work, sorted(work.nodes))))
                        nid = work.orthogonality_center_id or work.root_id
                        if cur > 0 and math.isfinite(cur):
                            d = work.nodes[nid].open_dimension()
                            work.absorb_into_open_legs(nid, np.eye(d) * (float(op[1]) / cur))
                    elif op[0] == "canon":
                        ro["centre_before_last_canon"] = work.orthogonality_center_id
                        work.canonical_form(nid)
                    elif op[0] == "move":
                        if work.orthogonality_center_id is not None:      # no recorded centre: nothing the caller could move
                            work.move_orthogonalization_center(nid)
                    elif op[0] in ("absorb", "legmat"):
                        if op[0] == "absorb":
                            d, kind, mag = work.nodes[nid].open_dimension(), op[2], float(op[3])
                            if work.nodes[nid].nopen_legs() != 1:
                                continue                               # (a node an earlier bare split left without / with several open legs)
                        else:
                            # absorb_matrix accepts 2x2 matrices only (it tests len(matrix) != 2): legs of dimension 2
                            legs = [a for a, dd in enumerate(work.nodes[nid].shape) if dd == 2]
                            if not legs:
                                continue
                            leg, d, kind, mag = legs[op[2] % len(legs)], 2, op[3], float(op[4])
                        m = util.rand_tensor(nprs, (d, d), case["complex"])
                        u, sv, vh = np.linalg.svd(m)
                        if kind == "unitary":
                            m = u @ vh
                        elif kind == "general":                # singular values spread over the given range
                            m = (u * np.geomspace(1.0, mag, d)[::-1]) @ vh
                        elif kind == "diag":
                            m = np.diag(np.geomspace(1.0, mag, d)).astype(m.dtype)
                        else:                                  # rank-deficient operator
                            m = (u * np.array([mag] * max(1, d - 1) + [0.0] * (d - max(1, d - 1)))) @ vh
                        if op[0] == "absorb":
                            work.absorb_into_open_legs(nid, m)
                        else:
                            work.absorb_matrix(nid, m, leg)
                    elif op[0] == "replace":
                        shape = tuple(work.nodes[nid].shape)
                        work.replace_tensor(nid, util.rand_tensor(nprs, shape, case["complex"]) * float(op[2]))
                # ---- [round 7] observations and a bare split between the caller's canonical_form and the truncation
                ro["post_done"] = []
                for i, op in enumerate(run.get("post", [])):
                    if op[0] == "observe":
                        if any(x.startswith("split: s") for x in ro["post_done"]) and \
                                any(nd.nopen_legs() != 1 for nd in work.nodes.values()):
                            # TreeTensorNetworkState promises its contractions for one open leg per node only
                            ro["post_done"].append(f"{op[1]} skipped (a node without / with several open legs)")
                            continue
                        with warnings.catch_warnings():
                            warnings.simplefilter("ignore")
                            if op[1] == "is_canon":
                                val = work.is_in_canonical_form()
                            elif op[1] == "scal_full":
                                val = work.scalar_product(use_orthogonal_center=False)
                            elif op[1] == "norm":
                                val = work.norm()
                            else:
                                from pytreenet.operators.tensorproduct import TensorProduct
                                cand = [x for x in sorted(work.nodes) if work.nodes[x].nopen_legs() == 1]
                                tp = {}
                                for x in cand[:2]:
                                    d = work.nodes[x].open_dimension()
                                    tp[x] = util.rand_tensor(nprs, (d, d), case["complex"])
                                val = work.operator_expectation_value(TensorProduct(tp))
                        ro["post_done"].append(f"{op[1]} -> {val}")
                    else:
                        ro["post_done"].append("split: " + self._hist_split(work, op, f"s{j}x{i}"))
                if "split_unknown" in run.get("rejects", []):
                    rejected("split_node_svd of a node that is not in the tree",
                             lambda: work.split_node_svd("no_such_node", LegSpecification(None, [], [0]), LegSpecification(None, [], [1]),
                                                         u_identifier="u_new", v_identifier="v_new"))
                rid = work.root_id
                ids = sorted(work.nodes)
                before = util.dense_vec(work, ids)
                ro["norm"] = float(np.linalg.norm(before))
                c = work.orthogonality_center_id
                ro["centre"] = c
                if c is not None and run["prep"] and run["prep"][-1][0] == "canon":
                    ro["defect"] = self._centre_defect(work, c)
                struct0 = util.structure_unordered(work)
                # the reference for `identifiers and parent/child relations preserved': the tree right before the call
                ro["ids0"] = ids
                ro["bonds0"] = sorted([nid, work.nodes[nid].parent] for nid in work.nodes if work.nodes[nid].parent is not None)
            except Exception as e:  # noqa
                import traceback
                ro["prep_exception"] = f"{type(e).__name__}: {e}"
                ro["tb"] = traceback.format_exc()[-1200:]
                ob["runs"].append(ro)
                work = None
                continue
            ro.update(self._trunc_run(work, ids, rid, struct0, before, run["algo"], p))
            if "exception" in ro:
                work = None
            ob["runs"].append(ro)
        # one more use of the same parameter object: a direct call on a fixed spectrum
        s = np.array([float(Fraction(x)) for x in case["probe"]], dtype=float)
        try:
            with warnings.catch_warnings():
                warnings.simplefilter("ignore")
                with np.errstate(all="ignore"):
                    new_s, s_trunc = ts.truncate_singular_values(s.copy(), p)
            ob["probe"] = (s.tolist(), np.asarray(new_s, dtype=float).tolist(), np.asarray(s_trunc, dtype=float).tolist(), True)
        except Exception as e:  # noqa
            ob["probe_exception"] = f"{type(e).__name__}: {e}"
        return ob

    def impl(self, ctx, cases):
        out = []
        stats = Counter()
        hstats = Counter()
        for c in cases:
            try:
                if c["kind"] == "sv":
                    out.append(self._sv_impl(c))
                elif c["kind"] == "val":
                    out.append(self._val_impl(c))
                elif c["kind"] == "tsvd":
                    out.append(self._tsvd_impl(c))
                elif c["kind"] == "hist":
                    ob = self._hist_impl(c)
                    out.append(ob)
                    for run, ro in zip(c["runs"], ob["runs"]):
                        if "calls" in ro:
                            hstats["runs"] += 1
                            if any(str(x).startswith("split: s") for x in ro.get("post_done", [])):
                                hstats["runs after a bare split of the centre node (tree has one node more than built)"] += 1
                            for x in ro.get("rejected", []):
                                hstats["rejected call: " + x[0] + " -> " + x[1] + (", state as before" if x[2] else "")] += 1
                            hstats["runs that discard something"] += int(any(len(x[2]) for x in ro["calls"]))
                            if any(o[0] in ("absorb", "replace", "legmat") for o in run["prep"]) or run["tree"] == "same":
                                hstats["runs on a modified state re-canonicalised by the caller"] += 1
                                if ro.get("centre_before_last_canon") == ro.get("centre"):
                                    hstats["... where that canonical_form names the centre already recorded"] += 1
                else:
                    ob = self._tree_impl(c)
                    out.append(ob)
                    if "calls" in ob:
                        disc = sum(len(x[2]) for x in ob["calls"])
                        stats["truncating" if disc else "nothing-discarded"] += 1
                        stats["truncate_singular_values calls"] += len(ob["calls"])
            except Exception as e:  # noqa
                import traceback
                out.append({"exception": f"harness: {type(e).__name__}: {e}", "tb": traceback.format_exc()[-1500:]})
        if any(c["kind"] == "tree" for c in cases) and len(cases) > 1:
            self.tree_stats = stats
        if hstats and len(cases) > 1:
            self.hist_stats = hstats
        return out

    # ----------------------------------------------------------------------------------------
    # model side
    @staticmethod
    def _coq_params(case):
        m = case["mbd"]
        marg = "MInf" if m == "inf" else f"(MInt {coq_z(m)})"
        bond = "BInf" if m == "inf" else f"(BFin {coq_nat(m)})"
        return (f"({marg}, P {bond} {coq_ext(case['rel'])} {coq_ext(case['tot'])} {coq_bool(case['renorm'])} "
                f"{coq_bool(case['sum_trunc'])} {coq_bool(case['sum_renorm'])})")

    @staticmethod
    def _tree_call_exact(case, s):
        """a recorded tree-level call whose float decisions coincide with exact arithmetic: value mode and the
        product rel*s0 is exact (rel infinite, 0, or the product representable)"""
        if case["sum_trunc"] or case["verdict_ok"] is False:
            return False
        rel = float(case["rel"])
        if math.isinf(rel) or rel == 0:
            return True
        return fexact(Fraction(rel) * Fraction(s[0]))

    def model(self, ctx, cases, obs):
        out = [None] * len(cases)
        # sv cases grouped by spectrum, one Coq expression per (spectrum, chunk of parameter rows)
        groups = {}
        for i, c in enumerate(cases):
            if c["kind"] == "sv" and not c.get("fuzzy"):
                groups.setdefault(tuple(c["s"]), []).append(i)
        exprs, owners = [], []
        CH = 120
        for s, idxs in groups.items():
            sl = coq_list([Fraction(x) for x in s], coq_q)
            for a in range(0, len(idxs), CH):
                chunk = idxs[a:a + CH]
                exprs.append(f"run {sl} " + coq_list([self._coq_params(cases[i]) for i in chunk]))
                owners.append(("sv", chunk))
        for i, c in enumerate(cases):
            if c["kind"] == "val":
                exprs.append(f"validate {val_mbd_coq(c['mbd'])} {coq_ext(c['rel'])} {coq_ext(c['tot'])}")
                owners.append(("val", i))
        # recorded tree-level calls (lengths only; the spectra are arbitrary doubles)
        for i, (c, ob) in enumerate(zip(cases, obs)):
            if c["kind"] != "tree" or not isinstance(ob, dict) or not ob.get("calls"):
                continue
            cc = dict(c, verdict_ok=(ob.get("verdict") == "Accept"))
            rows = []
            for j, (s, new, trunc, _same) in enumerate(ob["calls"]):
                if s and self._tree_call_exact(cc, s):
                    rows.append(j)
            if not rows:
                continue
            m = c["mbd"]
            bond = "BInf" if m == "inf" else f"(BFin {coq_nat(m)})"
            rel = "NegInf" if c["rel"] == "-inf" else f"(Fin {coq_q(Fraction(float(c['rel'])))})"
            tot = "NegInf" if c["tot"] == "-inf" else f"(Fin {coq_q(Fraction(float(c['tot'])))})"
            pstr = f"(P {bond} {rel} {tot} {coq_bool(c['renorm'])} false {coq_bool(c['sum_renorm'])})"
            exprs.append(coq_list([f"klen {pstr} {coq_list([Fraction(x) for x in ob['calls'][j][0]], coq_q)}" for j in rows]))
            owners.append(("tree", (i, rows)))
        vals = coq_eval_files(ctx, IMPORTS, exprs, prelude=PRELUDE, shard=ctx.scale(10, 20))
        for (kind, own), v in zip(owners, vals):
            if kind == "sv":
                if isinstance(v, BaseException) or len(v) != len(own):
                    for i in own:
                        out[i] = v if isinstance(v, BaseException) else RuntimeError("model output length mismatch")
                    continue
                for i, r in zip(own, v):
                    out[i] = {"r": r}
            elif kind == "val":
                out[own] = v if isinstance(v, BaseException) else {"v": v}
            else:
                i, rows = own
                out[i] = v if isinstance(v, BaseException) else {"rows": rows, "klen": v}
        # ---- BEGIN Layer-W tie (TTN/TruncTree.v) -------------------------------------------------
        from lib import coq_eval
        wi, wexprs, widm = [], [], {}
        for i, (c, ob) in enumerate(zip(cases, obs)):
            if c["kind"] == "tree" and isinstance(ob, dict) and isinstance(ob.get("w"), dict):
                if out[i] is None:
                    out[i] = {"rows": [], "klen": []}
                if "exception" in ob["w"] or isinstance(out[i], BaseException):
                    continue
                run, idm = wtie_exprs(ob["w"], len(c["parents"]))
                wi.append(i)
                wexprs.append(run)
                widm[i] = idm
        wv = coq_eval(ctx, W_IMPORTS, wexprs, shard=ctx.scale(8, 20), scope="nat_scope", timeout=600)
        for i, v in zip(wi, wv):
            out[i]["w"] = v
            out[i]["widm"] = widm[i]
        # ---- END Layer-W tie ---------------------------------------------------------------------
        return out

    @staticmethod
    def _verdict_model(v):
        if v == "Accept":
            return "Accept"
        if v == "RaiseType":
            return "TypeError"
        if isinstance(v, tuple) and v[0] == "RaiseValue":
            return f"ValueError:{v[1]}"
        return f"?{v}"

    @staticmethod
    def _fr(pair):
        return Fraction(pair[0], pair[1])

    def compare(self, case, ob, mo):
        if "exception" in ob and str(ob["exception"]).startswith("harness"):
            return ob["exception"]
        if case["kind"] == "val":
            mv = self._verdict_model(mo["v"])
            if mv != ob["verdict"]:
                return f"validation: implementation {ob['verdict']}, model {mv}"
            return None
        if case["kind"] == "tree":
            for j, kl in zip(mo["rows"], mo["klen"]):
                s, new, trunc, _ = ob["calls"][j]
                if (len(new), len(trunc)) != tuple(kl):
                    return (f"recorded call {j}: implementation keeps {len(new)} / discards {len(trunc)} of {s}, "
                            f"model {tuple(kl)}")
            # ---- BEGIN Layer-W tie (TTN/TruncTree.v) ---------------------------------------------
            if isinstance(ob.get("w"), dict):
                if "exception" in ob["w"]:
                    return ob["w"]["exception"]
                mw = mo.get("w")
                if mw is None or isinstance(mw, BaseException):
                    return f"Layer-W model evaluation failed: {mw}"
                d = wtie_compare(ob["w"], mw, mo["widm"])
                if d:
                    return d
                self.wtie_stats["tied:" + ob["w"]["algo"] + (":raised" if not ob["w"]["ok"] else "")] += 1
                if ob["w"]["ok"]:                     # [ext-C10V]
                    if all(d == 0 for d in ob["w"]["disc"]) and ob["w"]["disc"]:
                        self.wtie_stats["nothing-discarded runs (model flag tied):" + ob["w"]["algo"]] += 1
                    for c in ob["w"]["contracts"]:
                        if c["nothing"]:
                            k = c["kind"] + (":width<bond" if c["kind"] == "proj" and not c["square"] else "")
                            self.wtie_stats["kernel contract validated:" + k] += 1
                h, q = wtie_obligations(mw)
                self.wtie_obl[0] += 2
                self.wtie_obl[1] += int(h) + int(q)
                if not h:
                    self.wtie_obl[2].append(f"tree seed {case['seed']} ({ob['w']['algo']}): hypotheses of the tree-level theorems "
                                            "(wfb / fresh temporaries) not met on the start store")
                if not q:
                    self.wtie_obl[2].append(f"tree seed {case['seed']} ({ob['w']['algo']}): result store violates wfb or a truncated "
                                            "bond does not have the supplied dimension")
            # ---- END Layer-W tie -----------------------------------------------------------------
            return None
        verdict, r = mo["r"]
        mv = self._verdict_model(verdict)
        if mv != ob["verdict"]:
            return f"validation: implementation {ob['verdict']}, model {mv}"
        if r is None:
            if "exception" in ob and ob["exception"].startswith("ValueError"):
                return None
            return f"model rejects the spectrum (ValueError), implementation returned {ob}"
        if "exception" in ob:
            return f"implementation raised {ob['exception']}, model returns a value"
        r = r[1] if (isinstance(r, tuple) and r and r[0] == "Some") else r
        new_m, trunc_m = r
        trunc_m = [self._fr(x) for x in trunc_m]
        if [Fraction(x) for x in ob["trunc"]] != trunc_m:
            return f"s_trunc: implementation {ob['trunc']}, model {[str(x) for x in trunc_m]}"
        new_m = [self._fr(x) for x in new_m]
        if len(new_m) != len(ob["new"]):
            return f"new_s: implementation {ob['new']}, model {[str(x) for x in new_m]}"
        for a, b in zip(ob["new"], new_m):
            if not math.isfinite(a):
                return f"new_s: implementation {ob['new']} not finite, model {[str(x) for x in new_m]}"
            if case["renorm"]:
                # (x * sum s) is exact on these inputs (float_safe), the division is correctly rounded
                if a != float(b):
                    return f"new_s (renormalised): implementation {ob['new']}, model {[str(x) for x in new_m]}"
            elif Fraction(a) != b:
                return f"new_s: implementation {ob['new']}, model {[str(x) for x in new_m]}"
        return None

    # ----------------------------------------------------------------------------------------
    # property oracle
    @staticmethod
    def _in_quantifier(case):
        """parameters the property quantifies over: max_bond_dim >= 1 or inf, tolerances >= 0 or infinite"""
        if case["mbd"] != "inf" and int(case["mbd"]) < 1:
            return False
        for k in ("rel", "tot"):
            t = ext_parse(case[k])
            if t == "nan" or (isinstance(t, Fraction) and t < 0):
                return False
        return True

    def _oracle_val(self, case, ob):
        m = case["mbd"]
        rel, tot = ext_parse(case["rel"]), ext_parse(case["tot"])
        if rel == "nan" or tot == "nan":
            return None                       # the documentation is silent about nan
        if m["t"] in ("int", "bool"):
            mb_ok, mb_type = int(m["v"]) > 0, True
        elif m["t"] == "inf":
            mb_ok, mb_type = True, True
        else:
            mb_ok, mb_type = False, False

        def tol_ok(t):
            return t in ("-inf", "inf") or (isinstance(t, Fraction) and t >= 0)
        if not mb_type:
            exp = "TypeError"
        elif not mb_ok or not tol_ok(rel) or not tol_ok(tot):
            exp = "ValueError"
        else:
            exp = "Accept"
        got = ob["verdict"].split(":")[0]
        if got != exp:
            return f"SVDParameters(max_bond_dim={m}, rel_tol={case['rel']}, total_tol={case['tot']}): {ob['verdict']}, documented: {exp}"
        return None

    def _oracle_sv(self, case, ob):
        if "exception" in ob and str(ob["exception"]).startswith("harness"):
            return ob["exception"]
        s = [Fraction(x) for x in case["s"]]
        if not self._in_quantifier(case):
            return None
        exp_v = "Accept"
        if ob["verdict"] != exp_v:
            return f"valid parameters rejected: {ob['verdict']}"
        if not s:
            return None if "exception" in ob and ob["exception"].startswith("ValueError") else "empty spectrum accepted"
        if s != sorted(s, reverse=True) or any(x < 0 for x in s):
            return None                       # not a spectrum
        if "exception" in ob:
            return f"raised {ob['exception']}"
        if not ob.get("input_unchanged", True):
            return "the input vector was modified"
        ks = rule_from_text(s, case["mbd"], ext_parse(case["rel"]), ext_parse(case["tot"]), case["sum_trunc"],
                            case["sum_renorm"])
        if isinstance(ks, str):
            return ks
        new, trunc = ob["new"], ob["trunc"]
        k = len(new)
        if case.get("fuzzy"):
            # a rounding may decide: both neighbours of the exact threshold are admissible
            wide = set(ks)
            for slack in (1 - Fraction(1, 10 ** 9), 1 + Fraction(1, 10 ** 9)):
                wide |= rule_from_text(s, case["mbd"], ext_parse(case["rel"]), ext_parse(case["tot"]), case["sum_trunc"],
                                       case["sum_renorm"], slack)
            if k in ks:
                self.boundary_dev["as the exact rule"] += 1
            elif k in wide:
                self.boundary_dev["other side of an exact boundary (sqrt rounding)"] += 1
            ks = wide
        if k not in ks:
            return f"keeps {k} value(s) {new} of {[str(x) for x in s]}; the rule gives {sorted(ks)}"
        if [Fraction(x) for x in trunc] != s[k:]:
            return f"second component {trunc} is not the complementary suffix {[str(x) for x in s[k:]]}"
        kept = s[:k]
        if not all(math.isfinite(x) for x in new):
            return f"returns non-finite values {new} for the spectrum {[str(x) for x in s]}"
        if case["renorm"]:
            # an all-zero kept part cannot be rescaled: it has to come back as it is
            fac = sum(s) / sum(kept) if sum(kept) != 0 else Fraction(1)
            for a, b in zip(new, kept):
                if not math.isfinite(a) or abs(Fraction(a) - b * fac) > Fraction(1, 10 ** 12) * max(1, b * fac):
                    return f"renormalised values {new} != prefix * sum(s)/sum(kept) = {[str(x * fac) for x in kept]}"
        else:
            if [Fraction(x) if math.isfinite(x) else None for x in new] != kept:
                return f"kept values {new} are not the prefix {[str(x) for x in kept]}"
        return None

    def _check_call(self, case, label, call):
        """one recorded truncate_singular_values call (full spectrum, kept, discarded, same parameter object) judged by
        the rule of the property text with the parameter VALUES of the case: a message, None (not a spectrum: outside
        the property), or (sum of the values the rule discards, nothing discarded)"""
        s, new, trunc, same_params = call
        if not same_params:
            return f"{label} used other parameters than the ones passed in"
        if any(s[a] < s[a + 1] for a in range(len(s) - 1)) or any(x < 0 for x in s) or not s:
            return None                        # LAPACK contract violated: not this property
        relx = "-inf" if case["rel"] == "-inf" else Fraction(float(case["rel"]))
        totx = "-inf" if case["tot"] == "-inf" else Fraction(float(case["tot"]))
        sf = [Fraction(x) for x in s]
        cands = set()
        for slack in (Fraction(1), 1 - Fraction(1, 10 ** 9), 1 + Fraction(1, 10 ** 9)):
            ks = rule_from_text(sf, case["mbd"], relx, totx, case["sum_trunc"], case["sum_renorm"], slack)
            if isinstance(ks, str):
                return ks
            cands |= ks
        k = len(new)
        if k not in cands:
            return f"{label} keeps {k} of {s} with {self._pstr(case)}; the rule gives {sorted(cands)}"
        if len(trunc) != len(s) - k or any(a != b for a, b in zip(trunc, s[k:])):
            return f"{label}: second component {trunc} is not the suffix of {s}"
        if not case["renorm"] and any(a != b for a, b in zip(new, s[:k])):
            return f"{label}: kept values {new} are not the prefix of {s}"
        return float(sum(sf[min(cands):])), k == len(s)

    def _oracle_tree(self, case, ob):
        if "exception" in ob:
            return f"{case['algo']}: raised {ob['exception']}"
        n = ob["n"]
        if ob["verdict"] != "Accept":
            return f"valid parameters rejected: {ob['verdict']}"
        if not ob["returns_same_object"]:
            return "does not return the (modified) tree it was given"
        ids0 = ob.get("ids0") or sorted(f"n{i}" for i in range(n))       # (hist: the tree right before the call)
        n = len(ids0)
        if ob["ids"] != ids0 or not ob["struct_same"] or not ob["root_same"]:
            return f"{case['algo']}: node identifiers / parent-child relations changed: {ob['ids']}"
        if not ob["consistent"]:
            return f"{case['algo']}: tensor shapes inconsistent with the node legs or across a bond"
        if case["algo"] == "svd" and ob.get("canon_dev", 0) > 1e-9 * max(1.0, ob["norm"]):
            return None                        # canonical_form itself is C03's business
        cap = INF if case["mbd"] == "inf" else case["mbd"]
        for b in ob["bonds"]:
            if not (1 <= b <= cap):
                return f"{case['algo']}: bond dimension {b} outside [1, {case['mbd']}] (bonds {ob['bonds']})"
        if len(ob["calls"]) != n - 1:
            return f"{case['algo']}: {len(ob['calls'])} truncations for {n - 1} bonds"
        bonds_expected = ob.get("bonds0") or sorted([f"n{i}", f"n{case['parents'][i]}"] for i in range(1, n))
        if sorted(ob["visits"]) != bonds_expected:
            return f"{case['algo']}: bonds truncated {ob['visits']}, expected every (child, parent) bond exactly once"
        if not ob["finite"]:
            return f"{case['algo']}: state not finite after truncation"
        # re-derive what each truncation discards from the recorded full spectrum
        disc_sum = 0.0
        nothing = True
        for j, call in enumerate(ob["calls"]):
            r = self._check_call(case, f"{case['algo']}: truncation {j}", call)
            if not isinstance(r, tuple):
                return r                       # a message, or None: LAPACK contract violated (not this property)
            disc_sum += r[0]
            nothing = nothing and r[1]
        scale = max(1.0, ob["norm"])
        if nothing and ob["err"] > 1e-10 * scale:
            return f"{case['algo']}: nothing discarded but the state moved by {ob['err']:.3e} (norm {ob['norm']:.3e})"
        if not case["renorm"]:
            bound = disc_sum * scale
            if ob["err"] > bound * (1 + 1e-9) + 1e-10 * scale:
                return (f"{case['algo']}: state changed by {ob['err']:.6e} > (sum of discarded values {disc_sum:.6e}) * "
                        f"max(1, norm {ob['norm']:.3e}) = {bound:.6e}")
        return None

    def _oracle_hist(self, case, ob):
        """every truncation of the history is judged exactly like a tree case: by the property text with the parameter
        VALUES the caller's object holds at that moment, on the state as it is right before the call"""
        if ob["verdict"] != "Accept":
            return f"valid parameters rejected: {case.get('cls', 'SVDParameters')}: {ob['verdict']}"
        per_run, final = hist_values(case)

        def descr(j):
            out = []
            for r, ro in zip(case["runs"][:j + 1], ob["runs"][:j + 1]):
                t = f"{'same state again' if r['tree'] == 'same' else 'new state on parents ' + str(r['parents'])}: "
                if r.get("pobj"):
                    t = f"parameter object: {r['pobj']}; " + t
                t += f"{r['prep']}"
                if r.get("post"):
                    t += f" then {ro.get('post_done', r['post'])}"
                out.append(t + f" then {r['algo']}")
            return f"{case.get('cls', 'SVDParameters')}({self._pstr(case)}) shared by the history ({' | '.join(out)})"
        for j, (run, ro) in enumerate(zip(case["runs"], ob["runs"])):
            if "skipped" in ro:
                continue
            if "pobj_exception" in ro:
                return f"{descr(j)}: handling the parameter object raised {ro['pobj_exception']}"
            for what, how, same in ro.get("rejected", []):
                if same is False:
                    return f"{descr(j)}: {what} raised {how} and left a different state / structure / recorded centre behind"
            if "prep_exception" in ro:
                return None                    # the preparing operations are other properties' business (C02, C03)
            sub = dict(case, algo=run["algo"], parents=ro["parents"], **per_run[j])
            w = self._oracle_tree(sub, ro)
            if w:
                extra = ""
                if ro.get("defect") is not None:
                    extra = (f"; right before the call the caller's canonical_form('{ro['centre']}') had returned (recorded centre "
                             f"before it: {ro.get('centre_before_last_canon')}), isometry defect of the state w.r.t. that centre "
                             f"{ro['defect']:.3e}")
                return f"truncation {j + 1} of {descr(j)}, parameter values now {self._pstr(sub)}: {w}{extra}"
        sub = dict(case, **final)
        if "probe_exception" in ob:
            return (f"truncate_singular_values({case['probe']}) with the same parameter object ({self._pstr(sub)}) after "
                    f"{descr(len(case['runs']) - 1)} raised {ob['probe_exception']}")
        r = self._check_call(sub, f"after {descr(len(case['runs']) - 1)}: truncate_singular_values", ob["probe"])
        return r if isinstance(r, str) else None

    def _oracle_tsvd(self, case, ob):
        if "exception" in ob:
            return f"truncated_tensor_svd raised {ob['exception']}"
        if ob["verdict"] != "Accept":
            return f"valid parameters rejected: {ob['verdict']}"
        if not ob["input_unchanged"]:
            return "the input tensor was modified"
        s0 = ob["full_s"]
        scale = max(1.0, ob["normM"])
        relx = "-inf" if case["rel"] == "-inf" else Fraction(float(case["rel"]))
        totx = "-inf" if case["tot"] == "-inf" else Fraction(float(case["tot"]))
        sf = [Fraction(x) for x in s0]
        cands = set()
        for slack in (Fraction(1), 1 - Fraction(1, 10 ** 9), 1 + Fraction(1, 10 ** 9)):
            ks = rule_from_text(sf, case["mbd"], relx, totx, case["sum_trunc"], case["sum_renorm"], slack)
            if isinstance(ks, str):
                return None                   # LAPACK did not return a descending spectrum
            cands |= ks
        k = len(ob["s"])
        if k not in cands:
            return f"keeps {k} of the singular values {s0} with {self._pstr(case)}; the rule gives {sorted(cands)}"
        if ob["u_shape"] != ob["exp_u_shape"] or ob["vh_shape"] != ob["exp_vh_shape"]:
            return f"U/Vh shapes {ob['u_shape']}, {ob['vh_shape']} for {k} kept values, expected {ob['exp_u_shape']}, {ob['exp_vh_shape']}"
        fac = 1.0
        if not all(math.isfinite(x) for x in ob["s"]):
            return f"returns non-finite singular values {ob['s']}"
        if case["renorm"] and sum(s0[:k]) != 0:
            fac = sum(s0) / sum(s0[:k])
        if any(abs(a - fac * b) > 1e-10 * scale for a, b in zip(ob["s"], s0[:k])):
            return f"returned values {ob['s']} are not {'the rescaled ' if case['renorm'] else ''}leading singular values {s0[:k]}"
        if ob["iso_u"] > 1e-10 or ob["iso_v"] > 1e-10:
            return f"U or Vh is not an isometry after slicing ({ob['iso_u']:.2e}, {ob['iso_v']:.2e})"
        if ob["gap"] > 1e-6 * scale and ob["recon_dev"] > 1e-9 * scale:
            return f"U S Vh differs from the {'rescaled ' if case['renorm'] else ''}best rank-{k} approximation by {ob['recon_dev']:.3e}"
        if not case["renorm"]:
            disc = s0[k:]
            fro = math.sqrt(sum(x * x for x in disc))
            if abs(ob["err"] - fro) > 1e-9 * scale:
                return f"||T - U S Vh|| = {ob['err']:.6e}, discarded Frobenius weight {fro:.6e}"
            if ob["err"] > sum(disc) * (1 + 1e-9) + 1e-10 * scale:
                return f"||T - U S Vh|| = {ob['err']:.6e} exceeds the sum of the discarded values {sum(disc):.6e}"
        if ob["contr_dev"] > 1e-10 * scale:
            return f"contr_truncated_svd_splitting({case['contr']}): product of the two tensors differs from U S Vh by {ob['contr_dev']:.3e}"
        return None

    @staticmethod
    def _pstr(case):
        return (f"max_bond_dim={case['mbd']}, rel_tol={case['rel']}, total_tol={case['tot']}, renorm={case['renorm']}, "
                f"sum_trunc={case['sum_trunc']}, sum_renorm={case['sum_renorm']}")

    def oracle(self, case, ob):
        if not isinstance(ob, dict):
            return f"no observation: {ob}"
        if case["kind"] == "sv":
            w = self._oracle_sv(case, ob)
            return None if w is None else f"{w} [{self._pstr(case)}]"
        if case["kind"] == "val":
            return self._oracle_val(case, ob)
        if case["kind"] == "tsvd":
            return self._oracle_tsvd(case, ob)
        if case["kind"] == "hist":
            if "exception" in ob:
                return ob["exception"]
            return self._oracle_hist(case, ob)
        return self._oracle_tree(case, ob) or self._oracle_contracts(case, ob)

    @staticmethod
    def _oracle_contracts(case, ob):
        """[ext-C10V] the kernel contracts under which C10_*_identity_when_nothing_discarded are proved, validated on
        the kernel factors recorded in the Layer-W run: Q.R = A for every QR, U.(S Vh) = A for every truncated SVD that
        discarded nothing, P P^dagger A = A for every projector whose SVD discarded nothing."""
        w = ob.get("w")
        if not isinstance(w, dict) or not w.get("ok"):
            return None
        what = {"qr": "Q . R differs from the split tensor", "svd": "nothing discarded but U . (S Vh) differs from the split tensor",
                "proj": "nothing discarded but conj(P) P^T applied to the node tensor differs from the node tensor"}
        for j, c in enumerate(w.get("contracts", [])):
            if c["nothing"] and not (c["res"] <= 1e-10 * c["scale"]):
                return f"{case['algo']} (Layer-W run): kernel call {j} ({c['kind']}): {what[c['kind']]} by {c['res']:.3e}"
        return None

    def classify(self, case, what, known):
        return None

    def extra_obligations(self, ctx):
        n, ok, fails = getattr(self, "wtie_obl", [0, 0, []])
        return n, ok, fails[:5]
