"""C01 — Hamiltonian -> TTNO conversion is exact for every tree, term set and method.

The SGE / TREE pipelines are not re-implemented in the model: the state diagram the
implementation builds is exported through its public attributes and certified by the verified
checker `sd_check` (coq/theories/SD/Model.v, soundness in SD/ModelProofs.v).  The tensor filling,
the padding and the BASE construction are tied exactly.  The BIPARTITE driver IS modelled
(coq/theories/SD/Pipeline.v) and tied after every driver call: see props/c01d.py ([ext-C01D] blocks here).
Helpers of this file are reused by C12.
"""
from __future__ import annotations

import contextlib
import random
import traceback
from collections import Counter, defaultdict
from fractions import Fraction

import numpy as np

from lib import Prop, coq_eval, coq_q, coq_nat, coq_list, load_known, unsome
import util
from util import TensorProduct, Hamiltonian, TTNO, TTNS, Node
from props import c01d          # [ext-C01D] pipeline model tie (BIPARTITE driver) [/ext-C01D]
from props import c01t          # [ext-C01T] TREE method model tie (marking algorithm) [/ext-C01T]
from props import c01s          # [ext-C01S] pipeline model tie (SGE driver) [/ext-C01S]

METHODS = ["SGE", "BIPARTITE", "TREE", "BASE"]
KF_TREE = "C01-tree-coefficients"
KF_DUP = "C01-duplicate-terms"
KF_SGE = "C01-sge-symbolic-regroup"
IMPORTS = ("From Coq Require Import List Arith Bool QArith. From PTN Require Import Tree.RTree SD.Model SD.Core. "
           "Import ListNotations.")
TOL = 1e-9


# ------------------------------------------------------------------------------------------
# trees / encodings
# ------------------------------------------------------------------------------------------
def preorder(children, v=0):
    out = [v]
    for c in children[v]:
        out += preorder(children, c)
    return out


def parents_of(children):
    par = [None] * len(children)
    for p, cs in enumerate(children):
        for c in cs:
            par[c] = p
    return par


def nested(children, v=0):
    return (v, [nested(children, c) for c in children[v]])


def nid(i):
    return f"n{i}"


# operator names whose concatenations are ambiguous ("n"+"nn" == "nn"+"n"): used instead of A<l>_2 on the
# dimension-2 sites of the cases with labelset == "amb" (anything keyed by concatenated label text must not collide)
AMB = ["n", "nn", "nnn", "x", "xx"]
AMB_DIM = 2


def label_code(lab: str) -> int:
    """'I<d>' -> d ; 'A<l>_<d>' -> 10*(l+1)+d ; ambiguous names -> 41.."""
    if lab in AMB:
        return 41 + AMB.index(lab)
    if lab.startswith("I"):
        return int(lab[1:])
    l, d = lab[1:].split("_")
    return 10 * (int(l) + 1) + int(d)


def sym_code(g: str) -> int:
    return 0 if g == "1" else int(g[1:])


def term_frac(term):
    return Fraction(term[0], term[1])


def padded_strings(case):
    """independent padding: tuple of labels in node-index order, identity 'I<dim>' where untouched"""
    out = []
    for term in case["terms"]:
        ops = {int(k): v for k, v in term[3]}
        out.append(tuple(ops.get(i, f"I{case['phys'][i]}") for i in range(len(case["phys"]))))
    return out


def dedupe(case):
    """the case with exactly repeated padded terms (prefactor, symbol, operator string) removed"""
    seen, terms = set(), []
    for t, s in zip(case["terms"], padded_strings(case)):
        k = (term_frac(t), t[2], s)
        if k not in seen:
            seen.add(k)
            terms.append(t)
    return dict(case, terms=terms)


def multiplicity_lost(sp, case):
    """True iff the polynomial sp is the Hamiltonian with some exactly repeated terms counted fewer times (but at
    least once): for every (symbol, operator string) the coefficient is sum_i m'_i * lambda_i over the distinct
    prefactors lambda_i of that key with 1 <= m'_i <= multiplicity_i, and some m'_i is smaller than the multiplicity."""
    import itertools
    pre = preorder(case["children"])
    groups = defaultdict(Counter)
    for term, s_ in zip(case["terms"], padded_strings(case)):
        groups[((term[2],) if term[2] != "1" else (), tuple(s_[i] for i in pre))][term_frac(term)] += 1
    if any(k not in groups for k in sp):
        return False
    lost = False
    for k, mult in groups.items():
        have = sp.get(k, Fraction(0))
        lams = list(mult.items())
        full = sum(l * m for l, m in lams)
        if have == full:
            continue
        ok = False
        for ms in itertools.product(*[range(1, m + 1) for _l, m in lams]):
            if sum(l * m for (l, _), m in zip(lams, ms)) == have:
                ok = True
                break
        if not ok:
            return False
        lost = True
    return lost


def case_features(case):
    strings = padded_strings(case)
    triples = [(term_frac(t), t[2], s) for t, s in zip(case["terms"], strings)]
    return {
        "has_coef": any((f, g) != (1, "1") for f, g, _ in triples),
        "exact_dup": len(set(triples)) < len(triples),
        "same_string": len(set(strings)) < len(strings),
    }


# ------------------------------------------------------------------------------------------
# building the live objects
# ------------------------------------------------------------------------------------------
def build_ref(case):
    """reference TTNS with exactly the case's child order; nodes are attached in a random order
    compatible with it (so the dict order of ttn.nodes varies)."""
    ch, phys = case["children"], case["phys"]
    rng = random.Random(case["seed"])
    nprs = np.random.RandomState(case["seed"] % (2 ** 31))
    par = parents_of(ch)
    bond = {i: rng.choice([1, 2]) for i in range(1, len(ch))}
    ttn = TTNS()

    def tensor(i):
        shape = ([bond[i]] if par[i] is not None else []) + [bond[c] for c in ch[i]] + [phys[i]]
        return util.rand_tensor(nprs, tuple(shape))
    ttn.add_root(Node(identifier=nid(0)), tensor(0))
    nextc = {0: 0}
    while True:
        cand = [p for p, k in nextc.items() if k < len(ch[p])]
        if not cand:
            break
        p = rng.choice(cand)
        c = ch[p][nextc[p]]
        nextc[p] += 1
        ttn.add_child_to_parent(Node(identifier=nid(c)), tensor(c), 0, nid(p), ttn.nodes[nid(p)].nneighbours())
        nextc[c] = 0
    for i in range(len(ch)):
        assert ttn.nodes[nid(i)].children == [nid(c) for c in ch[i]], "harness: reference tree construction"
        assert ttn.nodes[nid(i)].open_dimension() == phys[i]
    return ttn


# [str-C01] how the caller stores the numbers a symbol is mapped to / the arrays of the operator table.  The property
# quantifies over "symbolic coefficients mapped to arbitrary complex numbers" and over the operator table: the same
# numbers may reach the library as Python numbers, numpy scalars or 0-d arrays (np.asarray(x), np.squeeze, views into a
# parameter vector, read-only), the same matrices as complex/real/integer arrays in any memory layout.
COEF_REAL = ("py_float", "np_float64", "arr0_real")
COEF_INT = ("py_int", "np_int64", "arr0_int")
COEF_KINDS = ["py_complex", "py_float", "py_int", "np_complex128", "np_float64", "np_int64", "arr0_asarray", "arr0_array",
              "arr0_squeeze", "arr0_reshape", "arr0_real", "arr0_int", "arr0_view", "arr0_readonly"]
COEF_ARR0_WRITABLE = ("arr0_asarray", "arr0_array", "arr0_squeeze", "arr0_reshape", "arr0_real", "arr0_view")
TAB_KINDS = ["c128", "f64", "int64", "fortran", "strided", "stack_view", "transposed", "readonly"]
SYMBOLS = ["1", "g1", "g2", "g3", "g4"]


def coef_value(kind, z):
    """the number (plain Python complex) a symbol with default value z is mapped to when it is stored as `kind`"""
    z = complex(z)
    if kind in COEF_REAL:
        return complex(z.real, 0.0)
    if kind in COEF_INT:
        k = int(round(2 * z.real))
        return complex(k if k != 0 else 2, 0.0)
    return z


def coef_object(kind, v):
    """the object the caller puts into coeffs_mapping for the number v (see coef_value)"""
    v = complex(v)
    re = v.real
    if kind in (None, "py_complex"):
        return v
    if kind == "py_float":
        return float(re)
    if kind == "py_int":
        return int(re)
    if kind == "np_complex128":
        return np.complex128(v)
    if kind == "np_float64":
        return np.float64(re)
    if kind == "np_int64":
        return np.int64(int(re))
    if kind == "arr0_asarray":
        return np.asarray(v)
    if kind == "arr0_array":
        return np.array(v, dtype=complex)
    if kind == "arr0_squeeze":
        return np.squeeze(np.array([v]))
    if kind == "arr0_reshape":
        return np.array([[v]]).reshape(())
    if kind == "arr0_real":
        return np.asarray(re)
    if kind == "arr0_int":
        return np.array(int(re))
    if kind == "arr0_view":             # 0-d view into a parameter vector the caller keeps
        buf = np.array([0.5, v, -1.0], dtype=complex)
        return buf[1:2].reshape(())
    if kind == "arr0_readonly":
        a = np.array(v, dtype=complex)
        a.setflags(write=False)
        return a
    raise ValueError(f"harness: unknown coefficient representation {kind}")


def table_value(kind, lab, a):
    """the matrix (complex, fresh) label `lab` with default value a stands for when it is stored as `kind`"""
    a = np.array(a, dtype=complex)
    if lab.startswith("I"):
        return a
    if kind == "f64":
        return np.array(a.real, dtype=complex)
    if kind == "int64":
        return np.array(np.rint(2 * a.real), dtype=complex)
    return a


def table_object(kind, val):
    """the array the caller puts into the conversion dictionary for the matrix val"""
    d = val.shape[0]
    if kind in (None, "c128"):
        return np.array(val, dtype=complex)
    if kind == "f64":
        return np.array(val.real, dtype=float)
    if kind == "int64":
        return np.array(np.rint(val.real), dtype=np.int64)
    if kind == "fortran":
        return np.asfortranarray(np.array(val, dtype=complex))
    if kind == "strided":
        big = np.full((2 * d, 2 * d), 7.5 - 2j, dtype=complex)
        big[::2, ::2] = val
        return big[::2, ::2]
    if kind == "stack_view":            # one of several operators kept in one stacked array
        stack = np.full((3, d, d), -3.25 + 1j, dtype=complex)
        stack[1] = val
        return stack[1]
    if kind == "transposed":
        return np.array(val.T, dtype=complex).T
    if kind == "readonly":
        a = np.array(val, dtype=complex)
        a.setflags(write=False)
        return a
    raise ValueError(f"harness: unknown table representation {kind}")


def default_values(case):
    """(operator table, symbol values) of a case: the default draw (complex standard normal matrices, identity for
    'I<d>', complex symbol values) adjusted to the value class of the case's representations (real / integer)"""
    nprs = np.random.RandomState((case["seed"] * 7 + 1) % (2 ** 31))
    conv = util.rand_conv(nprs, sorted(set(case["phys"])), case.get("nlabels", 3))
    if case.get("labelset") == "amb":
        for lab in AMB:
            conv[lab] = util.rand_tensor(nprs, (AMB_DIM, AMB_DIM))
    cm = {"1": 1}
    for k in range(1, 5):
        cm[f"g{k}"] = complex(nprs.standard_normal(), nprs.standard_normal())
    # [str5-C01] optional 'symscale' {symbol: [num, den]}: the number the symbol is mapped to is the default draw times
    # num/den (the generator divides the prefactors of that symbol's terms by the same rational: the represented
    # operator is unchanged, the rational prefactor and the mapped number are badly scaled against each other)
    for g, (num, den) in (case.get("symscale") or {}).items():
        if g in cm and g != "1":
            cm[g] = cm[g] * float(Fraction(int(num), int(den)))
    tr, cr = case.get("tabrepr") or {}, case.get("coefrepr") or {}
    for lab, kind in tr.items():
        if lab in conv:
            conv[lab] = table_value(kind, lab, conv[lab])
    for g, kind in cr.items():
        if g in cm and g != "1":
            cm[g] = coef_value(kind, cm[g])
    return conv, cm


def make_term(t):
    num, den, g, ops = t
    return (Fraction(num, den), g, TensorProduct({(nid(int(k)) if not str(k).startswith("x") else str(k)): v for k, v in ops}))


def build_ham(case, pristine=False, terms=None, values=None):
    """the live Hamiltonian of a case.  Without the optional keys 'tabrepr' / 'coefrepr' (label -> TAB_KINDS, symbol ->
    COEF_KINDS) the objects are what they always were (complex arrays, Python complex numbers, "1" -> 1).  pristine=True:
    the same numbers as fresh complex arrays / plain Python complex numbers (the harness keeps these for its references,
    the library never sees them).  terms: use these instead of case['terms'];  values: current symbol values (after the
    'remap' steps of a history) instead of the defaults."""
    conv, cm = default_values(case)
    if values is not None:
        cm = dict(cm, **{g: v for g, v in values.items() if g in cm})
    tr, cr = case.get("tabrepr") or {}, case.get("coefrepr") or {}
    if pristine:
        conv = {lab: np.array(a, dtype=complex) for lab, a in conv.items()}
        cm = {g: complex(v) for g, v in cm.items()}
    else:
        for lab, kind in tr.items():
            if lab in conv:
                conv[lab] = table_object(kind, conv[lab])
        for g, kind in cr.items():
            if g in cm:
                cm[g] = coef_object(kind, cm[g])
    return Hamiltonian([make_term(t) for t in (case["terms"] if terms is None else terms)], conv, cm)


def dense_terms(terms, pre, phys, conv, cm):
    """sum_k lambda_k * gamma_k * kron over the sites in pre-order, identity where a term does not act: the reference
    the property text names, from the case's term list and the harness's own (pristine) table and symbol values"""
    D = int(np.prod([phys[i] for i in pre]))
    M = np.zeros((D, D), dtype=complex)
    for num, den, g, ops in terms:
        d = {int(k): v for k, v in ops}
        m = np.ones((1, 1), dtype=complex)
        for i in pre:
            m = np.kron(m, conv[d[i]] if i in d else np.eye(phys[i]))
        M = M + (num / den) * complex(cm[g]) * m
    return M


def table_labels(phys, nlabels=3, amb=False):
    out = []
    for d in sorted(set(phys)):
        out.append(f"I{d}")
        out += [f"A{l}_{d}" for l in range(nlabels)]
    return out + (list(AMB) if amb else [])


@contextlib.contextmanager
def spy_state_diagram(captured):
    """records the padded Hamiltonian and the state diagram TTNO.from_hamiltonian builds"""
    from pytreenet.ttno.state_diagram import StateDiagram
    orig = StateDiagram.__dict__["from_hamiltonian"]

    def spy(cls, hamiltonian, ref_tree, method=None):
        captured["ham"] = hamiltonian
        sdg = orig.__func__(cls, hamiltonian, ref_tree, method)
        captured["sd"] = sdg
        return sdg
    StateDiagram.from_hamiltonian = classmethod(spy)
    try:
        yield
    finally:
        StateDiagram.from_hamiltonian = orig


def finder(method):
    from pytreenet.ttno.state_diagram import TTNOFinder
    return getattr(TTNOFinder, method)


def dense_ttno(ttno, ids):
    """dense matrix of a TTNO read through nodes/tensors only (einsum with an optimised pairwise
    order; util.dense_ttn contracts all indices at once, too slow for uncompressed diagrams).
    rows = outputs in `ids` order, columns = inputs in `ids` order."""
    import string
    letters = iter(string.ascii_letters)
    bond, outl, inl, ops, subs = {}, {}, {}, [], []

    def bond_letter(edge):
        if edge not in bond:
            bond[edge] = next(letters)
        return bond[edge]
    for k in ids:
        node = ttno.nodes[k]
        t = ttno.tensors[k]
        sub = ""
        if not node.is_root():
            sub += bond_letter((node.parent, k))
        for c in node.children:
            sub += bond_letter((k, c))
        outl[k], inl[k] = next(letters), next(letters)
        sub += outl[k] + inl[k]
        assert len(sub) == t.ndim, (k, sub, t.shape)
        ops.append(t)
        subs.append(sub)
    out = "".join(outl[k] for k in ids) + "".join(inl[k] for k in ids)
    res = np.einsum(",".join(subs) + "->" + out, *ops, optimize="greedy")
    d = int(np.prod(res.shape[:len(ids)]))
    return res.reshape(d, d)


# ------------------------------------------------------------------------------------------
# export of a StateDiagram through its public attributes
# ------------------------------------------------------------------------------------------
def export_sd(sdg, case):
    """-> dict(hes=[[hid, node, label, 'num/den', gamma, [vids in neighbour order]]],
               vxs=[[vid, child end of the edge, [hids], index attribute]], malformed=str|None).
    Object identity (python id) is renamed to consecutive numbers: vertices in the order of the
    edge collections (edges in pre-order of their child end), hyperedges node by node in pre-order."""
    ch = case["children"]
    par = parents_of(ch)
    pre = preorder(ch)
    bad = []
    vnum, vxs_raw = {}, []
    keys = set(sdg.vertex_colls.keys())
    for c in pre[1:]:
        k1, k2 = (nid(par[c]), nid(c)), (nid(c), nid(par[c]))
        present = [k for k in (k1, k2) if k in sdg.vertex_colls]
        if len(present) != 1:
            bad.append(f"edge {k1}: {len(present)} vertex collections")
            continue
        keys.discard(present[0])
        coll = sdg.vertex_colls[present[0]]
        if tuple(coll.corr_edge) not in (k1, k2):
            bad.append(f"vertex collection {present[0]} has corr_edge {coll.corr_edge}")
        for pos, v in enumerate(coll.contained_vertices):
            if id(v) in vnum:
                bad.append(f"vertex listed twice in collections (edge {k1})")
                continue
            if tuple(v.corr_edge) not in (k1, k2):
                bad.append(f"vertex with corr_edge {v.corr_edge} in collection {k1}")
            vnum[id(v)] = len(vxs_raw)
            vxs_raw.append((v, c, pos))
    if keys:
        bad.append(f"vertex collections for non-edges {sorted(keys)}")
    hnum, hes_raw = {}, []
    for v in pre:
        if nid(v) not in sdg.hyperedge_colls:
            bad.append(f"no hyperedge collection for {nid(v)}")
            continue
        coll = sdg.hyperedge_colls[nid(v)]
        if coll.corr_node_id != nid(v):
            bad.append(f"hyperedge collection {nid(v)} has corr_node_id {coll.corr_node_id}")
        for h in coll.contained_hyperedges:
            if id(h) in hnum:
                bad.append(f"hyperedge listed twice at {nid(v)}")
                continue
            if h.corr_node_id != nid(v):
                bad.append(f"hyperedge of {h.corr_node_id} in collection {nid(v)}")
            hnum[id(h)] = len(hes_raw)
            hes_raw.append((h, v))
    extra = set(sdg.hyperedge_colls.keys()) - {nid(v) for v in pre}
    if extra:
        bad.append(f"hyperedge collections for unknown nodes {sorted(extra)}")
    hes = []
    for h, v in hes_raw:
        neigh = ([par[v]] if par[v] is not None else []) + list(ch[v])
        verts = []
        if len(h.vertices) != len(neigh):
            bad.append(f"hyperedge at {nid(v)} has {len(h.vertices)} vertices for {len(neigh)} neighbours")
        for nb in neigh:
            cand = [x for x in h.vertices if nid(nb) in x.corr_edge and nid(v) in x.corr_edge]
            if len(cand) != 1:
                bad.append(f"hyperedge at {nid(v)}: {len(cand)} vertices towards {nid(nb)}")
                continue
            if id(cand[0]) not in vnum:
                bad.append(f"hyperedge at {nid(v)} refers to a vertex outside the collections")
                continue
            verts.append(vnum[id(cand[0])])
        lam = Fraction(h.lambda_coeff)
        hes.append([hnum[id(h)], v, h.label, f"{lam.numerator}/{lam.denominator}", h.gamma_coeff, verts])
    vxs = []
    for x, c, pos in vxs_raw:
        hs = []
        for h in x.hyperedges:
            if id(h) not in hnum:
                bad.append(f"vertex of edge to {nid(c)} refers to a hyperedge outside the collections")
                continue
            hs.append(hnum[id(h)])
        vxs.append([vnum[id(x)], c, hs, x.index])
    return {"hes": hes, "vxs": vxs, "malformed": "; ".join(bad[:4]) if bad else None}


def export_positions(ex, case):
    """bond index of every vertex = position in its edge collection (export order)"""
    cnt = Counter()
    pos = {}
    for vid, c, _hs, _idx in ex["vxs"]:
        pos[vid] = cnt[c]
        cnt[c] += 1
    return pos, cnt


# ------------------------------------------------------------------------------------------
# independent evaluations of an exported diagram
# ------------------------------------------------------------------------------------------
def fill_from_export(ex, case, conv, cm):
    """node tensors (parent, children..., out, in) filled from the exported diagram"""
    ch = case["children"]
    par = parents_of(ch)
    pos, cnt = export_positions(ex, case)
    tensors = {}
    for v in range(len(ch)):
        labs = [h[2] for h in ex["hes"] if h[1] == v]
        d = conv[labs[0]].shape[0]
        shape = ([cnt[v]] if par[v] is not None else []) + [cnt[c] for c in ch[v]] + [d, d]
        tensors[v] = np.zeros(shape, dtype=complex)
    for _hid, v, lab, lam, gam, verts in ex["hes"]:
        idx = tuple(pos[x] for x in verts)
        tensors[v][idx] += conv[lab] * (complex(Fraction(lam)) * cm[gam])
    return tensors


def selection_poly(ex, case):
    """sum over all selections of one hyperedge per node agreeing on the vertex of every edge:
    {(sorted symbols, labels in pre-order): Fraction} — flat enumeration by backtracking"""
    ch = case["children"]
    pre = preorder(ch)
    by_node = defaultdict(list)
    for h in ex["hes"]:
        by_node[h[1]].append(h)
    res = defaultdict(Fraction)
    assign = {}

    def rec(k, coef, syms, labels):
        if k == len(pre):
            res[(tuple(sorted(syms)), tuple(labels))] += coef
            return
        v = pre[k]
        for _hid, _v, lab, lam, gam, verts in by_node[v]:
            vs = list(verts)
            if v != 0:
                if not vs or vs[0] != assign[v]:
                    continue
                vs = vs[1:]
            if len(vs) != len(ch[v]):
                continue
            for c, x in zip(ch[v], vs):
                assign[c] = x
            rec(k + 1, coef * Fraction(lam), syms + ([gam] if gam != "1" else []), labels + [lab])
    rec(0, Fraction(1), [], [])
    return {k: v for k, v in res.items() if v != 0}


def ham_poly(case):
    pre = preorder(case["children"])
    res = defaultdict(Fraction)
    for term, s in zip(case["terms"], padded_strings(case)):
        res[((term[2],) if term[2] != "1" else (), tuple(s[i] for i in pre))] += term_frac(term)
    return {k: v for k, v in res.items() if v != 0}


def eval_poly(poly, case, conv, cm):
    pre = preorder(case["children"])
    D = int(np.prod([case["phys"][i] for i in pre]))
    M = np.zeros((D, D), dtype=complex)
    for (syms, labels), q in poly.items():
        m = np.ones((1, 1))
        for lab in labels:
            m = np.kron(m, conv[lab])
        c = complex(q)
        for g in syms:
            c *= cm[g]
        M = M + c * m
    return M


def poly_scale(poly, conv, cm):
    """[str5-C01] sum over the keys of |coefficient| * prod max|label matrices|: size of the data eval_poly sums up"""
    tot = 0.0
    for (syms, labels), q in poly.items():
        m = abs(q.numerator / q.denominator)
        for g in syms:
            m *= abs(complex(cm[g]))
        for lab in labels:
            m *= float(np.max(np.abs(conv[lab])))
        tot += m
    return tot


# ------------------------------------------------------------------------------------------
# Coq literals
# ------------------------------------------------------------------------------------------
def coq_oid(k):
    return f"(0, {int(k)})"


def coq_sd(ex):
    hes = []
    for hid, v, lab, lam, gam, verts in ex["hes"]:
        hes.append(f"mkHe {coq_oid(hid)} {int(v)} {label_code(lab)} {coq_q(Fraction(lam))} {sym_code(gam)} {coq_list(verts, coq_oid)}")
    vxs = []
    for vid, c, hs, _idx in ex["vxs"]:
        vxs.append(f"mkVx {coq_oid(vid)} {int(c)} {coq_list(hs, coq_oid)}")
    return f"(mkSd {coq_list(hes)} {coq_list(vxs)})"


def coq_uterms(case):
    out = []
    for term in case["terms"]:
        ops = coq_list([(int(k) if not str(k).startswith("x") else 900 + int(str(k)[1:]), label_code(v)) for k, v in term[3]],
                       lambda kv: f"({kv[0]}, {kv[1]})")
        out.append(f"({coq_q(term_frac(term))}, {sym_code(term[2])}, {ops})")
    return coq_list(out)


def coq_tree(case):
    return util.coq_rtree(nested(case["children"])).replace("%nat", "")


def coq_dims(case):
    return coq_list(list(enumerate(case["phys"])), lambda kv: f"({kv[0]}, {kv[1]})")


# ------------------------------------------------------------------------------------------
# generators
# ------------------------------------------------------------------------------------------
def random_children(rng, n):
    par = util.random_parents(rng, n)
    ch = [[] for _ in range(n)]
    for i in range(1, n):
        ch[par[i]].append(i)
    for cs in ch:
        rng.shuffle(cs)
    return ch


def children_from_parents(par):
    ch = [[] for _ in par]
    for i, p in enumerate(par):
        if p is not None:
            ch[p].append(i)
    return ch


def random_phys(rng, n, cap):
    phys = [rng.choice([1, 2, 2, 2, 3]) for _ in range(n)]
    while int(np.prod(phys)) > cap:
        i = max(range(n), key=lambda k: (phys[k], rng.random()))
        phys[i] -= 1
    return phys


def site_labels(phys, s_, nlabels, physical_only=False, amb=False):
    """non-identity labels available on site s_"""
    d = phys[s_]
    if amb and d == AMB_DIM:
        return AMB[:3] if physical_only else AMB[:max(3, nlabels + 2)]
    nl = max(1, nlabels if not physical_only else min(nlabels, d * d - 1))
    return [f"A{l}_{d}" for l in range(nl)]


def ambiguous_pairs(rng, ch, phys, seen, coefmode):
    """two terms that differ only by exchanging two labels with ambiguous concatenation between a non-root node and
    one of its leaf children (or between two sibling leaves of a non-root node)"""
    n = len(ch)
    par = parents_of(ch)
    cands = []
    for m in range(1, n):
        leaves = [c for c in ch[m] if not ch[c] and phys[c] == AMB_DIM]
        if phys[m] == AMB_DIM:
            cands += [(m, a) for a in leaves]
        cands += [(a, b) for a in leaves for b in leaves if a < b]
    if not cands:
        return []
    u, v = rng.choice(cands)
    fam = rng.choice([["n", "nn", "nnn"], ["x", "xx"]])
    l1, l2 = rng.sample(fam, 2)
    rest = []
    for s_ in range(n):
        if s_ not in (u, v) and phys[s_] > 1 and rng.random() < 0.4:
            rest.append([s_, rng.choice(site_labels(phys, s_, 3, amb=True))])
    out = []
    for a, b in ((l1, l2), (l2, l1)):
        ops = [[u, a], [v, b]] + [list(x) for x in rest]
        rng.shuffle(ops)
        full = tuple(dict((i, lab) for i, lab in ops).get(i, f"I{phys[i]}") for i in range(n))
        if full in seen:
            continue
        seen.add(full)
        fr = Fraction(1) if coefmode == "unit" else Fraction(rng.choice([1, 2, -1, 3]), rng.choice([1, 2]))
        out.append([fr.numerator, fr.denominator, "1" if coefmode in ("unit", "frac") else rng.choice(["1", "g1"]), ops])
    return out


def gamma_terms(rng, ch, phys, nlabels, seen, physical_only=False, amb=False):
    """a random SYMBOLIC coefficient matrix across one edge: rows = operator strings U_i below the edge, columns =
    strings V_j on the other side, entry (i, j) = rational x symbol (g1..g4, or a plain rational, or 0), every non-zero
    entry its own term U_i (x) V_j.  Columns are 'shared' (one symbol for all rows), 'split' (two symbols) or 'free'; some
    rows repeat another row's symbols with proportional rationals outside the first column: rows that the elimination
    tries to combine through a shared symbol and has to abandon at a later column, next to rows that do compress."""
    n = len(ch)
    edges = []
    for c in range(1, n):
        S = preorder(ch, c)
        R = [i for i in range(n) if i not in S]
        if any(phys[i] > 1 for i in S) and any(phys[i] > 1 for i in R):
            edges.append((c, S, R))
    if not edges:
        return []
    c, S, R = rng.choice(edges)

    def strings(side, want):
        out, tries = [], 0
        sites = [i for i in side if phys[i] > 1] if physical_only else list(side)
        while len(out) < want and tries < 60:
            tries += 1
            st = {}
            for i in sites:
                if rng.random() < (0.75 if phys[i] > 1 else 0.2):
                    st[i] = rng.choice(site_labels(phys, i, max(nlabels, 2), physical_only, amb))
            key = tuple(sorted(st.items()))
            if key not in [k for k, _ in out]:
                out.append((key, st))
        return [st for _k, st in out]
    U = strings(S, rng.choice([2, 3, 3, 4]))
    V = strings(R, rng.choice([2, 3, 3, 4]))
    if len(U) < 2 or len(V) < 2:
        return []
    m, k = len(U), len(V)
    syms = ["g1", "g2", "g3", "g4"]
    rng.shuffle(syms)
    G = [[None] * k for _ in range(m)]
    for j in range(k):
        mode = "shared" if (j == 0 and rng.random() < 0.8) else rng.choice(["shared", "split", "free", "free"])
        pool = {"shared": syms[:1], "split": rng.sample(syms, 2), "free": syms + ["1"]}[mode]
        if mode == "shared" and rng.random() < 0.2:
            pool = ["1"]
        for i in range(m):
            if j > 0 and rng.random() < 0.2:
                continue
            G[i][j] = (Fraction(rng.choice([1, 1, 2, -1, 3, -2]), rng.choice([1, 1, 2])), rng.choice(pool))
    if rng.random() < 0.5:
        # template: one symbol down the first column; row 0 carries other symbols than the remaining rows in the later
        # columns, and the remaining rows are multiples of one pattern there
        a = syms[0]
        pat = [None] + [(Fraction(rng.choice([1, 2, -1, 3]), rng.choice([1, 2])), rng.choice(syms[1:])) if (j == 1 or rng.random() < 0.6) else None
                        for j in range(1, k)]
        for i in range(m):
            G[i][0] = (Fraction(rng.choice([1, 1, 2, -1, 3]), rng.choice([1, 1, 2])), a)
            f = Fraction(rng.choice([1, -1, 2, -2, 3]), rng.choice([1, 1, 2]))
            for j in range(1, k):
                if i == 0:
                    others = [x for x in syms[1:] if pat[j] is None or x != pat[j][1]]
                    G[0][j] = (Fraction(rng.choice([1, 2, -1]), rng.choice([1, 2])), rng.choice(others)) if (j == 1 or rng.random() < 0.6) else None
                else:
                    G[i][j] = None if pat[j] is None else (pat[j][0] * f, pat[j][1])
    for _ in range(rng.choice([0, 1, 1, 2])):            # rows proportional to another row outside the first column
        i, i2 = rng.sample(range(m), 2)
        r = Fraction(rng.choice([1, -1, 2, -2, 3]), rng.choice([1, 1, 2]))
        for j in range(1, k):
            G[i2][j] = None if G[i][j] is None else (G[i][j][0] * r, G[i][j][1])
    out = []
    for i in range(m):
        for j in range(k):
            if G[i][j] is None:
                continue
            ops = [[a, b] for a, b in list(U[i].items()) + list(V[j].items())]
            rng.shuffle(ops)
            full = tuple(dict((a, b) for a, b in ops).get(q, f"I{phys[q]}") for q in range(n))
            if full in seen or not ops:
                continue
            seen.add(full)
            fr, g = G[i][j]
            out.append([fr.numerator, fr.denominator, g, ops])
    return out


def product_terms(rng, phys, coefmode, nlabels, physical_only, seen, budget, amb=False):
    """expansion of  c * prod_{s in S} (w_s0 A_s0 + w_s1 A_s1): terms whose coefficient matrices across every
    edge have low rank, so that the Gaussian elimination has real row/column operations to do"""
    n = len(phys)
    sites_all = [i for i in range(n) if phys[i] > 1] if physical_only else list(range(n))
    if len(sites_all) < 2:
        return []
    k = rng.randrange(2, min(4, len(sites_all)) + 1)
    sites = rng.sample(sites_all, k)
    alts = []
    for s_ in sites:
        avail = site_labels(phys, s_, nlabels if nlabels > 1 else 2, physical_only, amb)
        labs = rng.sample(avail, min(len(avail), rng.choice([1, 2, 2])))
        alts.append([(lab, Fraction(rng.choice([1, 1, 2, -1, 3]), rng.choice([1, 1, 2])) if coefmode != "unit" else Fraction(1)) for lab in labs])
    if coefmode in ("unit", "frac"):
        g = "1"
    else:
        g = rng.choice(["1", "g1", "g2"])
    lead = Fraction(1) if coefmode == "unit" else Fraction(rng.choice([1, 2, -1, 1]), rng.choice([1, 3]))
    out = []
    import itertools
    for combo in itertools.product(*alts):
        ops = [[s_, lab] for s_, (lab, _w) in zip(sites, combo)]
        w = lead
        for _lab, ww in combo:
            w *= ww
        full = tuple(dict((a, b) for a, b in ops).get(i, f"I{phys[i]}") for i in range(n))
        if full in seen or len(out) >= budget:
            continue
        seen.add(full)
        out.append([w.numerator, w.denominator, g, ops])
    return out


def random_terms(rng, phys, nterms, coefmode, dupmode, nlabels, distinct_strings=False, physical_only=False, product=False,
                 amb=False, gamma_on=None):
    """terms as [num, den, symbol, [[node, label], ...]]; gamma_on = children lists of the tree: start with a random
    symbolic coefficient matrix across one edge (gamma_terms)"""
    n = len(phys)
    sites_all = [i for i in range(n) if not (physical_only and phys[i] == 1)]
    terms, seen = [], set()
    if gamma_on is not None:
        terms += gamma_terms(rng, gamma_on, phys, nlabels, seen, physical_only, amb)
        nterms = max(nterms, len(terms) + rng.choice([0, 0, 1, 2]))
    if amb and gamma_on is None and not physical_only and rng.random() < 0.8:
        terms += ambiguous_pairs(rng, amb, phys, seen, coefmode)
    if product:
        for _ in range(rng.choice([1, 1, 2])):
            terms += product_terms(rng, phys, coefmode, nlabels, physical_only, seen, max(0, (nterms if gamma_on is None else len(terms) + 4) - len(terms)), amb=bool(amb))

    def coef():
        if coefmode == "unit":
            return 1, 1, "1"
        fr = Fraction(rng.choice([1, 2, -1, 3, -2, 1, 5]), rng.choice([1, 1, 2, 3]))
        if coefmode == "frac":
            return fr.numerator, fr.denominator, "1"
        return fr.numerator, fr.denominator, rng.choice(["1", "g1", "g2", "g3", "g4"] if coefmode == "sym" else ["g1", "g1", "1"])
    tries = 0
    while len(terms) < nterms and tries < 200:
        tries += 1
        if terms and dupmode != "none" and rng.random() < 0.35:
            src = rng.choice(terms)
            kind = dupmode if dupmode != "mixed" else rng.choice(["dup", "prop"])
            if kind == "dup":
                new = [src[0], src[1], src[2], [list(x) for x in src[3]]]
                if rng.random() < 0.3:
                    rng.shuffle(new[3])          # same term, other key order
                if rng.random() < 0.3:           # same term after padding: explicit identity
                    free = [i for i in range(n) if i not in [k for k, _ in new[3]]]
                    if free:
                        i = rng.choice(free)
                        new[3].append([i, f"I{phys[i]}"])
            else:
                f = Fraction(src[0], src[1]) * rng.choice([2, -1, Fraction(1, 3), 3])
                g = src[2] if (coefmode != "symshared" and rng.random() < 0.5) or coefmode in ("unit", "frac") else rng.choice(["1", "g1", "g2", "g3"])
                if coefmode == "unit":
                    continue
                new = [f.numerator, f.denominator, g, [list(x) for x in src[3]]]
            terms.append(new)
            continue
        if not sites_all:
            k = 0
            sites = []
        else:
            k = rng.randrange(1, len(sites_all) + 1) if rng.random() < 0.6 else rng.randrange(1, min(2, len(sites_all)) + 1)
            sites = rng.sample(sites_all, k)
        ops = []
        for s in sites:
            if not physical_only and rng.random() < 0.08:
                ops.append([s, f"I{phys[s]}"])
            else:
                ops.append([s, rng.choice(site_labels(phys, s, nlabels, physical_only, bool(amb)))])
        if not ops and not physical_only:
            s = rng.randrange(n)
            ops = [[s, f"A0_{phys[s]}"]]
        full = tuple(dict(ops).get(i, f"I{phys[i]}") for i in range(n))
        if (dupmode == "none" or distinct_strings) and full in seen:
            continue
        seen.add(full)
        num, den, g = coef()
        terms.append([num, den, g, ops])
    return terms


# ------------------------------------------------------------------------------------------
# [str-C01] configurations of the caller's objects, histories on one Hamiltonian object
# ------------------------------------------------------------------------------------------
def random_coefrepr(rng):
    """symbol -> COEF_KINDS: one family for all symbols or an independent draw per symbol"""
    mode = rng.choice(["arr0", "arr0", "np", "mixed", "mixed", "py"])
    pool = {"arr0": [k for k in COEF_KINDS if k.startswith("arr0")], "np": [k for k in COEF_KINDS if k.startswith("np_")],
            "py": [k for k in COEF_KINDS if k.startswith("py_")], "mixed": COEF_KINDS}[mode]
    return {g: rng.choice(pool) for g in SYMBOLS}


def random_tabrepr(rng, labels):
    mode = rng.choice(["mixed", "mixed", "one"])
    one = rng.choice(TAB_KINDS)
    return {lab: (one if mode == "one" else rng.choice(TAB_KINDS)) for lab in labels}


EXTEND_HOWS = ["add_term", "add_multiple_terms", "add_hamiltonian", "add_hamiltonian", "plus_ham", "plus_tp", "terms_extend"]


def random_history(rng, ch, phys, terms, coefrepr, cap):
    """what the caller did with ONE Hamiltonian object (and one reference tree object) before the conversion the case is
    about: built from the first `init` terms, then any of
      convert   TTNO.from_hamiltonian(ham, tree, method) for the same tree object / a deep copy / another tree on the same
                identifiers (other shape and child order, other dimensions on the sites no term touches so far)
      pad / to_matrix   the other public entry points that pad the Hamiltonian for a tree
      remap     the caller changes the number a symbol stands for (new object, or in place in a 0-d parameter array)
      extend    the next terms are added through add_term / add_multiple_terms / add_hamiltonian (the other Hamiltonian
                sharing this one's dictionaries or carrying equal fresh ones) / ham + other / ham + tensor product /
                ham.terms.extend
    until all terms of the case are in.  -> {"init": k0, "steps": [...]}"""
    n, T = len(ch), len(terms)
    D = int(np.prod(phys))
    k0 = T if (T == 1 or rng.random() < 0.12) else rng.randrange(1, T)
    steps = []
    state = {"k": k0, "nconv": 0}

    def convert():
        where = rng.choice(["same", "same", "same", "copy", "other"])
        st = {"op": "convert", "method": rng.choice(["final", "final", "SGE", "BIPARTITE", "BIPARTITE", "TREE", "BASE", "BASE"]), "tree": where}
        if where == "other":
            touched = {int(k) for t in terms[:state["k"]] for k, _ in t[3]}
            phys2 = [phys[i] if i in touched else rng.choice(sorted(set(phys))) for i in range(n)]
            if int(np.prod(phys2)) > cap:
                phys2 = list(phys)
            st["other"] = {"children": random_children(rng, n), "phys": phys2, "seed": rng.randrange(10 ** 6)}
        state["nconv"] += 1
        return st

    def between():
        for _ in range(rng.choice([0, 1, 1, 2])):
            r = rng.random()
            used = sorted({t[2] for t in terms} - {"1"})
            if r < 0.6:
                steps.append(convert())
            elif r < 0.72:
                steps.append({"op": "pad", "tree": rng.choice(["same", "same", "copy"]), "symbolic": rng.random() < 0.7})
            elif r < 0.8 and D <= 64:
                steps.append({"op": "to_matrix", "tree": "same"})
            elif r < 0.95 and used:
                g = rng.choice(used)
                kind = (coefrepr or {}).get(g)
                v = coef_value(kind, complex(round(rng.uniform(-2, 2), 3), round(rng.uniform(-2, 2), 3)))
                steps.append({"op": "remap", "sym": g, "re": v.real, "im": v.imag,
                              "inplace": bool(kind in COEF_ARR0_WRITABLE and rng.random() < 0.5)})
    between()
    while state["k"] < T:
        m = rng.randrange(1, T - state["k"] + 1)
        steps.append({"op": "extend", "how": rng.choice(EXTEND_HOWS), "n": m, "shared_dicts": rng.random() < 0.5,
                      "bare": rng.random() < 0.5})
        state["k"] += m
        between()
    ext = [i for i, st in enumerate(steps) if st["op"] == "extend"]
    used_before = ext and any(st["op"] in ("convert", "pad", "to_matrix") for st in steps[:ext[-1]])
    if (state["nconv"] == 0) or (ext and not used_before and rng.random() < 0.7):
        # use / extend / use: the object is converted (at the latest) before its last extension; a history without any
        # earlier use of the object says nothing
        pos = ext[-1] if ext and (state["nconv"] > 0 or rng.random() < 0.8) else len(steps)
        state["k"] = k0 + sum(st["n"] for st in steps[:pos] if st["op"] == "extend")
        steps.insert(pos, convert())
    return {"init": k0, "steps": steps}


def history_prefix(case, upto):
    """number of terms the Hamiltonian object holds before step `upto` of the history"""
    h = case["history"]
    return h["init"] + sum(st["n"] for st in h["steps"][:upto] if st["op"] == "extend")


# ------------------------------------------------------------------------------------------
# [str7-C01] term objects edited in place between conversions; reference trees produced by other library operations
# ------------------------------------------------------------------------------------------
# every route a UserDict offers to change a TensorProduct that is a term of a live Hamiltonian
EDIT_ROUTES = {"set": ["setitem", "update", "update_kw", "ior", "ior_tp", "data_set", "data_update"],
               "add": ["setitem", "update", "ior", "ior_tp", "data_set", "setdefault", "data_ior"],
               "del": ["delitem", "pop", "data_del", "data_pop", "popitem"],
               "coef": ["tuple"]}


def apply_edit(ham, st):
    """[str7-C01] the caller changes term no. st['term'] of the live Hamiltonian in place"""
    i, route, lab = st["term"], st["route"], st.get("label")
    fr, g, tp = ham.terms[i]
    if route == "tuple":            # new prefactor / symbol, the same tensor product object
        ham.terms[i] = (Fraction(st["num"], st["den"]), st["sym"], tp)
        return
    key = nid(int(st["site"])) if not str(st["site"]).startswith("x") else str(st["site"])
    if route == "setitem":
        tp[key] = lab
    elif route == "update":
        tp.update({key: lab})
    elif route == "update_kw":
        tp.update(**{key: lab})
    elif route == "ior":
        tp |= {key: lab}
        assert ham.terms[i][2] is tp
    elif route == "ior_tp":
        tp |= TensorProduct({key: lab})
    elif route == "data_set":
        tp.data[key] = lab
    elif route == "data_update":
        tp.data.update({key: lab})
    elif route == "data_ior":
        tp.data |= {key: lab}
    elif route == "setdefault":
        tp.setdefault(key, lab)
    elif route == "delitem":
        del tp[key]
    elif route == "pop":
        tp.pop(key)
    elif route == "data_del":
        del tp.data[key]
    elif route == "data_pop":
        tp.data.pop(key)
    elif route == "popitem":        # the generator uses it only where `key` is the first key of the term
        k_, _v = tp.popitem()
        assert k_ == key, "harness: popitem removed another factor than planned"
    else:
        raise ValueError(f"harness: unknown edit route {route}")


def term_at(case, i, version):
    """[str7-C01] term i of the case as the Hamiltonian object holds it: version = the list [num, den, sym, ops] recorded in
    history['orig'] before its first edit, afterwards what the edit steps made of it"""
    return [version[0], version[1], version[2], [list(o) for o in version[3]]]


def random_edits(rng, phys, terms, hist):
    """[str7-C01] inserts 'edit' steps into the history `hist` of one Hamiltonian object (see random_history): 1..3 of the
    terms start as an EARLIER version (hist['orig'][i]) and are brought to the case's version by 1..2 in-place edits each -
    a factor replaced / added on a new site / removed, through any mutating route of UserDict (EDIT_ROUTES) incl. `|=` and
    `.data`, or the tuple in ham.terms replaced (new prefactor, same tensor product object).  Most edits come right after a
    use of the object for the tree object of the final conversion (convert / pad / to_matrix) and are followed by one."""
    n, T = len(phys), len(terms)
    steps = hist["steps"]
    D = int(np.prod(phys))
    orig = {}
    for i in rng.sample(range(T), min(T, rng.choice([1, 1, 2, 3]))):
        ver = [terms[i][0], terms[i][1], terms[i][2], [list(o) for o in terms[i][3]]]
        chain = []
        for _ in range(rng.choice([1, 1, 2])):
            # going backwards: `ver` is the version AFTER the edit, prev the one before
            sites = [int(k) for k, _ in ver[3]]
            free = [s_ for s_ in range(n) if s_ not in sites]
            kinds = ["set", "set"] + (["add", "add", "add"] if len(sites) >= 2 else []) + (["del"] if free else []) + ["coef", "fix"]
            kind = rng.choice(kinds)
            prev = [ver[0], ver[1], ver[2], [list(o) for o in ver[3]]]
            st = {"op": "edit", "term": i, "kind": kind}
            if kind == "fix":           # error path: the earlier version has a factor on a site that is NO node of the tree - every use of the
                # object is rejected until the caller removes it (always the first edit of the term: nothing else is done to such a term)
                x_ = f"x{rng.randrange(3)}"
                prev[3].insert(rng.randrange(len(sites) + 1), [x_, rng.choice(site_labels(phys, rng.randrange(n), 3))])
                st.update(kind="fix", route=rng.choice(["delitem", "pop", "data_del", "data_pop"]), site=x_, to=ver)
                chain.insert(0, st)
                ver = prev
                break
            if kind == "coef":
                fr = Fraction(ver[0], ver[1]) * rng.choice([2, -1, Fraction(1, 3), 5]) if ver[0] else Fraction(3, 2)
                prev[0], prev[1] = fr.numerator, fr.denominator
                st.update(route="tuple", num=ver[0], den=ver[1], sym=ver[2])
            elif kind == "set":
                j = rng.randrange(len(sites))
                s_ = sites[j]
                others = [l for l in site_labels(phys, s_, 3) if l != ver[3][j][1]]
                if not others:
                    continue
                prev[3][j][1] = rng.choice(others)
                st.update(route=rng.choice(EDIT_ROUTES["set"]), site=s_, label=ver[3][j][1])
            elif kind == "add":             # the factor on the LAST key was added (a new key goes to the end of the dict)
                s_, lab = ver[3][-1]
                prev[3] = prev[3][:-1]
                st.update(route=rng.choice(EDIT_ROUTES["add"]), site=int(s_), label=lab)
            else:                           # a factor on a site the later version does not touch was removed
                s_ = rng.choice(free)
                pos = rng.choice([len(sites), 0, rng.randrange(len(sites) + 1)])
                prev[3].insert(pos, [s_, rng.choice(site_labels(phys, s_, 3))])
                routes = [r for r in EDIT_ROUTES["del"] if r != "popitem" or pos == 0]       # UserDict.popitem (MutableMapping) removes the FIRST key
                st.update(route=rng.choice(routes), site=s_)
            st["to"] = ver
            chain.insert(0, st)
            ver = prev
        if chain:
            orig[str(i)] = ver
            # place the chain: after term i is in, in forward order
            have = hist["init"]
            first = 0
            if i >= have:
                for si, s0 in enumerate(steps):
                    if s0["op"] == "extend":
                        have += s0["n"]
                        if i < have:
                            first = si + 1
                            break
            pos = first
            for st in chain:
                pos = rng.randrange(pos, len(steps) + 1)
                ins = []
                if rng.random() < 0.85:         # a use of the object for the final tree object right before the edit
                    r = rng.random()
                    if r < 0.7:
                        ins.append({"op": "convert", "method": rng.choice(["final", "final", "SGE", "BIPARTITE", "TREE", "BASE"]), "tree": "same"})
                    elif r < 0.9 or D > 64:
                        ins.append({"op": "pad", "tree": "same", "symbolic": True, "scribble": rng.random() < 0.5})
                    else:
                        ins.append({"op": "to_matrix", "tree": "same"})
                ins.append(st)
                if rng.random() < 0.4:
                    ins.append({"op": "convert", "method": rng.choice(["final", "BASE", "BIPARTITE"]), "tree": rng.choice(["same", "same", "copy"])})
                steps[pos:pos] = ins
                pos += len(ins)
    hist["orig"] = orig
    # conversions for 'another tree on the same identifiers': it keeps the case's dimension on every site ANY version of a term touches
    anysite = {int(k) for v in list(orig.values()) + [st["to"] for st in steps if st["op"] == "edit" and "to" in st] for k, _ in v[3] if not str(k).startswith("x")}
    for st in steps:
        if st["op"] == "convert" and st.get("other"):
            st["other"]["phys"] = [phys[i] if i in anysite else d for i, d in enumerate(st["other"]["phys"])]
    for st in steps:          # the caller also edits what pad_with_identities returned to him (his own object from then on)
        if st["op"] == "pad" and "scribble" not in st and rng.random() < 0.4:
            st["scribble"] = True
    return hist


def history_terms(case, upto=None):
    """[str7-C01] the term list the Hamiltonian object of a history holds before step `upto` (default: at the end): the first
    terms of the case, each in the version the 'edit' steps so far have made of its recorded earlier version"""
    h = case["history"]
    orig = h.get("orig") or {}
    steps = h["steps"] if upto is None else h["steps"][:upto]
    k = h["init"] + sum(st["n"] for st in steps if st["op"] == "extend")
    cur = [term_at(case, i, orig.get(str(i), case["terms"][i])) for i in range(k)]
    for st in steps:
        if st["op"] == "edit":
            cur[st["term"]] = term_at(case, st["term"], st["to"])
    return cur


# ---- reference trees that are the RESULT of other library operations -------------------------------------------------
def _pt_from(ch, phys):
    """pure tree: name -> [parent, children, open dimensions]"""
    par = parents_of(ch)
    return {nid(i): [nid(par[i]) if par[i] is not None else None, [nid(c) for c in ch[i]], [phys[i]]] for i in range(len(ch))}


def random_treeops(rng, ch, phys):
    """[str7-C01] -> {"start": pure tree, "root": name, "ops": [...]}: a start tree (built node by node, root first) and a
    sequence of library operations after which the reference tree IS the case's tree (children, phys, identifiers n<i>).
    Generated backwards from the case's tree with the inverse of
      newroot   add_parent_to_root (the former root had a spare open leg)
      rename    change_node_identifier (any node: root, inner node with grandchildren, leaf; temporary names that extend /
                are extended by other identifiers, or identifiers of nodes that no longer exist)
      contract  contract_nodes(id1, id2, new_identifier): the node is the contraction of a parent and a child, either as
                id1; children lists concatenated as documented
      split     split_node_qr: a node and its first child are the two halves (upper half = Q or R) of one node with two
                groups of open legs, child legs named in any order
    also several on the same nodes (contract, then split again).  The leg-order rules used to predict the result are the
    documented ones; the harness asserts that the tree the library produced is the case's tree before converting."""
    n = len(ch)
    pt = _pt_from(ch, phys)
    root = nid(0)
    ops = []
    final_names = [nid(i) for i in range(n)]

    def fresh(base, reuse=True):
        pool = [x for x in final_names if x not in pt and x != base and reuse] * 2 + [base + "_", base + "0", "x" + base, base[:1], "tmp", "root", nid(n), nid(n + 1),
                                                             base + "contr" + base, "out_of_" + base, "in_of_" + base]
        rng.shuffle(pool)
        for x in pool:
            if x and x not in pt:
                return x
        return base + "_%d" % rng.randrange(10 ** 6)

    def replace_in_neighbours(old, new):
        p, cs, _o = pt[new]
        if p is not None:
            pt[p][1] = [new if c == old else c for c in pt[p][1]]
        for c in cs:
            pt[c][0] = new

    nops = rng.choice([1, 1, 2, 2, 3])
    for _ in range(nops):
        kinds = ["rename", "rename", "contract", "contract", "split"]
        if len(pt[root][1]) == 1 and len(pt) >= 2:
            kinds += ["newroot"] * 4
        kind = rng.choice(kinds)
        if kind == "newroot":
            old = root
            c = pt[root][1][0]
            b = rng.choice([1, 2, 3])
            o = pt.pop(old)[2]
            pos = rng.randrange(len(pt[c][2]) + 1)
            pt[c][0] = None
            pt[c][2] = pt[c][2][:pos] + [b] + pt[c][2][pos:]
            root = c
            ops.insert(0, {"op": "newroot", "id": old, "open": o, "bond": b, "root_open_pos": pos})
        elif kind == "rename":
            # prefer nodes with grandchildren / the root
            deep = [x for x in pt if any(pt[c][1] for c in pt[x][1])]
            x = rng.choice(deep) if deep and rng.random() < 0.6 else rng.choice(sorted(pt))
            node = pt.pop(x)
            t = fresh(x)
            pt[t] = node
            replace_in_neighbours(x, t)
            if root == x:
                root = t
            ops.insert(0, {"op": "rename", "new": x, "old": t})
        elif kind == "contract":
            deep = [x for x in pt if any(pt[c][1] for c in pt[x][1])]
            x = rng.choice(deep) if deep and rng.random() < 0.6 else rng.choice(sorted(pt))
            p, cs, o = pt.pop(x)
            a, b2 = fresh(x), None
            pt[a] = None
            b2 = fresh(x)
            j = rng.randrange(len(cs) + 1)
            parent_first = rng.random() < 0.5          # id1 is the parent: children = parent's others + child's
            pc, cc = (cs[:j], cs[j:]) if parent_first else (cs[j:], cs[:j])
            k = rng.randrange(len(o) + 1)
            o1, o2 = o[:k], o[k:]                        # open legs of id1, then of id2
            po, co = (o1, o2) if parent_first else (o2, o1)
            where = rng.randrange(len(pc) + 1)
            pt[a] = [p, pc[:where] + [b2] + pc[where:], po]
            pt[b2] = [a, list(cc), co]
            for c in pc:
                pt[c][0] = a
            for c in cc:
                pt[c][0] = b2
            if p is not None:
                pt[p][1] = [a if c == x else c for c in pt[p][1]]
            if root == x:
                root = a
            ops.insert(0, {"op": "contract", "id1": a if parent_first else b2, "id2": b2 if parent_first else a, "new": x})
        else:       # split: u (upper) and its FIRST child w were one node m
            cand = [x for x in pt if pt[x][1]]
            if not cand:
                continue
            u = rng.choice(sorted(cand))
            w = pt[u][1][0]
            pu, cu, ou = pt.pop(u)
            _pw, cw, ow = pt.pop(w)
            m = fresh(u)
            mch = cu[1:] + cw
            rng.shuffle(mch)
            tags = [("u", k) for k in range(len(ou))] + [("w", k) for k in range(len(ow))]
            rng.shuffle(tags)
            mo = [(ou if t == "u" else ow)[k] for t, k in tags]
            pt[m] = [pu, mch, mo]
            for c in mch:
                pt[c][0] = m
            if pu is not None:
                pt[pu][1] = [m if c == u else c for c in pt[pu][1]]
            if root == u:
                root = m
            ops.insert(0, {"op": "split", "node": m, "upper": u, "lower": w, "upper_is_q": rng.random() < 0.5,
                           "upper_children": cu[1:], "lower_children": list(cw),
                           "upper_open": [tags.index(("u", k)) for k in range(len(ou))],
                           "lower_open": [tags.index(("w", k)) for k in range(len(ow))]})
    return {"start": {k: [v[0], list(v[1]), list(v[2])] for k, v in pt.items()}, "root": root, "ops": ops}


def build_ref_ops(case):
    """[str7-C01] the reference tree of a case with 'treeops': start tree built with add_root / add_child_to_parent (random
    attach order), then the recorded library operations; asserted to be the case's tree afterwards"""
    from pytreenet.core.leg_specification import LegSpecification
    spec = case["treeops"]
    pt, root = spec["start"], spec["root"]
    rng = random.Random(case["seed"] + 17)
    nprs = np.random.RandomState((case["seed"] + 17) % (2 ** 31))
    bond = {x: rng.choice([1, 2]) for x in pt}
    ttn = TTNS()

    def tensor(x):
        p, cs, o = pt[x]
        return util.rand_tensor(nprs, tuple(([bond[x]] if p is not None else []) + [bond[c] for c in cs] + list(o)))
    ttn.add_root(Node(identifier=root), tensor(root))
    nextc = {root: 0}
    while True:
        cand = [p for p, k in nextc.items() if k < len(pt[p][1])]
        if not cand:
            break
        p = rng.choice(cand)
        c = pt[p][1][nextc[p]]
        nextc[p] += 1
        ttn.add_child_to_parent(Node(identifier=c), tensor(c), 0, p, ttn.nodes[p].nneighbours())
        nextc[c] = 0
    for op in spec["ops"]:
        if op["op"] == "newroot":
            r = ttn.root_id
            leg = ttn.nodes[r].nneighbours() + op["root_open_pos"]
            t_ = util.rand_tensor(nprs, tuple([op["bond"]] + list(op["open"])))
            ttn.add_parent_to_root(leg, Node(tensor=t_, identifier=op["id"]), t_, 0)       # (this entry point needs the node linked to its tensor)
        elif op["op"] == "rename":
            ttn.change_node_identifier(op["new"], op["old"])
        elif op["op"] == "contract":
            ttn.contract_nodes(op["id1"], op["id2"], new_identifier=op["new"])
        elif op["op"] == "split":
            node = ttn.nodes[op["node"]]
            nn = node.nneighbours()
            up = LegSpecification(node.parent, list(op["upper_children"]), [nn + k for k in op["upper_open"]], is_root=node.is_root())
            lo = LegSpecification(None, list(op["lower_children"]), [nn + k for k in op["lower_open"]])
            if op["upper_is_q"]:
                ttn.split_node_qr(op["node"], up, lo, q_identifier=op["upper"], r_identifier=op["lower"])
            else:
                ttn.split_node_qr(op["node"], lo, up, q_identifier=op["lower"], r_identifier=op["upper"])
        else:
            raise ValueError("harness: unknown tree operation")
    ch, phys = case["children"], case["phys"]
    par = parents_of(ch)
    assert ttn.root_id == nid(0) and set(ttn.nodes) == {nid(i) for i in range(len(ch))} == set(ttn.tensors), \
        f"harness: tree operations gave nodes {list(ttn.nodes)} root {ttn.root_id}"
    for i in range(len(ch)):
        nd = ttn.nodes[nid(i)]
        assert nd.children == [nid(c) for c in ch[i]] and nd.parent == (nid(par[i]) if par[i] is not None else None), \
            f"harness: tree operations gave {nid(i)}: parent {nd.parent} children {nd.children}, planned {ch[i]}"
        assert nd.open_dimension() == phys[i] and nd.nopen_legs() == 1, "harness: tree operations, open legs"
        assert tuple(ttn.tensors[nid(i)].shape) == tuple(nd.shape), "harness: tree operations, shape"
    return ttn


def parents_before_children(ttn):
    """is every node stored after its parent in ttn.nodes (as in every tree built top-down)?"""
    seen = set()
    for k, nd in ttn.nodes.items():
        if nd.parent is not None and nd.parent not in seen:
            return False
        seen.add(k)
    return True
# [/str7-C01]


# ------------------------------------------------------------------------------------------
# [str5-C01] magnitudes of the rational prefactors; trees with a node of >= 3 neighbours and many terms; process histories
# ------------------------------------------------------------------------------------------
def terms_scale(terms, pre, phys, conv, cm):
    """sum_k |lambda_k gamma_k| * prod_sites max|A_k,site|: the size of the data the reference is computed from (>= the
    largest entry of the reference, also when terms cancel).  Tolerances of the 'relscale' cases are relative to it."""
    tot = 0.0
    for num, den, g, ops in terms:
        m = abs(num / den) * abs(complex(cm[g]))
        for _k, lab in ops:
            if lab in conv:
                m *= float(np.max(np.abs(conv[lab])))
        tot += m
    return tot


def random_magnitude(rng, emax=12):
    """a positive rational spread over many orders of magnitude (10^-emax .. 10^emax) whose numerator and denominator
    are no round numbers: small / large, large / small or large / large"""
    def big(e):
        return rng.randrange(10 ** e, 10 ** (e + 1)) | 1
    small = rng.choice([1, 1, 2, 3, 7, rng.randrange(1, 1000)])
    r = rng.random()
    if r < 0.4:
        return Fraction(small, big(rng.randrange(1, emax + 1)))
    if r < 0.7:
        return Fraction(big(rng.randrange(1, emax + 1)), small)
    return Fraction(big(rng.randrange(3, emax + 1)), big(rng.randrange(3, emax + 1)))


SCALE_MODES = ["gauge", "gauge", "global", "global", "per_term", "awkward", "gauge+global"]


def rescale_terms(rng, terms, mode):
    """the Fraction prefactors of `terms` re-scaled in place, -> symscale ({symbol: [num, den]}, see default_values)
      gauge     every symbol g != "1" gets a rational s_g: prefactors of its terms / s_g, mapped number * s_g: the operator is
                the one of the unscaled case, a tiny (huge) prefactor meets a huge (tiny) mapped number
      global    all prefactors * s: the whole Hamiltonian is tiny / huge (the oracle's tolerance is relative)
      per_term  every term its own factor within about six orders of magnitude around a random base
      awkward   every prefactor * (P/Q) with large P and Q of similar size: values of order one that need large
                numerators and denominators"""
    symscale = {}
    if "gauge" in mode:
        for g in sorted({t[2] for t in terms} - {"1"}):
            s = random_magnitude(rng)
            symscale[g] = [s.numerator, s.denominator]
            for t in terms:
                if t[2] == g:
                    f = Fraction(t[0], t[1]) / s
                    t[0], t[1] = f.numerator, f.denominator
    if "global" in mode:
        s = random_magnitude(rng)
        for t in terms:
            f = Fraction(t[0], t[1]) * s
            t[0], t[1] = f.numerator, f.denominator
    if mode == "per_term":
        base = random_magnitude(rng, 9)
        for t in terms:
            f = Fraction(t[0], t[1]) * base * random_magnitude(rng, 3)
            t[0], t[1] = f.numerator, f.denominator
    if mode == "awkward":
        for t in terms:
            e = rng.randrange(5, 13)
            f = Fraction(t[0], t[1]) * Fraction(rng.randrange(10 ** e, 10 ** (e + 1)) | 1, rng.randrange(10 ** e, 10 ** (e + 1)) | 1)
            t[0], t[1] = f.numerator, f.denominator
    return symscale


def uncompressed_size(g):
    """largest node tensor of the BASE diagram: (number of terms)^(number of neighbours) * d^2"""
    par = parents_of(g["children"])
    return max(len(g["terms"]) ** (len(cs) + (par[i] is not None)) * g["phys"][i] ** 2 for i, cs in enumerate(g["children"]))


def hub_children(rng):
    """an ordered tree with a node of >= 3 neighbours: star / spider (legs of length 1..2) / random tree, the hub at the
    root or (re-rooted at a leaf) an inner node with a parent"""
    shape = rng.choice(["star", "star", "star", "spider", "random"])
    if shape == "random":
        while True:
            ch = random_children(rng, rng.choice([4, 5, 5, 6, 7]))
            par = parents_of(ch)
            if any(len(ch[i]) + (par[i] is not None) >= 3 for i in range(len(ch))):
                return ch
    k = rng.choice([3, 3, 3, 3, 4, 4, 5])
    ch = [list(range(1, k + 1))] + [[] for _ in range(k)]
    if shape == "spider":
        for leaf in range(1, k + 1):
            if rng.random() < 0.35 and len(ch) < 7:
                ch.append([])
                ch[leaf].append(len(ch) - 1)
    rng.shuffle(ch[0])
    if rng.random() < 0.2:
        ch = [[1]] + [[c + 1 for c in cs] for cs in ch]
    return ch


def hub_group(rng, cap, tmax, tmin=5):
    """many pairwise distinct terms (tmin..tmax) around a node with >= 3 neighbours: up to 6 operator labels per site
    (<= d^2 - 1), dense supports; the branching nodes are 'silent' in 65% of the draws (dimension 1, or a physical leg no
    term acts on: layouts with non-physical branching nodes); prefactors unit / Fractions / Fractions times ONE shared
    symbol (so that no recorded finding covers the group for SGE and BIPARTITE)"""
    ch = hub_children(rng)
    n = len(ch)
    par = parents_of(ch)
    phys = [3] * n if rng.random() < 0.5 else [rng.choice([2, 3, 3]) for _ in range(n)]
    silent = set()
    for i in range(n):
        if len(ch[i]) + (par[i] is not None) >= 3 and rng.random() < 0.65:
            phys[i] = rng.choice([1, 1, 2])
            silent.add(i)
    while int(np.prod(phys)) > cap:
        i = max(range(n), key=lambda q: (phys[q], rng.random()))
        phys[i] -= 1
    nlab = rng.choice([2, 3, 6, 6, 6])
    T = rng.choice([t for t in [5, 6, 8, 10, 12, 16, 20, 24, 30, 40, 60] if tmin <= t <= tmax])
    ptouch = rng.choice([0.5, 0.7, 0.9, 1.0])
    coefmode = rng.choice(["unit", "unit", "frac", "onesym"])
    seen, terms, tries = set(), [], 0
    while len(terms) < T and tries < 10 * T:
        tries += 1
        ops = []
        for s_ in range(n):
            d = phys[s_]
            if d > 1 and s_ not in silent and rng.random() < ptouch:
                ops.append([s_, f"A{rng.randrange(min(nlab, d * d - 1))}_{d}"])
        key = tuple(sorted(map(tuple, ops)))
        if not ops or key in seen:
            continue
        seen.add(key)
        rng.shuffle(ops)
        fr = Fraction(1) if coefmode == "unit" else Fraction(rng.choice([1, 2, -1, 3, -2, 5]), rng.choice([1, 1, 2, 3]))
        terms.append([fr.numerator, fr.denominator, "g1" if coefmode == "onesym" else "1", ops])
    if len(terms) < 2:
        return None
    return {"children": ch, "phys": phys, "terms": terms, "nlabels": 6, "coefmode": coefmode, "dupmode": "none", "struct": "hub",
            "labelset": "std", "seed": rng.randrange(10 ** 6)}


# process histories: a case with "proc": "fresh" is executed as the first thing a pristine process does (after the earlier
# constructions named in its optional "proc_history").  One zygote process per slot imports the library and this module and
# constructs nothing; every such case runs in a child forked from it, so the module-level state of the library at the
# start of the case is exactly the state after `import pytreenet` (what a user script that builds one operator sees), and
# a replay of the case alone reproduces the run.  (Same scheme as props/c12.py; observations come back pickled.)
_ZYG_BOOT = r"""
import sys, os, json
sys.path[:0] = json.loads(os.environ["C01_ZYG_PATH"])
import warnings; warnings.filterwarnings("ignore")
import lib
lib.setup_repo_import()
import pytreenet  # noqa
from props import c01
c01.zygote_loop()
"""
_ZYG = {}
ZYG_SLOTS = 6
ZYG_TIMEOUT = 300


def zygote_loop():
    """runs in the zygote: one JSON case per line on stdin -> fork -> the child sends the pickled observation"""
    import base64
    import json
    import os
    import pickle
    import select
    import signal
    import sys
    import time
    out = sys.stdout
    for line in sys.stdin:
        line = line.strip()
        if not line:
            continue
        r, w = os.pipe()
        pid = os.fork()
        if pid == 0:
            os.close(r)
            try:
                try:
                    ob = C01()._impl_core(json.loads(line))
                except Exception as e:  # noqa
                    ob = {"harness_error": f"{type(e).__name__}: {e}", "tb": traceback.format_exc()[-1500:]}
                data = pickle.dumps(ob)
            except BaseException as e:  # noqa
                data = pickle.dumps({"harness_error": f"child: {type(e).__name__}: {e}"})
            with os.fdopen(w, "wb") as f:
                f.write(data)
            os._exit(0)
        os.close(w)
        chunks = []
        t0 = time.time()
        while True:
            left = ZYG_TIMEOUT - (time.time() - t0)
            if left <= 0 or not select.select([r], [], [], left)[0]:
                os.kill(pid, signal.SIGKILL)
                chunks = [pickle.dumps({"harness_error": f"fresh-process case exceeded {ZYG_TIMEOUT} s"})]
                break
            b = os.read(r, 1 << 16)
            if not b:
                break
            chunks.append(b)
        os.close(r)
        os.waitpid(pid, 0)
        data = b"".join(chunks) or pickle.dumps({"harness_error": "fresh-process child died without an observation"})
        out.write(base64.b64encode(data).decode() + "\n")
        out.flush()


def _zygote(slot=0):
    import atexit
    import json
    import os
    import subprocess
    import sys
    import lib
    p = _ZYG.get(slot)
    if p is not None and p.poll() is None:
        return p
    here = os.path.dirname(os.path.dirname(os.path.abspath(__file__)))
    env = dict(os.environ, C01_ZYG_PATH=json.dumps([here]), PYTHONHASHSEED="0", PYTHONDONTWRITEBYTECODE="1", OMP_NUM_THREADS="1",
               OPENBLAS_NUM_THREADS="1", MKL_NUM_THREADS="1")
    env[lib.GUARD] = "1"
    p = subprocess.Popen([sys.executable, "-W", "ignore", "-c", _ZYG_BOOT], stdin=subprocess.PIPE, stdout=subprocess.PIPE,
                         stderr=subprocess.DEVNULL, env=env, text=True, bufsize=1)
    _ZYG[slot] = p

    def _stop():
        try:
            p.stdin.close()
            p.wait(timeout=5)
        except Exception:  # noqa
            p.kill()
    atexit.register(_stop)
    return p


def zygote_run(case, slot=0):
    import base64
    import json
    import pickle
    import lib
    try:
        p = _zygote(slot)
        p.stdin.write(json.dumps(lib.jsonable(case)) + "\n")
        p.stdin.flush()
        line = p.stdout.readline()
        if not line:
            raise RuntimeError("zygote process ended")
        return pickle.loads(base64.b64decode(line.strip()))
    except Exception as e:  # noqa
        _ZYG.pop(slot, None)
        return {"harness_error": f"fresh-process runner: {type(e).__name__}: {e}"}


def random_diagram(rng, ch, phys, nlabels=3):
    """a random well-indexed state diagram on the tree: per edge 1..3 vertices, per node 1..4 hyperedges, each
    sitting on one random vertex of every incident edge.  hes: [node, label, num, den, symbol, [vertex index per
    incident edge in neighbour order], shuffle seed for the order of HyperEdge.vertices]"""
    n = len(ch)
    par = parents_of(ch)
    nv = {c: rng.choice([1, 1, 2, 2, 3]) for c in range(1, n)}
    hes = []
    for v in range(n):
        inc = ([v] if par[v] is not None else []) + list(ch[v])
        for _ in range(rng.choice([1, 2, 2, 3, 4])):
            lab = f"A{rng.randrange(nlabels)}_{phys[v]}" if rng.random() < 0.85 else f"I{phys[v]}"
            fr = Fraction(rng.choice([1, 1, 2, -1, 3, -2]), rng.choice([1, 1, 2, 3]))
            hes.append([v, lab, fr.numerator, fr.denominator, rng.choice(["1", "1", "g1", "g2"]),
                        [rng.randrange(nv[e]) for e in inc], rng.randrange(10 ** 6)])
    return {"nv": {str(k): v for k, v in nv.items()}, "hes": hes}


def build_injected(case, ttns):
    """the live StateDiagram of an 'inject' case, built with the public constructors"""
    from pytreenet.ttno.state_diagram import StateDiagram
    from pytreenet.ttno.hyperedge import HyperEdge
    from pytreenet.ttno.vertex import Vertex
    from pytreenet.ttno.collections import HyperEdgeColl, VertexColl
    ch = case["children"]
    par = parents_of(ch)
    sdg = StateDiagram(ttns)
    verts = {}
    for c in preorder(ch)[1:]:
        key = (nid(par[c]), nid(c))
        verts[c] = [Vertex(key, []) for _ in range(case["diagram"]["nv"][str(c)])]
        sdg.vertex_colls[key] = VertexColl(key, verts[c])
    for v in preorder(ch):
        sdg.hyperedge_colls[nid(v)] = HyperEdgeColl(nid(v), [])
    for v, lab, num, den, gam, idx, sh in case["diagram"]["hes"]:
        inc = ([v] if par[v] is not None else []) + list(ch[v])
        vs = [verts[e][k] for e, k in zip(inc, idx)]
        random.Random(sh).shuffle(vs)           # HyperEdge.vertices in an arbitrary order
        h = HyperEdge(nid(v), lab, [], Fraction(num, den), gam)
        h.add_vertices(vs)
        sdg.add_hyperedge(h)
    return sdg


def coq_poly_py(sp):
    """python polynomial {(symbols, labels): Fraction} in the shape Coq prints sd_poly"""
    out = []
    for (syms, labels), q in sp.items():
        out.append(((q.numerator, q.denominator), (sorted(sym_code(g) for g in syms), [label_code(x) for x in labels])))
    return sorted(out, key=lambda a: (a[1][1], a[1][0]))


class C01(Prop):
    id = "C01"
    title = "Hamiltonian-to-TTNO conversion is exact"
    design_ref = "DESIGN.md section 5 / C01"
    rule = ("a (tree, Hamiltonian) group = random rooted tree of 1..7 nodes (random child order, dims in {1,2,3} incl. dimension-1 nodes, "
            "random attach order; all ordered shapes <= 5 nodes in thorough), 1..8 terms with supports of any size, shared labels, explicit "
            "identities, ~5% of the groups with one prefactor 0 and ~1% with only zero prefactors, coefficient mode unit/frac/sym/symshared, duplicate mode none/dup/prop/mixed, 35% with expanded products of local sums "
            "(low-rank coefficient matrices: the Gaussian elimination does real row/column operations), 25% start from a random SYMBOLIC "
            "coefficient matrix across one edge (entries rational x g1..g4 / rational / 0, one term per entry, shared/split/free symbol columns, rows "
            "proportional outside the first column: abandoned row additions next to accepted compressions), 20% use operator names with ambiguous "
            "concatenations (n, nn, nnn, x, xx) incl. label-exchanged term pairs on a node and its leaf child; every group is run with all four "
            "TTNOFinder methods (one case per method) plus random well-indexed diagrams injected into TTNO.from_state_diagram and a malformed "
            "stream (term on an unknown site). Further groups (same generators, trees of 1..6 nodes, again all four methods) vary what the text leaves "
            "to the caller: 'repr' groups store the numbers of the coefficient mapping (incl. the symbol '1') as Python complex/float/int, numpy scalars or "
            "0-d arrays (np.asarray, np.array, squeeze, reshape, real, integer, a view into a parameter vector, read-only) and the arrays of the operator table "
            "as complex / float64 / int64, C / Fortran / strided / stacked-view / transposed / read-only; 'hist' groups convert a Hamiltonian OBJECT that has "
            "been used before: built from the first terms, then converted (any method; same tree object, a deep copy, another tree on the same identifiers), padded, "
            "to_matrix'ed, a symbol re-mapped (new object or in place in a 0-d array), extended by add_term / add_multiple_terms / add_hamiltonian (shared or "
            "fresh equal dictionaries) / ham + ham / ham + tensor product / ham.terms.extend until it holds the case's terms, then converted with the case's "
            "method (tie + certificate on this last conversion); every conversion on the way is judged by the oracle against the terms and symbol values "
            "of that moment (where no recorded finding covers that (terms, method) pair); the dense references use the harness's own pristine copies of table "
            "and symbol values. 'scale' groups (generic generators, all four methods, tie + certificate as everywhere): the Fraction prefactors are re-scaled over "
            "10^-12 .. 10^12 with numerators / denominators that are no round numbers - 'gauge': prefactors of a symbol's terms / s and the number the symbol is "
            "mapped to * s (same operator, tiny prefactor times huge mapped number and vice versa), 'global': the whole Hamiltonian tiny / huge, 'per_term': "
            "every term its own magnitude within ~6 orders, 'awkward': values of order one with 6..13-digit numerators and denominators; for these cases the "
            "oracle's tolerance is 1e-9 * sum_k |c_k| prod max|A_k| (relative to the size of the reference's data, no floor of 1) and the tie's tolerances are "
            "relative per tensor. 'process' groups: every case runs in a process forked from a zygote that imported the library and constructed nothing, i.e. "
            "as the FIRST construction of a pristine process (what a user script does) or after 1..3 earlier constructions of that process (any method; judged "
            "too) - 'hub' groups (star / spider / random tree with a node of 3..6 neighbours, hub at the root or an inner node, 5..12 (thorough ..40) pairwise "
            "distinct terms with dense supports, up to 6 labels per site, branching nodes of dimension 1 / untouched in 65%, prefactors unit / Fraction / Fraction "
            "times one shared symbol; TREE and BASE where the uncompressed hub tensor fits), 'first' / 'after' groups of the generic generators, all tied and "
            "certified like the other cases; 'scan' groups = hub groups with 10..40 (..60) terms, methods SGE and BIPARTITE, judged by the property oracle ONLY "
            "(no export, no model evaluation, no certificate: counted in evaluations, not in traces_validated_against_impl). [str7-C01] 'edit' groups (generic generators, all four methods, tie + certificate on the last conversion, oracle on every one): a history as in "
            "the 'hist' groups in which 1..3 TERM OBJECTS of the live Hamiltonian start as an earlier version and are changed in place by the caller between uses - a factor "
            "replaced, added on a new site or removed through every mutating route a UserDict offers (tp[k]=v, update (dict / keywords), |= dict, |= TensorProduct, "
            "setdefault, del, pop, popitem, and tp.data[k]=v / .data.update / .data |= / del .data[k] / .data.pop), or the tuple in ham.terms replaced (new prefactor, same "
            "tensor product object), or (error path, 'fix') the earlier version acts on a site that is no node: every conversion until the caller removes that factor must be "
            "REJECTED and the object must convert exactly afterwards; 85% of the edits directly follow a use of the object for the tree object of the final conversion (convert / pad / to_matrix), "
            "in 40-50% of the pad steps the caller also overwrites and empties the padded Hamiltonian he got back; 'treeops' groups (>= 2 nodes): the reference tree is the "
            "RESULT of 1..3 library operations on a tree built top-down - add_parent_to_root, change_node_identifier (root / inner nodes with grandchildren / leaves; temporary "
            "names extending or extended by other identifiers or re-using identifiers of nodes that no longer exist), contract_nodes (either operand first, new identifier), "
            "split_node_qr (upper half = Q or R, child legs named in any order), also contract-then-split on the same nodes - generated backwards from the case's tree, so the "
            "case format (children, dims, identifiers n<i>) and the tie are unchanged while the tree's nodes dictionary is in general not ordered parents-first; the harness "
            "asserts that the library produced exactly the case's tree before converting. non-trivial = >= 2 nodes and >= 2 terms; "
            "distinct by case content")
    clauses = [
        ("F", "sd_check_sound / sd_refute_sound: sd_check t H d = true -> the diagram's denotation and sum_k lambda_k gamma_k (x) labels_k have equal "
              "coefficients on every key; sd_refute = true -> they differ on an exhibited key (C01_sd_check_sound, C01_sd_refute_sound), for every tree/diagram/term list"),
        ("F", "the denotation is the sum over consistent selections: sd_denote = map weight (sels ...) where sels enumerates exactly the choices of one hyperedge "
              "per node that agree on the vertex of every edge and weight = prod(lambda)*prod(gamma) (x) labels (C01_denote_is_selection_sum, C01_selections_spec); "
              "it is computed as the leaf-to-root contraction of the tensors from_state_diagram fills"),
        ("F", "single_term_exact: for every tree with distinct identifiers the single-term diagram (one vertex per edge, one hyperedge per node, coefficient "
              "on the root hyperedge) denotes exactly that term (C01_single_term_exact)"),
        ("F", "sum_states_adds / base_exact: the concatenation of diagrams with disjoint vertices denotes the sum; the BASE construction is exact for every "
              "tree and every term list, duplicates and proportional terms included (C01_sum_states_adds, C01_base_exact, C01_base_exact_listwise)"),
        ("F", "padding_identity / padding_rejects: the padded term has the term's own label on its sites and the identity label of the node's dimension elsewhere; "
              "padding fails exactly when a term touches a site that is no node (C01_padding_identity, C01_padding_rejects)"),
        ("F", "algebraic core of the compressing pipelines (SD/Core.v): equality of coefficient functions is a congruence for the polynomial product "
              "(C01_pmul_congruence); combine_subtrees: identifying two vertices of one edge whose child-side sub-diagrams denote the same polynomial "
              "(redirect the parent-side hyperedges, erase the second sub-diagram) preserves sd_denote for every tree and diagram, and keeps a certified "
              "diagram certified (C01_merge_redirect_sound, C01_merge_equal_subtrees_sound under the privacy precondition erase_subtree relies on, "
              "C01_merge_keeps_exact); cut_and_optimise/_reconnect_hyperedges: over any commutative ring, Gamma = L*Gamma_u*R and a vertex cover of the "
              "support of Gamma_u => sum_ij u_i Gamma_ij v_j = sum over the new row-/column-cover vertices, every covered entry used exactly once, rows first "
              "(C01_cut_regroup_sound, C01_cover_assignment_unique), composed with C13 for the triple gaussian_elimination returns (C01_cut_regroup_sge). "
              "These are theorems about the model operations; for SGE and TREE the pipeline driver is not modelled, so their exactness stays per "
              "instance (clause I); for BIPARTITE see the next clauses"),
        # [ext-C01D]
        ("F", "pipeline model, one cut (SD/Pipeline.v cut_step = cut_and_optimise with SGE == False: V classes by v_hash incl. the re-hash branch, Gamma with "
              "overwriting assignments, bipartite graph of the non-zero entries, the verified minimum_vertex_cover of C14's model, _reconnect_hyperedges rows first "
              "with a copy for every second use of a hyperedge): for every tree, every tree edge and every input diagram satisfying the decidable precondition "
              "cut_pre (one vertex per leg on the hyperedges of the two nodes; unit coefficients on the child node's hyperedges - the code ignores and overwrites "
              "them; no two hyperedges of one V class on the same vertex of the cut edge - otherwise the second assignment to Gamma overwrites the first: "
              "C01-duplicate-terms), the step preserves sd_denote (C01_cut_step_sound).  Proved directly on the modelled operation through the two-level normal form of "
              "the value at the edge and a regrouping lemma over the cover (cover_split); cut_regroup_sound itself is over a commutative ring with Leibniz equality and "
              "is not instantiable on the label-ordered polynomials"),
        ("F", "pipeline model, THE DRIVER: for every tree with distinct identifiers and every term list with pairwise distinct operator strings (labels on the "
              "tree; coefficients lambda*gamma arbitrary, symbolic or numeric), from_hamiltonian_bipartite t H = Some d => sd_denote d = ham_denote H "
              "(C01_bipartite_exact).  Proved by the invariant of the BFS run (SD/PipelineInv.v): base-shaped sub-diagrams below the frontier, typed vertex names, "
              "origin labels / subtree hash / alive child vertices of every frontier hyperedge, pairwise different hyperedges at the node whose child edges are cut, "
              "fresh names and hash-table extension; every merge of combine_subtrees satisfies the hypotheses of merge_equal_subtrees_sound and every cut satisfies "
              "cut_pre, so C01_cut_step_sound applies at every edge.  Not covered universally: two terms with the SAME string and different coefficients (re-hash "
              "branch; next clause); that the model returns Some is the NEXT clause (C01_bipartite_accepts).  Terms with prefactor 0 are included: code (repo commit 2e422fd) and model drop them before the compound diagram is built and "
              "fall back to the BASE diagram of the full list when none remains; ham_denote is unchanged up to peq (ham_denote_live)"),
        # [ext-C01A]
        ("F", "pipeline model, ACCEPTANCE of the driver: for every tree with distinct identifiers and every NON-EMPTY term list with pairwise distinct operator "
              "strings (any coefficients, zero prefactors included; no further side condition: a padded term labels every node) from_hamiltonian_bipartite t H = "
              "Some d (C01_bipartite_accepts), hence accepted AND exact (C01_bipartite_total); the empty term list is rejected (C01_bipartite_empty_rejected).  None of "
              "the model's failure branches is reachable: _generate_non_redundant_V_dict never re-hashes (no empty bucket for _remove_reduntant_v_hyperedges), both "
              "sides of every cut edge carry a hyperedge (BipartiteGraph asserts), minimum_vertex_cover neither runs out of fuel nor fails its size assert "
              "(C14_mvc_main), and after _reconnect_hyperedges every hyperedge of the two nodes has a vertex on the cut edge (Gamma has no empty row / column: "
              "all coefficients are != 0 once prefactor-0 terms are dropped, every child hyperedge hangs on a vertex used by a parent hyperedge, the cover touches "
              "every edge).  Proved (SD/PipelineAccept.v) by extending the invariant of the BFS run by the part XF per frontier node, preserved by every merge and "
              "every cut; one cut under the invariant: C01_cut_step_accepts.  Not covered universally: acceptance for term lists that repeat an operator string "
              "(there the re-hash branch can leave an empty bucket: known finding C12-sge-symbolic-crash for SGE; BIPARTITE per instance by the tie)"),
        # [/ext-C01A]
        ("F", "pipeline model, checked form: sd_denote is preserved by a combine_subtrees call whose merges satisfy the decidable form of the hypotheses of "
              "merge_equal_subtrees_sound (C01_combine_step_sound), and from_hamiltonian_bipartite t H = Some d with pipeline_ok t H = true (the step preconditions "
              "evaluated before every step of the run) implies sd_denote d = ham_denote H for every tree and term list "
              "(C01_pipeline_exact_checked_partial: partial w.r.t. term lists that repeat a string with different coefficients, where pipeline_ok is only "
              "evaluated per instance)"),
        ("I", "BIPARTITE, per explored instance without exactly repeated terms (incl. repeated strings with different coefficients): pipeline_ok holds (every cut_pre / "
              "merge precondition of the model's run, by vm_compute) and the model's final diagram passes sd_check; with C01_pipeline_exact_checked_partial and the exact "
              "tie below this is a second, independent kernel-checked proof of exactness of that instance"),
        ("V", "BIPARTITE driver tie (props/c01d.py): a recorder wrapped at run time around get_state_diagram_compound / combine_subtrees / cut_and_optimise exports the "
              "diagram after EVERY driver call; the model's pipeline_trace equals it call by call in the canonical form used for BASE (per node the ordered list of "
              "(label, lambda, gamma, bond indices), per edge the number of vertices), compared inside Coq, exact; the model's states satisfy sd_wf; the call sequence is "
              "the BFS order; where the implementation raises (IndexError of _remove_reduntant_v_hyperedges) or leaves a hyperedge without vertex on the cut edge the "
              "model returns None at that call"),
        # [/ext-C01D]
        # [ext-C01T]
        ("F", "TREE model (SD/TreeCmp.v: from_hamiltonian_tree_comparison = from_single_term + add_single_term per further term, i.e. the leaf walks of "
              "_mark_contained_vertices / _find_and_mark_new_vertex / _find_new_he and _add_hyperedges_rec / _find_vertices_connecting_to_he with the marker fields "
              "contained / new / _already_checked, the dict order of reference_tree.nodes as a parameter, the code's coefficient handling): a one-term Hamiltonian "
              "gives the single-term diagram and it denotes the term (C01_tree_single_exact); for every tree, node order and term list, tree_ok (after every "
              "add_single_term of the model's run the state is sd_wf and denotes old + added term; decidable) implies that the returned diagram is well-formed and "
              "denotes the Hamiltonian, by induction over the term list (C01_tree_exact_checked_partial: partial, tree_ok is a hypothesis evaluated per instance; the "
              "universal soundness of the marking walk for unit coefficients is NOT proved); C01_tree_coeff_refuted: the recorded finding C01-tree-coefficients as "
              "a theorem about the literal model (1*A + 2*B on one node; 1*XYZ + 3*XWZ on a 3-node star: the model's diagram is sd_wf and does not denote H); "
              "BOUNDED (C01_tree_exact_unit_bounded, SD/TreeCmpBounded.v): for every rooted ordered tree with <= 4 nodes, every parents-first iteration order of the "
              "node dict and every non-empty list of pairwise different operator strings over two labels per site with unit coefficients (<= 4 terms on <= 3 nodes, "
              "<= 3 terms on 4 nodes, every term order; 59 784 model runs by vm_compute, lifted with forallb_forall) the model returns a well-formed diagram that denotes H"),
        ("I", "TREE, per explored instance outside the two recorded findings (unit coefficients, no exactly repeated term): tree_ok holds by vm_compute and the "
              "model's final diagram passes sd_check; with C01_tree_exact_checked_partial and the exact tie below a second kernel-checked proof of exactness of that instance"),
        ("V", "TREE tie (props/c01t.py): a recorder wrapped at run time around StateDiagram.from_single_term / add_single_term exports the diagram after EVERY call; the "
              "model's tree_trace equals it call by call - canonical form used for BASE (per node the ordered (label, lambda, gamma, bond indices), vertices per edge), "
              "the ordered Vertex.hyperedges lists as (node, position), the number of marker fields left set - compared inside Coq, exact; the model's states satisfy "
              "sd_wf; the instances of the recorded findings (non-unit coefficients, repeated terms) are tied too: the literal model builds the same wrong diagram"),
        # [/ext-C01T]
        ("F", "structure_preserved: the model of TTNO.from_state_diagram/_rec_zero_ttno (obtain_tensor_shape, add_child_to_parent with its checks and leg moves) "
              "succeeds on every well-formed diagram whose labels are in the operator table and yields exactly the tree's identifiers in pre-order, parents, "
              "children in order, legs (parent, children..., out, in), bond dimension = number of vertices of the edge, physical dimension = table entry of the "
              "node's first label (C01_structure_preserved); tied per instance: ttno_shape of the exported diagram == nodes/tensor shapes of the real TTNO, exact"),
        ("I", "for every explored (tree, Hamiltonian, method) the diagram built by the implementation (all four methods), exported through its public "
              "attributes, satisfies sd_wf and sd_check by vm_compute => kernel-checked exactness of that diagram; instances of the recorded findings are "
              "refuted by sd_refute (C01_refuted_duplicate_terms, C01_refuted_tree_coefficients are two of them, stated as theorems)"),
        ("V", "tensor filling: every TTNO node tensor equals, entry by entry and leg by leg, the tensor filled independently from the exported diagram - for the "
              "diagrams of all four methods and for random well-indexed diagrams injected into TTNO.from_state_diagram; on the injected diagrams the model's "
              "normal form equals an independent flat enumeration of the selections exactly; the dense contraction (einsum) equals the selection sum evaluated "
              "with the operator table (1e-9)"),
        ("V", "BASE: the model's own construction equals the implementation's diagram up to renaming of uuids (per node ordered (label, lambda, gamma, bond indices), vertices per edge); "
              "padding: model labels == implementation's padded dictionary on every node; an unknown site is rejected by both"),
        ("V", "oracle: sum_k lambda_k*gamma_k*kron(A_k) in site order vs the dense TTNO and vs as_matrix(); identifiers, parent/child relations, child order; physical dimensions; "
              "the reference is computed from the case's term list and the harness's own copies of the operator table and the symbol values (plain complex numbers, "
              "never handed to the library), so it does not move when the library writes into the caller's objects; applied to the conversion of the case and to every "
              "earlier conversion of the same Hamiltonian object in a history (terms and symbol values of that moment), for every representation of the caller's numbers; "
              "[str5-C01] for badly scaled prefactors / mapped numbers with a tolerance relative to the size of the reference's data (1e-9 * sum_k |c_k| prod max|A_k|); "
              "for first constructions of a pristine process and constructions after earlier ones in the same process (forked from a zygote that constructed nothing), "
              "incl. many-term Hamiltonians around nodes with >= 3 neighbours (part of them oracle-only, see rule); "
              "[str7-C01] for Hamiltonians whose term objects were edited in place between conversions (the reference follows the harness's own record of the edits) and "
              "for reference trees produced by add_parent_to_root / change_node_identifier / contract_nodes / split_node_qr"),
    ]
    trusted_base = ["the export of StateDiagram objects (python identity -> names; vertices sorted by the neighbour they point to, as HyperEdge.find_tensor_position does)",
                    "labels/symbols enter the model as opaque naturals: linear independence of distinct operator strings is not needed for soundness (equal polynomials => equal operators)",
                    "numpy einsum / kron for the dense references (tolerance 1e-9 relative to the operator norm scale)",
                    "process histories: os.fork from a helper process that imported pytreenet and the harness modules and constructed nothing stands for a freshly "
                    "started interpreter; observations of these cases come back pickled",
                    # [ext-C01D]
                    "pipeline model: sha256 is modelled by what is hashed (subtree hash = labels of the subtree in pre-order, v_hash = label + vertices outside the cut edge + "
                    "re-hash tag): collision-freeness of sha256 and fixed-length uuid/digest strings are assumed; uuids are modelled as fresh names; the run-time recorder "
                    "(monkeypatched wrappers, /repo untouched) and the canonical form of the exported intermediate diagrams; gaussian_elimination, which the BIPARTITE path "
                    "also calls and whose result it discards, is not part of the pipeline model",
                    # [/ext-C01D]
                    # [ext-C01T]
                    "TREE model: uuids are modelled as fresh names (term number, node / child end of the edge); the iteration order of the dict reference_tree.nodes is "
                    "read off the object handed to the implementation; the run-time recorder around from_single_term / add_single_term (/repo untouched)",
                    # [/ext-C01T]
                    ]
    assumptions = ["node identifiers of the reference tree are distinct (TreeStructure guarantees it)",
                   "at least one term; every label of the Hamiltonian and 'I<d>' for every untouched node's dimension is in the conversion dictionary"]

    def __init__(self):
        self._inst = (0, 0, [])

    # ------------------------------------------------------------------------------ generation
    def _groups(self, ctx, stream, budget_scale):
        rng = ctx.rng(stream)
        rz = ctx.rng(stream + ":zero")        # [ext-C01D] separate stream for the zero prefactors (the other draws stay as they were) [/ext-C01D]
        groups = []
        cap = ctx.scale(150, 300)
        ngroups = ctx.scale(200, 2000) * budget_scale
        shapes = []
        if ctx.thorough() and stream == "main":
            for n in range(1, 6):
                shapes += [children_from_parents(p) for p in util.all_parents(n)]
        fixed = [[[]], [[1], []], [[1, 2], [], []], [[1], [2], []]]
        for g in range(ngroups):
            if g < len(fixed) and stream == "main":
                ch = [list(c) for c in fixed[g]]
            elif shapes:
                ch = shapes.pop()
                perm_rng = rng.random()
                if perm_rng < 0.5:
                    for cs in ch:
                        rng.shuffle(cs)
            else:
                n = rng.choice([1, 2, 2, 3, 3, 4, 4, 5, 5, 6, 7])
                ch = random_children(rng, n)
            n = len(ch)
            phys = random_phys(rng, n, cap)
            coefmode = rng.choice(["unit", "frac", "sym", "sym", "symshared"])
            dupmode = rng.choice(["none", "none", "none", "dup", "prop", "mixed"])
            nterms = rng.choice([1, 1, 2, 2, 3, 3, 4, 5, 6, 7, 8])
            nlabels = rng.choice([1, 2, 3])
            product = rng.random() < 0.35
            amb = rng.random() < 0.2          # operator names with ambiguous concatenations on the dimension-2 sites
            if amb:
                phys = [min(d, AMB_DIM) for d in phys]
            gamma = n >= 2 and rng.random() < 0.3      # a random symbolic coefficient matrix across one edge
            if gamma:
                coefmode, dupmode = "sym", rng.choice(["none", "none", "none", "prop"])
                product = rng.random() < 0.5
            terms = random_terms(rng, phys, nterms, coefmode, dupmode, nlabels, product=product, amb=(ch if amb else None),
                                 gamma_on=(ch if gamma else None))
            # [ext-C01D] zero prefactors (repo commit 2e422fd: SGE/BIPARTITE drop such terms, BASE fallback when none remains):
            # ~5% of the groups get one term with prefactor 0 (numeric or with its symbol), ~1% only zero prefactors
            z = rz.random()
            if terms and z < 0.01:
                for tm in terms:
                    tm[0], tm[1] = 0, 1
            elif terms and z < 0.06:
                tm = terms[rz.randrange(len(terms))]
                tm[0], tm[1] = 0, 1
            # [/ext-C01D]
            struct = ("gamma+product" if product else "gamma") if gamma else ("product" if product else "random")
            groups.append({"children": ch, "phys": phys, "terms": terms, "nlabels": 3, "coefmode": coefmode, "dupmode": dupmode,
                           "struct": struct, "labelset": "amb" if amb else "std", "seed": rng.randrange(10 ** 6)})
        return groups

    def _config_groups(self, ctx, stream, budget_scale):
        """[str-C01] groups that vary what the property text leaves to the caller besides (tree, terms, method): how the
        numbers of the coefficient mapping and the arrays of the operator table are stored ('repr' groups), and what was
        done before with the Hamiltonian object that is converted ('hist' groups, half of them with representations too)"""
        rng = ctx.rng(stream + ":config")
        cap = ctx.scale(100, 200)
        plan = ["repr"] * (ctx.scale(14, 200) * budget_scale) + ["hist"] * (ctx.scale(34, 400) * budget_scale)
        groups = []
        for what in plan:
            n = rng.choice([1, 2, 2, 3, 3, 4, 4, 5, 6])
            ch = random_children(rng, n)
            phys = random_phys(rng, n, cap)
            coefmode = rng.choice(["unit", "frac", "sym", "sym", "symshared", "symshared"])
            dupmode = rng.choice(["none", "none", "none", "none", "prop", "dup"])
            nterms = rng.choice([1, 2, 3, 3, 4, 4, 5, 6, 7, 8])
            product = rng.random() < 0.25
            amb = rng.random() < 0.1
            if amb:
                phys = [min(d, AMB_DIM) for d in phys]
            gamma = n >= 2 and rng.random() < 0.15
            if gamma:
                coefmode, dupmode = "sym", "none"
            terms = random_terms(rng, phys, nterms, coefmode, dupmode, rng.choice([1, 2, 3]), product=product,
                                 amb=(ch if amb else None), gamma_on=(ch if gamma else None))
            if not terms:
                continue
            g = {"children": ch, "phys": phys, "terms": terms, "nlabels": 3, "coefmode": coefmode, "dupmode": dupmode,
                 "struct": ("gamma" if gamma else ("product" if product else "random")), "labelset": "amb" if amb else "std",
                 "seed": rng.randrange(10 ** 6), "family": what}
            if what == "repr" or rng.random() < 0.5:
                r = rng.random()
                if r < 0.8:
                    g["coefrepr"] = random_coefrepr(rng)
                if r > 0.5:
                    g["tabrepr"] = random_tabrepr(rng, table_labels(phys, 3, amb))
            if what == "hist":
                g["history"] = random_history(rng, ch, phys, terms, g.get("coefrepr"), cap)
            groups.append(g)
        return groups

    @staticmethod
    def _plain_group(rng, cap, coefmodes=("unit", "frac", "sym", "sym", "symshared", "onesym"), dupmodes=("none", "none", "none", "prop")):
        """[str5-C01] one (tree, Hamiltonian) of the generic generators: tree of 1..6 nodes, 1..8 terms, no exactly repeated terms;
        coefficient mode 'onesym' = Fraction prefactors times ONE symbol shared by all terms"""
        for _ in range(20):
            n = rng.choice([1, 2, 2, 3, 3, 4, 4, 5, 6])
            ch = random_children(rng, n)
            phys = random_phys(rng, n, cap)
            coefmode = rng.choice(list(coefmodes))
            dupmode = rng.choice(list(dupmodes))
            product = rng.random() < 0.3
            gamma = n >= 2 and coefmode == "sym" and rng.random() < 0.3
            terms = random_terms(rng, phys, rng.choice([1, 2, 3, 3, 4, 4, 5, 6, 7, 8]), "symshared" if coefmode == "onesym" else coefmode,
                                 "none" if gamma else dupmode, rng.choice([1, 2, 3]), product=product, gamma_on=(ch if gamma else None))
            if not terms:
                continue
            if coefmode == "onesym":
                for t in terms:
                    t[2] = "g1"
            return {"children": ch, "phys": phys, "terms": terms, "nlabels": 3, "coefmode": coefmode, "dupmode": dupmode,
                    "struct": ("gamma" if gamma else ("product" if product else "random")), "labelset": "std", "seed": rng.randrange(10 ** 6)}
        return None

    def _scale_groups(self, ctx, stream, budget_scale):
        """[str5-C01] the text quantifies over ALL Fraction prefactors and over symbols mapped to ARBITRARY complex numbers:
        groups of the generic generators whose prefactors are re-scaled (rescale_terms) over many orders of magnitude, with
        numerators / denominators that are no round numbers; the oracle's tolerance for these cases is relative to the size
        of the reference's data (terms_scale), without the floor of 1"""
        rng = ctx.rng(stream + ":scale")
        cap = ctx.scale(100, 200)
        groups = []
        for _ in range(ctx.scale(26, 500) * budget_scale):
            g = self._plain_group(rng, cap, coefmodes=("frac", "frac", "sym", "symshared", "onesym", "onesym"))
            if g is None:
                continue
            mode = rng.choice(SCALE_MODES)
            if "gauge" in mode and not ({t[2] for t in g["terms"]} - {"1"}):
                mode = "global"
            g["symscale"] = rescale_terms(rng, g["terms"], mode)
            g.update(family="scale", scalemode=mode, relscale=True)
            groups.append(g)
        return groups

    def _process_groups(self, ctx, stream, budget_scale):
        """[str5-C01] the property holds for every construction, whatever the process did before; what every user script
        does is the FIRST construction of a process.  'proc': 'fresh' cases run in a process forked from a pristine zygote:
          hub    hub_group (node with >= 3 neighbours, many terms, silent branching nodes) as the first construction
          scan   the same with more terms, compressing methods (SGE, BIPARTITE) only, judged by the property oracle only
                 ('notie': no diagram export, no model evaluation, no certificate) - many cheap first constructions
          first  a group of the generic generators as the first construction
          after  a hub / generic group after 1..3 earlier constructions (any method, own trees and Hamiltonians or the same
                 tree and Hamiltonian with another method) in the same process; the earlier constructions are judged too"""
        rng = ctx.rng(stream + ":process")
        cap = ctx.scale(100, 200)
        plan = ["hub"] * (ctx.scale(14, 300) * budget_scale) + ["first"] * (ctx.scale(8, 150) * budget_scale) + \
               ["after"] * (ctx.scale(8, 150) * budget_scale) + ["scan"] * (ctx.scale(130, 2000) * budget_scale)
        groups = []
        for what in plan:
            if what == "scan":
                g = hub_group(rng, cap, ctx.scale(40, 60), tmin=10)
            elif what == "hub" or (what == "after" and rng.random() < 0.5):
                g = hub_group(rng, cap, ctx.scale(12, 40))
            else:
                g = self._plain_group(rng, cap)
            if g is None:
                continue
            g.update(family="process", proc="fresh", prockind=what)
            if what == "scan":
                g["notie"] = True
            if what == "after":
                hist = []
                for _ in range(rng.choice([1, 1, 2, 3])):
                    if rng.random() < 0.3:
                        h = {k: g[k] for k in ("children", "phys", "terms", "nlabels", "seed", "labelset")}
                    else:
                        h = None
                        while h is None:
                            h = hub_group(rng, cap, 16) if rng.random() < 0.4 else self._plain_group(rng, cap)
                        h = {k: h[k] for k in ("children", "phys", "terms", "nlabels", "seed", "labelset")}
                    hist.append(dict(h, kind="ham", method=rng.choice(["SGE", "BIPARTITE", "BIPARTITE", "TREE", "BASE"])))
                g["proc_history"] = hist
            groups.append(g)
        return groups

    def _str7_groups(self, ctx, stream, budget_scale):
        """[str7-C01] 'edit' groups: one Hamiltonian object whose TERM objects the caller changes in place between uses (every
        mutating route of a UserDict, see random_edits) on top of a history of random_history; 'treeops' groups: the reference
        tree is the result of add_parent_to_root / change_node_identifier / contract_nodes / split_node_qr (random_treeops),
        i.e. a valid tree whose nodes dictionary is in general NOT ordered parents-first.  Same case format as everywhere:
        tie and certificate on the conversion of the case, the property oracle on every conversion"""
        rng = ctx.rng(stream + ":str7")
        cap = ctx.scale(100, 200)
        plan = ["edit"] * (ctx.scale(18, 300) * budget_scale) + ["treeops"] * (ctx.scale(16, 300) * budget_scale)
        groups = []
        for what in plan:
            g = None
            for _ in range(30):
                g = self._plain_group(rng, cap)
                if g is not None and (what == "edit" or len(g["children"]) >= 2):
                    break
                g = None
            if g is None:
                continue
            if what == "edit":
                g["history"] = random_edits(rng, g["phys"], g["terms"], random_history(rng, g["children"], g["phys"], g["terms"], None, cap))
            else:
                g["treeops"] = random_treeops(rng, g["children"], g["phys"])
            g["family"] = what
            groups.append(g)
        return groups

    def generate(self, ctx, stream, budget_scale=1):
        cases = []
        for gi, g in enumerate(self._groups(ctx, stream, budget_scale)):
            for m in METHODS:
                c = dict(g)
                c.update(kind="ham", method=m, group=gi)
                cases.append(c)
        # [str-C01] same case format (the tie and the per-instance certificate apply to the conversion the case is about)
        for gi, g in enumerate(self._config_groups(ctx, stream, budget_scale)):
            for m in METHODS:
                c = dict(g)
                c.update(kind="ham", method=m, group=10000 + gi)
                cases.append(c)
        # [str5-C01] magnitudes of the prefactors / mapped numbers; process histories (same case format again)
        for gi, g in enumerate(self._scale_groups(ctx, stream, budget_scale)):
            for m in METHODS:
                c = dict(g)
                c.update(kind="ham", method=m, group=20000 + gi)
                cases.append(c)
        for gi, g in enumerate(self._process_groups(ctx, stream, budget_scale)):
            for m in METHODS:
                if m in ("TREE", "BASE") and (g.get("notie") or uncompressed_size(g) > 20000):
                    continue       # the uncompressed hub tensor (one bond index per term on every leg) would not fit
                c = dict(g)
                c.update(kind="ham", method=m, group=30000 + gi)
                cases.append(c)
        # [str7-C01] term objects edited in place between conversions; reference trees produced by library operations
        for gi, g in enumerate(self._str7_groups(ctx, stream, budget_scale)):
            for m in METHODS:
                c = dict(g)
                c.update(kind="ham", method=m, group=40000 + gi)
                cases.append(c)
        rng = ctx.rng(stream + ":inject")
        for k in range(ctx.scale(60, 600) * budget_scale):
            ch = random_children(rng, rng.choice([1, 2, 3, 3, 4, 4, 5, 6]))
            phys = random_phys(rng, len(ch), 100)
            cases.append({"kind": "inject", "method": "-", "children": ch, "phys": phys, "terms": [], "nlabels": 3, "coefmode": "sym",
                          "dupmode": "none", "diagram": random_diagram(rng, ch, phys), "seed": rng.randrange(10 ** 6), "group": -3})
        rng = ctx.rng(stream + ":malformed")
        for k in range(ctx.scale(3, 10)):
            n = rng.choice([1, 2, 3])
            ch = random_children(rng, n)
            phys = [2] * n
            terms = random_terms(rng, phys, 2, "unit", "none", 2)
            terms[rng.randrange(len(terms))][3].append([f"x{rng.randrange(3)}", "A0_2"])
            cases.append({"kind": "malformed", "method": METHODS[k % 4], "children": ch, "phys": phys, "terms": terms, "nlabels": 3,
                          "coefmode": "unit", "dupmode": "none", "seed": rng.randrange(10 ** 6), "group": -1})
        return cases

    def nontrivial(self, case):
        return case["kind"] == "ham" and len(case["children"]) >= 2 and len(case["terms"]) >= 2

    def distribution(self, cases):
        c = Counter()
        for x in cases:
            c["kind:" + x["kind"]] += 1
            if x["method"] != "SGE":
                continue
            c[f"nodes:{len(x['children'])}"] += 1
            c[f"terms:{len(x['terms'])}"] += 1
            c["coef:" + x.get("coefmode", "?")] += 1
            c["dup:" + x.get("dupmode", "?")] += 1
            c["struct:" + x.get("struct", "random")] += 1
            c["labels:" + x.get("labelset", "std")] += 1
            f = case_features(x) if x["kind"] == "ham" else {}
            c["exact_duplicates"] += bool(f.get("exact_dup"))
            c["same_string_not_dup"] += bool(f.get("same_string") and not f.get("exact_dup"))
            c["has_dim1_node"] += 1 in x["phys"]
            c["zero_prefactor"] += any(t[0] == 0 for t in x["terms"])
            c["all_prefactors_zero"] += bool(x["terms"]) and all(t[0] == 0 for t in x["terms"])
            c["max_support:" + str(max(len(t[3]) for t in x["terms"]))] += 1
            # [str-C01] configurations of the caller's objects and histories (counted once per group, as above)
            if x.get("coefrepr"):
                c["config:coefrepr"] += 1
                for g in {t[2] for t in x["terms"]} | {"1"}:
                    c["coefkind:" + x["coefrepr"].get(g, "py_complex")] += 1
            if x.get("tabrepr"):
                c["config:tabrepr"] += 1
                for k in set(x["tabrepr"].values()):
                    c["tabkind:" + k] += 1
            if x.get("history"):
                c["history:groups"] += 1
                st = x["history"]["steps"]
                c["history:steps:" + str(min(len(st), 6)) + ("+" if len(st) >= 6 else "")] += 1
                for s_ in st:
                    c["history:" + s_["op"] + (":" + s_["how"] if s_["op"] == "extend" else (":" + s_["tree"] if s_["op"] == "convert" else ""))] += 1
                ext = [i for i, s_ in enumerate(st) if s_["op"] == "extend"]
                c["history:use_extend_use"] += bool(ext and any(s_["op"] in ("convert", "pad", "to_matrix") for s_ in st[:ext[-1]]))
                c["history:repeat_only"] += not ext
            # [str7-C01] in-place edits of term objects; reference trees made by library operations (per group)
            for s_ in (x.get("history") or {}).get("steps", []):
                if s_["op"] == "edit":
                    c["edit:" + s_["kind"] + "/" + s_["route"]] += 1
                if s_["op"] == "pad" and s_.get("scribble"):
                    c["edit:caller edits the padded Hamiltonian he got back"] += 1
            if x.get("treeops"):
                c["treeops:groups"] += 1
                c["treeops:sequence:" + "+".join(o["op"] for o in x["treeops"]["ops"])] += 1
            # [str5-C01] prefactor magnitudes, process histories, hubs (per group)
            if x.get("family") == "scale":
                c["scale:" + x["scalemode"]] += 1
                mags = [abs(Fraction(t[0], t[1])) for t in x["terms"] if t[0]]
                for t in x["terms"]:
                    c["scale:denominator>10^6"] += t[1] > 10 ** 6
                    c["scale:|prefactor|<10^-6"] += 0 < abs(Fraction(t[0], t[1])) < Fraction(1, 10 ** 6)
                    c["scale:|prefactor|>10^6"] += abs(Fraction(t[0], t[1])) > 10 ** 6
                if mags:
                    import math
                    c["scale:log10_max_prefactor:%+03d" % (3 * round(math.log10(float(max(mags))) / 3))] += 1
            if x.get("proc") == "fresh":
                c["process:" + ("pristine, first construction" if not x.get("proc_history") else "pristine, after earlier constructions")] += 1
                c["process:" + x.get("prockind", "?")] += 1
                for h in x.get("proc_history") or []:
                    c["process:earlier:" + h["method"]] += 1
            par = parents_of(x["children"])
            deg = max(len(cs) + (par[i] is not None) for i, cs in enumerate(x["children"]))
            c["max_neighbours:" + str(deg)] += 1
            if x.get("struct") == "hub":
                c["hub:silent_branching_node"] += any(len(cs) + (par[i] is not None) >= 3 and
                                                      not any(int(k) == i for t in x["terms"] for k, _ in t[3] if not str(k).startswith("x"))
                                                      for i, cs in enumerate(x["children"]))
                c["hub:terms:" + ("5-10" if len(x["terms"]) <= 10 else "11-20" if len(x["terms"]) <= 20 else "21+")] += 1
        return dict(c)

    # ------------------------------------------------------------------------------ implementation
    # [str-C01] one conversion judged against the reference of the property text
    @staticmethod
    def _measure(ttno, ch, phys, ref, scale=None):
        """what the oracle needs to know about one TTNO: identifiers / relations / tensor shapes as the TTNO reports them and
        the deviation of its dense contraction (own einsum) from the reference matrix.  scale: what the tolerance is
        relative to (default: the largest entry of the reference, at least 1; [str5-C01] 'relscale' cases pass terms_scale)"""
        ids = [nid(i) for i in preorder(ch)]
        rec = {"structure": {k: [ttno.nodes[k].parent, list(ttno.nodes[k].children)] for k in ttno.nodes},
               "root": ttno.root_id,
               "shapes": {k: list(ttno.tensors[k].shape) for k in ttno.nodes},
               "scale": max(1.0, float(np.max(np.abs(ref)))) if scale is None else float(scale)}
        try:
            dense = dense_ttno(ttno, ids)
            rec["oracle_dev"] = float(np.max(np.abs(dense - ref))) if dense.shape == ref.shape else f"shape {dense.shape} vs {ref.shape}"
        except Exception as e:  # noqa
            dense = None
            rec["oracle_dev"] = f"dense contraction failed: {type(e).__name__}: {e}"
        return rec, dense

    def _run_history(self, case, ham, ttns, pconv, pcm):
        """[str-C01] performs the steps of case['history'] on the live Hamiltonian `ham` and the live tree `ttns`; every
        conversion on the way is measured against the reference of the terms the object holds at that moment with the
        symbol values of that moment (pcm, plain numbers kept by the harness, updated by the remap steps).  Returns the log."""
        import copy
        h = case["history"]
        k = h["init"]
        log = []
        for si, st in enumerate(h["steps"]):
            op = st["op"]
            if op == "extend":
                chunk = case["terms"][k:k + st["n"]]
                if "orig" in h:        # [str7-C01] terms enter in their recorded earlier version
                    chunk = history_terms(case, si + 1)[k:k + st["n"]]
                assert len(chunk) == st["n"], "harness: history consumes more terms than the case has"
                k += st["n"]
                how = st["how"]
                unit = [t[0] == t[1] == 1 and t[2] == "1" for t in chunk]
                if how in ("add_hamiltonian", "plus_ham"):
                    if st.get("shared_dicts"):
                        other = Hamiltonian([make_term(t) for t in chunk], ham.conversion_dictionary, ham.coeffs_mapping)
                    else:
                        other = build_ham(case, terms=chunk, values=pcm)
                    if how == "plus_ham":
                        res = ham + other
                        assert res is ham, "harness: Hamiltonian.__add__ is documented to extend in place"
                    else:
                        ham.add_hamiltonian(other)
                elif how == "add_multiple_terms":
                    if all(unit) and st.get("bare"):
                        ham.add_multiple_terms([make_term(t)[2] for t in chunk])
                    else:
                        ham.add_multiple_terms([make_term(t) for t in chunk])
                elif how == "terms_extend":
                    ham.terms.extend([make_term(t) for t in chunk])
                else:       # add_term / plus_tp, term by term
                    for t, u in zip(chunk, unit):
                        term = make_term(t)
                        if how == "plus_tp" and u:
                            res = ham + term[2]
                            assert res is ham, "harness: Hamiltonian.__add__ is documented to extend in place"
                        elif u and st.get("bare"):
                            ham.add_term(term[2])
                        else:
                            ham.add_term(term)
                log.append({"op": "extend", "step": si, "how": how, "nterms": k})
                continue
            if op == "edit":        # [str7-C01] a term object of the live Hamiltonian is changed in place
                apply_edit(ham, st)
                log.append({"op": "edit", "step": si, "how": f"{st['kind']}/{st['route']}(term {st['term']})"})
                continue
            if op == "remap":
                v = complex(st["re"], st["im"])
                pcm[st["sym"]] = v
                kind = (case.get("coefrepr") or {}).get(st["sym"])
                if st.get("inplace") and isinstance(ham.coeffs_mapping[st["sym"]], np.ndarray) and ham.coeffs_mapping[st["sym"]].flags.writeable:
                    ham.coeffs_mapping[st["sym"]][...] = v if kind not in COEF_REAL else v.real
                else:
                    ham.coeffs_mapping[st["sym"]] = coef_object(kind, v)
                log.append({"op": "remap", "step": si})
                continue
            tree = ttns if st.get("tree", "same") == "same" else (copy.deepcopy(ttns) if st["tree"] == "copy" else None)
            sub = {k_: v_ for k_, v_ in case.items() if k_ != "history"}
            sub["terms"] = case["terms"][:k]
            if "orig" in h:        # [str7-C01] the terms as the edits so far left them
                sub["terms"] = history_terms(case, si)
            if tree is None:
                sub.update(children=st["other"]["children"], phys=st["other"]["phys"], seed=st["other"]["seed"])
                tree = build_ref(sub)
            if op in ("pad", "to_matrix"):        # not judged here (other properties); they are earlier uses of the object
                rec = {"op": op, "step": si}
                try:
                    if op == "pad":
                        padded_ = ham.pad_with_identities(tree, symbolic=bool(st.get("symbolic", True)))
                        if st.get("scribble"):        # [str7-C01] the caller edits the object that was returned to him
                            for _f, _g, tp_ in padded_.terms:
                                for key_ in list(tp_.keys()):
                                    tp_[key_] = "scribbled"
                                tp_.data.clear()
                            padded_.terms.clear()
                    else:
                        ham.to_matrix(tree)
                except Exception as e:  # noqa
                    rec["error"] = f"{type(e).__name__}: {e}"
                log.append(rec)
                continue
            m = case["method"] if st["method"] == "final" else st["method"]
            sub["method"] = m
            if any(str(k_).startswith("x") for t_ in sub["terms"] for k_, _l in t_[3]):
                # [str7-C01] error path: a term acts on a site that is no node - the conversion must be rejected, the object stays usable
                rec = {"op": "convert", "step": si, "method": m, "nterms": k, "tree": st.get("tree", "same"), "reject_expected": True, "judged": True}
                try:
                    TTNO.from_hamiltonian(ham, tree, finder(m))
                except Exception as e:  # noqa
                    rec["rejected"] = f"{type(e).__name__}: {e}"[:200]
                log.append(rec)
                continue
            rec = {"op": "convert", "step": si, "method": m, "nterms": k, "tree": st.get("tree", "same"),
                   "children": sub["children"], "phys": sub["phys"], "judged": self._class_of(sub) is None}
            try:
                ttno = TTNO.from_hamiltonian(ham, tree, finder(m))
                ref = dense_terms(sub["terms"], preorder(sub["children"]), sub["phys"], pconv, pcm)
                rec.update(self._measure(ttno, sub["children"], sub["phys"], ref)[0])
            except Exception as e:  # noqa
                site = traceback.extract_tb(e.__traceback__)[-1].name
                rec["exception"] = f"{type(e).__name__}: {e} [in {site}]"
            log.append(rec)
        assert k == len(case["terms"]), "harness: the history does not end with all terms of the case"
        if "orig" in h:        # [str7-C01]
            assert history_terms(case) == [term_at(case, i, t) for i, t in enumerate(case["terms"])], "harness: the edits do not end at the case's terms"
            for (fr_, g_, tp_), t in zip(ham.terms, case["terms"]):
                assert (Fraction(fr_), g_, dict(tp_)) == (term_frac(t), t[2], dict(make_term(t)[2])), "harness: the live term objects differ from the case's terms"
        return log

    def _impl_one(self, case):
        if case.get("proc") == "fresh":
            # [str5-C01] the case names its whole process history: run it in a process forked from a zygote that has
            # imported the library and constructed nothing (module-level state exactly as after `import pytreenet`)
            return zygote_run(case)
        return self._impl_core(case)

    def _run_earlier(self, h):
        """[str5-C01] one earlier construction of the process (entry of case['proc_history']), measured like a conversion
        of a history; judged by the oracle where no recorded finding covers its (terms, method) pair"""
        rec = {"method": h["method"], "children": h["children"], "phys": h["phys"], "nterms": len(h["terms"]),
               "judged": self._class_of(h) is None}
        try:
            pr = build_ham(h, pristine=True)
            ttno = TTNO.from_hamiltonian(build_ham(h), build_ref(h), finder(h["method"]))
            ref = dense_terms(h["terms"], preorder(h["children"]), h["phys"], pr.conversion_dictionary, pr.coeffs_mapping)
            rec.update(self._measure(ttno, h["children"], h["phys"], ref)[0])
        except Exception as e:  # noqa
            site = traceback.extract_tb(e.__traceback__)[-1].name
            rec["exception"] = f"{type(e).__name__}: {e} [in {site}]"
        return rec

    def _impl_core(self, case):
        ob = {"method": case["method"]}
        if case.get("proc_history"):
            ob["proc_history"] = [self._run_earlier(h) for h in case["proc_history"]]
        ttns = build_ref_ops(case) if case.get("treeops") else build_ref(case)      # [str7-C01] tree produced by library operations
        if case.get("treeops"):
            ob["tree_topdown"] = parents_before_children(ttns)
        # the harness's own copy of the numbers (fresh complex arrays, plain Python numbers): never handed to the library
        pristine = build_ham(case, pristine=True)
        pconv, pcm = pristine.conversion_dictionary, pristine.coeffs_mapping
        hist = case.get("history") if case["kind"] == "ham" else None
        ham = build_ham(case, terms=((history_terms(case, 0) if "orig" in hist else case["terms"][:hist["init"]]) if hist else None))   # [str7-C01] earlier versions
        ch = case["children"]
        pre = preorder(ch)
        ids = [nid(i) for i in pre]
        dims = {nid(i): case["phys"][i] for i in range(len(ch))}
        captured = {}
        if hist:
            ob["history"] = self._run_history(case, ham, ttns, pconv, pcm)
        given = {g: ham.coeffs_mapping.get(g) for g in pcm}        # the caller's objects at the moment of the conversion
        try:
            if case["kind"] == "inject":
                captured["sd"] = build_injected(case, ttns)
                ttno = TTNO.from_state_diagram(captured["sd"], ham.conversion_dictionary, ham.coeffs_mapping)
            else:
                # [ext-C01D] BIPARTITE: record the diagram after every combine_subtrees / cut_and_optimise call
                with spy_state_diagram(captured), c01d.recorder(case, ob), c01s.recorder(case, ob), c01t.recorder(case, ob):      # [ext-C01S] SGE recorder [/ext-C01S] [ext-C01T] TREE: diagram after every add_single_term [/ext-C01T]
                    ttno = TTNO.from_hamiltonian(ham, ttns, finder(case["method"]))
                # [/ext-C01D]
        except Exception as e:  # noqa
            site = traceback.extract_tb(e.__traceback__)[-1].name
            ob["exception"] = f"{type(e).__name__}: {e} [in {site}]"
            ob["tb"] = traceback.format_exc()[-1200:]
            ttno = None
        if "ham" in captured:
            ob["padded"] = [[str(fr), g, {k: v for k, v in tp.items()}] for fr, g, tp in captured["ham"].terms]
        if case["kind"] == "malformed" or ttno is None:
            return ob
        conv, cm = pconv, pcm
        # ---- structure; oracle: dense reference from the ORIGINAL (unpadded) terms of the case
        ref = dense_terms(case["terms"], pre, case["phys"], conv, cm)
        rel = bool(case.get("relscale"))        # [str5-C01] tolerances relative to the size of the reference's data, no floor
        rec, dense = self._measure(ttno, ch, case["phys"], ref, terms_scale(case["terms"], pre, case["phys"], conv, cm) if rel else None)
        ob.update(rec)
        ob["bond_dims"] = {f"{p}|{c}": int(d) for (p, c), d in ttno.bond_dims().items()}
        try:
            if case["kind"] == "inject":
                raise StopIteration
            M, order = ttno.as_matrix()
            perm = [ids.index(o) for o in order]
            shp = [dims[i] for i in ids]
            R = ref.reshape(shp + shp).transpose(perm + [p + len(ids) for p in perm]).reshape(M.shape)
            ob["as_matrix_dev"] = float(np.max(np.abs(M - R)))
        except StopIteration:
            pass
        except Exception as e:  # noqa
            ob["as_matrix_dev"] = f"as_matrix failed: {type(e).__name__}: {e}"
        if case.get("notie"):          # [str5-C01] judged by the property oracle only
            return ob
        # diagnostics: objects of the caller the library wrote into (reported together with a wrong operator only)
        touched = []
        for g, obj in given.items():
            try:
                if obj is not None and complex(obj) != complex(cm[g]):
                    touched.append(f"coefficient object of {g!r} holds {complex(obj)}, the caller stored {complex(cm[g])}")
            except Exception as e:  # noqa
                touched.append(f"coefficient object of {g!r} unreadable: {type(e).__name__}")
        for lab, a in conv.items():
            b = ham.conversion_dictionary.get(lab)
            if b is not None and (np.shape(b) != a.shape or not np.array_equal(np.asarray(b), a)):
                touched.append(f"table entry {lab!r} differs from what the caller stored")
        if touched:
            ob["caller_objects_changed"] = touched[:4]
        # ---- the diagram and the tensor filling
        if "sd" not in captured:
            ob["sd"] = {"hes": [], "vxs": [], "malformed": "TTNO.from_hamiltonian did not call StateDiagram.from_hamiltonian"}
            return ob
        ex = export_sd(captured["sd"], case)
        ob["sd"] = ex
        # ---- ttno_shape tie (C01_structure_preserved) BEGIN: dimension of the conversion-dictionary entry of every label
        ob["label_dims"] = {lab: int(conv[lab].shape[0]) for lab in sorted({h[2] for h in ex["hes"]}) if lab in conv}
        # ---- ttno_shape tie END
        if ex["malformed"]:
            return ob
        pos, _cnt = export_positions(ex, case)
        if any(pos[vid] != idx for vid, _c, _hs, idx in ex["vxs"]):
            ob["sd"]["malformed"] = "Vertex.index differs from the position in its collection"
            return ob
        try:
            mine = fill_from_export(ex, case, conv, cm)
            dev = 0.0
            for v in range(len(ch)):
                t = ttno.tensors[nid(v)]
                if tuple(t.shape) != tuple(mine[v].shape):
                    dev = f"node {nid(v)}: tensor shape {tuple(t.shape)}, diagram gives {tuple(mine[v].shape)}"
                    break
                d_v = float(np.max(np.abs(t - mine[v]))) if t.size else 0.0
                if rel and d_v:       # relative to the largest entry of this tensor (the tie then compares with TOL itself)
                    d_v /= float(np.max(np.abs(mine[v]))) or 1.0
                dev = max(dev, d_v)
            ob["fill_dev"] = dev
        except Exception as e:  # noqa
            ob["fill_dev"] = f"independent filling failed: {type(e).__name__}: {e}"
        sp = selection_poly(ex, case)
        if case["kind"] == "inject":
            ob["poly"] = coq_poly_py(sp)
            ob["n_selections"] = len(sp)
            if dense is not None:
                ob["sel_dev"] = float(np.max(np.abs(eval_poly(sp, case, conv, cm) - dense)))
                ob["scale"] = max(1.0, float(np.max(np.abs(dense))))
            return ob
        hp = ham_poly(case)
        ob["py_exact"] = (sp == hp)
        ob["n_selections"] = len(sp)
        if sp != hp:        # diagnostics used only to attribute a violation to a recorded finding
            ob["mult_lost"] = multiplicity_lost(sp, case)
            raw = {tuple(s_[i] for i in pre) for s_ in padded_strings(case)}
            have = {k[1] for k in sp}
            ob["support_ok"] = ({k[1] for k in hp} <= have <= raw)
            ob["strings_sub"] = (have <= raw)
        if dense is not None:
            ob["sel_dev"] = float(np.max(np.abs(eval_poly(sp, case, conv, cm) - dense)))
            if rel:
                ob["sel_scale"] = poly_scale(sp, conv, cm)
        return ob

    def impl(self, ctx, cases):
        out = [None] * len(cases)
        fresh = [k for k, c in enumerate(cases) if c.get("proc") == "fresh"]
        if len(fresh) > 1:
            # [str5-C01] every such case runs in its own pristine process, so they can run side by side (one zygote per slot)
            import queue
            from concurrent.futures import ThreadPoolExecutor
            slots = queue.Queue()
            for s_ in range(ZYG_SLOTS):
                slots.put(s_)

            def run(k):
                s_ = slots.get()
                try:
                    return k, zygote_run(cases[k], s_)
                finally:
                    slots.put(s_)
            with ThreadPoolExecutor(ZYG_SLOTS) as ex:
                for k, ob in ex.map(run, fresh):
                    out[k] = ob
        for k, c in enumerate(cases):
            if out[k] is not None:
                continue
            try:
                out[k] = self._impl_one(c)
            except Exception as e:  # noqa  (harness-side failure: surfaces as a broken tie)
                out[k] = {"method": c.get("method"), "harness_error": f"{type(e).__name__}: {e}", "tb": traceback.format_exc()[-1500:]}
        return out

    # ------------------------------------------------------------------------------ model
    def model(self, ctx, cases, obs):
        exprs = []
        tied = [k for k, c in enumerate(cases) if not c.get("notie")]        # [str5-C01] 'notie' cases: property oracle only
        if len(tied) < len(cases):
            sub = self.model(ctx, [cases[k] for k in tied], [obs[k] for k in tied])
            vals = [None] * len(cases)
            for k, v in zip(tied, sub):
                vals[k] = v
            return vals
        for c, ob in zip(cases, obs):
            ex = ob.get("sd") if isinstance(ob, dict) else None
            have = bool(ex) and not ex.get("malformed")
            d = coq_sd(ex) if have else "sd_empty"
            # ---- ttno_shape tie BEGIN: the model's TTNO skeleton (SD/Core.v ttno_shape) for the exported diagram
            tbl = coq_list(sorted((label_code(k), v) for k, v in (ob.get("label_dims") or {}).items()) if have else [],
                           lambda kv: f"({kv[0]}, {kv[1]})")
            shp = f"ttno_shape (pd_of {tbl}) t d"
            # ---- ttno_shape tie END
            if c["kind"] == "inject":
                exprs.append(f"(let t := {coq_tree(c)} in let d := {d} in (sd_wf t d, sd_poly t d, {shp}))")
                continue
            base = "Some (sd_canon t (sd_base t H))" if c["method"] == "BASE" else "(@None canon)"
            exprs.append(
                f"(let t := {coq_tree(c)} in let d := {d} in "
                f"match pad_ham idlab_std {coq_dims(c)} t {coq_uterms(c)} with "
                f"| Some H => (true, map (fun tm => map (snd tm) (ids t)) H, sd_wf t d, sd_check t H d, sd_diff t H d, {base}, sd_refute t H d, {shp}) "
                f"| None => (false, [], false, false, None, @None canon, false, {shp}) end)")
        vals = c01d.eval_spread(ctx, IMPORTS, exprs, shard=40, scope="nat_scope")      # [str5-C01] expensive blocks spread over the shards
        c01d.run_model(ctx, cases, obs)      # [ext-C01D] model trace vs recorded steps, stored in the observations [/ext-C01D]
        c01t.run_model(ctx, cases, obs)      # [ext-C01T] TREE model trace vs recorded add_single_term calls [/ext-C01T]
        c01s.run_model(ctx, cases, obs)      # [ext-C01S] the same for method SGE (SD/PipelineSGE.v) [/ext-C01S]
        # per-instance obligations: the exported diagram is well-formed and certified exact
        known = {k["id"] for k in load_known() if k.get("property") == self.id and k.get("status") == "known"}
        n = ok = 0
        fails = []
        for c, ob, v in zip(cases, obs, vals):
            if c["kind"] != "ham" or not isinstance(ob, dict) or not ob.get("sd") or ob["sd"].get("malformed"):
                continue
            if isinstance(v, BaseException):
                n += 1
                fails.append(f"instance not evaluated: {v}")
                continue
            if v[2] and v[3]:
                n += 1
                ok += 1
            elif self._known_instance(c, ob) in known:
                continue        # refuted instance of a recorded finding: not an obligation
            else:
                n += 1
                fails.append(f"sd_wf={v[2]} sd_check={v[3]} differing key {v[4]} for method {c['method']} case {c}")
        # [ext-C01D] per instance: the step-theorem preconditions hold before every step of the model's BIPARTITE run
        # (pipeline_checks) and the model's final diagram is certified: hypothesis of C01_pipeline_exact_checked_partial
        for c, ob in zip(cases, obs):
            if isinstance(ob, dict) and self._class_of(c) != KF_DUP:
                cnt, good, msg = c01d.instance_obligation(c, ob)
                n += int(cnt)
                ok += int(good)
                if msg:
                    fails.append(msg)
        # [/ext-C01D]
        # [ext-C01S] per instance: pipeline_sge_checks before every step of the model's SGE run and the final diagram certified
        # (hypothesis of C01_pipeline_sge_exact_checked_partial); instances of a recorded finding are not obligations
        for c, ob in zip(cases, obs):
            if isinstance(ob, dict) and self._class_of(c) != KF_DUP:
                cnt, good, msg = c01s.instance_obligation(c, ob, known_refuted=self._known_instance(c, ob) in known)
                n += int(cnt)
                ok += int(good)
                if msg:
                    fails.append(msg)
        # [/ext-C01S]
        # [ext-C01T] per instance: every add_single_term of the model's TREE run adds exactly its term (tree_checks), the final
        # diagram is certified: hypothesis of C01_tree_exact_checked_partial (not for the instances of the two known findings)
        for c, ob in zip(cases, obs):
            if isinstance(ob, dict) and self._class_of(c) is None:
                cnt, good, msg = c01t.instance_obligation(c, ob)
                n += int(cnt)
                ok += int(good)
                if msg:
                    fails.append(msg)
        # [/ext-C01T]
        self._inst = (n, ok, fails[:3])
        return vals

    def extra_obligations(self, ctx):
        return self._inst

    # ------------------------------------------------------------------------------ tie
    def compare(self, case, ob, mo):
        if "harness_error" in ob:
            return f"harness error: {ob['harness_error']}"
        if case["kind"] == "inject":
            if "exception" in ob:
                return f"from_state_diagram raised {ob['exception']} on a well-indexed diagram"
            if ob["sd"]["malformed"]:
                return f"harness: injected diagram exported as malformed: {ob['sd']['malformed']}"
            wf, poly, shape = mo
            if not wf:
                return "sd_wf fails on an injected well-indexed diagram"
            msg = self._shape_tie(ob, shape)
            if msg:
                return msg
            # Coq prints ((n, d), (syms, labels)) as the left-nested tuple (n, d, (syms, labels))
            mine = sorted([((a[0], a[1]), (list(a[2][0]), list(a[2][1]))) for a in poly], key=lambda a: (a[1][1], a[1][0]))
            if mine != ob["poly"]:
                return f"denotation of the injected diagram: model {mine} flat selection sum {ob['poly']}"
            tol = TOL * ob.get("scale", 1.0)
            if isinstance(ob.get("fill_dev"), str) or ob.get("fill_dev", 1) > tol:
                return f"tensor filling differs from the injected diagram: {ob.get('fill_dev')}"
            if ob.get("sel_dev", 1) > tol * max(1, ob["n_selections"]):
                return f"contraction of the filled TTNO differs from the diagram's selection sum by {ob.get('sel_dev')}"
            return None
        padok, padded, wf, chk, diff, base, refuted, shape = mo
        if case["kind"] == "malformed":
            if padok:
                return "model pads a term on an unknown site"
            if not ob.get("exception", "").startswith("NotCompatibleException"):
                return f"implementation did not reject the unknown site: {ob.get('exception')}"
            return None
        if not padok:
            return "model rejects the Hamiltonian"
        if "padded" in ob:
            pre = preorder(case["children"])
            for k, (row, (fr, g, tp)) in enumerate(zip(padded, ob["padded"])):
                mine = [tp.get(nid(i)) for i in pre]
                if [label_code(x) if x is not None else None for x in mine] != row or set(tp) != {nid(i) for i in pre}:
                    return f"padding of term {k}: implementation {tp}, model labels {row} (pre-order {pre})"
                t = case["terms"][k]
                if Fraction(fr) != term_frac(t) or g != t[2]:
                    return f"padding changed the coefficient of term {k}"
            if len(padded) != len(ob["padded"]):
                return "padding changed the number of terms"
        # [ext-C01D] BIPARTITE: the model's run equals the implementation's after every driver call
        msg = c01d.compare(case, ob)
        if msg:
            return msg
        # [/ext-C01D]
        # [ext-C01S] SGE: the model's run (SD/PipelineSGE.v) equals the implementation's after every driver call
        msg = c01s.compare(case, ob)
        if msg:
            return msg
        # [/ext-C01S]
        # [ext-C01T] TREE: the model's run equals the implementation's after from_single_term and every add_single_term
        msg = c01t.compare(case, ob)
        if msg:
            return msg
        # [/ext-C01T]
        if "exception" in ob:
            if case["method"] == "BASE":
                return f"implementation raised {ob['exception']} where the model builds the BASE diagram"
            return None       # reported by the oracle; no diagram to certify
        ex = ob["sd"]
        if ex["malformed"]:
            return f"exported diagram is not a state diagram of the tree: {ex['malformed']}"
        if not wf:
            return "sd_wf fails on the exported diagram (vertex/hyperedge cross references inconsistent)"
        msg = self._shape_tie(ob, shape)
        if msg:
            return msg
        if chk != ob["py_exact"]:
            return f"sd_check = {chk} but the flat selection sum computed in Python says exact = {ob['py_exact']}"
        if refuted == chk:
            return f"sd_check = {chk} and sd_refute = {refuted}: the checker and the refuter must answer oppositely"
        tol = TOL * ob["scale"]
        if case.get("relscale"):       # [str5-C01] fill_dev is relative per tensor; the selection sum relative to its own data
            if isinstance(ob.get("fill_dev"), str) or ob.get("fill_dev", 1) > TOL:
                return f"tensor filling differs from the diagram (relative to the largest entry of the tensor): {ob.get('fill_dev')}"
            if "sel_dev" in ob and ob["sel_dev"] > TOL * max(ob["scale"], ob.get("sel_scale", 0.0)) * max(1, ob["n_selections"]):
                return f"contraction of the TTNO differs from the diagram's selection sum by {ob['sel_dev']} (data size {ob.get('sel_scale')})"
        elif isinstance(ob.get("fill_dev"), str) or ob.get("fill_dev", 1) > tol:
            return f"tensor filling differs from the diagram: {ob.get('fill_dev')}"
        elif "sel_dev" in ob and ob["sel_dev"] > tol * max(1, ob["n_selections"]):
            return f"contraction of the TTNO differs from the diagram's selection sum by {ob['sel_dev']}"
        if case["method"] == "BASE":
            mc = unsome(base)
            ic = self._impl_canon(case, ex)
            if mc != ic:
                return f"BASE diagram differs from the model's construction: model {mc} implementation {ic}"
        return None

    # ---- ttno_shape tie (C01_structure_preserved) BEGIN
    @staticmethod
    def _shape_tie(ob, shape):
        """exact: the model's skeleton (creation order, identifier, parent, ordered children, tensor shape) of the
        exported diagram == nodes / tensors of the TTNO the implementation built"""
        nodes = unsome(shape)
        if shape is None or nodes is None:
            return "ttno_shape = None: the model's from_state_diagram fails on a diagram the implementation accepted"
        mine = [[nid(v), (nid(unsome(p)) if p is not None else None), [nid(c) for c in cs], list(sh)] for v, p, cs, sh in nodes]
        impl = [[k, ob["structure"][k][0], list(ob["structure"][k][1]), list(ob["shapes"][k])] for k in ob["structure"]]
        if mine != impl:
            return f"TTNO skeleton: model ttno_shape gives {mine}, implementation has {impl}"
        return None
    # ---- ttno_shape tie END

    @staticmethod
    def _impl_canon(case, ex):
        pos, cnt = export_positions(ex, case)
        pre = preorder(case["children"])
        per_node = []
        for v in pre:       # tuples shaped as Coq prints them: (label, lambda, gamma, bond indices)
            per_node.append((v, [(label_code(lab), (Fraction(lam).numerator, Fraction(lam).denominator), sym_code(gam), [pos[x] for x in verts])
                                 for _h, hv, lab, lam, gam, verts in ex["hes"] if hv == v]))
        return (per_node, [(c, cnt[c]) for c in pre[1:]])

    # ------------------------------------------------------------------------------ oracle
    @staticmethod
    def _oracle_conv(tag, ch, phys, rec):
        """the property text on ONE conversion (rec = _measure of its TTNO): identifiers and parent/child relations of the
        reference tree, physical dimensions, the operator.  None or the description without notes"""
        par = parents_of(ch)
        want = {nid(i): [nid(par[i]) if par[i] is not None else None, [nid(c) for c in ch[i]]] for i in range(len(ch))}
        if rec["structure"] != want or rec["root"] != nid(0):
            return f"{tag} structure differs from the reference tree: {rec['structure']} vs {want}"
        for i in range(len(ch)):
            d = phys[i]
            if rec["shapes"][nid(i)][-2:] != [d, d] or len(rec["shapes"][nid(i)]) != len(ch[i]) + (par[i] is not None) + 2:
                return f"{tag} node {nid(i)} has tensor shape {rec['shapes'][nid(i)]}, physical dimension should be {d}"
        if isinstance(rec["oracle_dev"], str) or rec["oracle_dev"] > TOL * rec["scale"]:
            rel = f" (largest deviation of an entry; the tolerance is {TOL:g} * {rec['scale']:.6g})" if not isinstance(rec["oracle_dev"], str) else ""
            return f"{tag} TTNO differs from sum_k c_k (x) A_k: {rec['oracle_dev']}{rel}"
        return None

    def oracle(self, case, ob):
        m = case["method"]
        if "harness_error" in ob or case["kind"] == "inject":
            return None
        if case["kind"] == "malformed":
            if "exception" not in ob:
                return f"[{m}] a term on a site that is not in the tree was accepted"
            return None
        # [str-C01] earlier conversions of the same Hamiltonian object (judged where no recorded finding covers the
        # (terms so far, method) pair): each must be exact for the terms and symbol values the object held at that moment
        # [str5-C01] earlier constructions of the same process (case['proc_history']): each is a conversion of its own
        for k, rec in enumerate(ob.get("proc_history", [])):
            if not rec["judged"]:
                continue
            tag = (f"[process history] construction no. {k + 1} of a fresh process (method {rec['method']}, {rec['nterms']} terms, "
                   f"tree {rec['children']}, dims {rec['phys']}):")
            if "exception" in rec:
                return f"{tag} raised {rec['exception']}"
            what = self._oracle_conv(tag, rec["children"], rec["phys"], rec)
            if what:
                return what
        nconv = 0
        for rec in ob.get("history", []):
            if rec["op"] != "convert":
                continue
            nconv += 1
            if not rec["judged"]:
                continue
            tag = (f"[history] conversion no. {nconv} of one Hamiltonian object (step {rec['step']}, method {rec['method']}, "
                   f"{rec['nterms']} of {len(case['terms'])} terms so far, tree object: {rec['tree']}):")
            if rec.get("reject_expected"):        # [str7-C01]
                if "rejected" not in rec:
                    return f"{tag} a term on a site that is not in the tree was accepted"
                continue
            if "exception" in rec:
                return f"{tag} raised {rec['exception']}"
            what = self._oracle_conv(tag, rec["children"], rec["phys"], rec)
            if what:
                return what
        hist = f" (conversion no. {nconv + 1} of this Hamiltonian object, after {[r['op'] + (':' + r['how'] if 'how' in r else '') for r in ob['history']]})" \
            if "history" in ob else ""
        if case.get("treeops"):        # [str7-C01]
            hist += (f" (reference tree = start tree {case['treeops']['start']} rooted at {case['treeops']['root']} after the library operations "
                     f"{case['treeops']['ops']}; its nodes dictionary is {'' if ob.get('tree_topdown') else 'NOT '}ordered parents-first)")
        if case.get("proc") == "fresh":
            hist += f" (construction no. {len(case.get('proc_history') or []) + 1} of a fresh process)"
        if "exception" in ob:
            return f"[{m}] raised {ob['exception']}{hist}"
        what = self._oracle_conv(f"[{m}]", case["children"], case["phys"], ob)
        if what:
            note = ""
            if "TTNO differs from" in what:
                if ob.get("mult_lost"):
                    note += "; the diagram denotes the Hamiltonian with exactly repeated terms counted fewer times"
                if ob.get("support_ok"):
                    note += "; operator strings agree, coefficients differ"
                elif ob.get("strings_sub"):
                    note += "; no operator string outside the Hamiltonian's, some are lost"
            if ob.get("caller_objects_changed"):
                note += "; objects of the caller were written to: " + "; ".join(ob["caller_objects_changed"])
            return what + note + hist
        tol = TOL * ob["scale"]
        if isinstance(ob["as_matrix_dev"], str) or ob["as_matrix_dev"] > tol:
            return f"[{m}] as_matrix() differs from sum_k c_k (x) A_k: {ob['as_matrix_dev']}{hist}"
        return None

    # ------------------------------------------------------------------------------ findings
    @staticmethod
    def _class_of(case):
        """the known-finding class a case belongs to (by its inputs only)"""
        if case.get("kind") != "ham":
            return None
        f = case_features(case)
        if case["method"] == "TREE" and f["has_coef"]:
            return KF_TREE
        if case["method"] in ("SGE", "BIPARTITE", "TREE") and f["exact_dup"]:
            return KF_DUP
        if case["method"] == "SGE" and len({t[2] for t in case["terms"]}) >= 2:
            return KF_SGE
        return None

    def _known_instance(self, case, ob):
        """the recorded finding an inexact exported diagram reproduces, else None"""
        kid = self._class_of(case)
        if kid == KF_TREE and ob.get("strings_sub"):
            return kid
        if kid == KF_SGE and ob.get("support_ok"):
            return kid
        if kid == KF_DUP and ob.get("mult_lost"):
            return kid
        return None

    def classify(self, case, what, known):
        """C01-tree-coefficients: method TREE, some (lambda, gamma) != (1, "1"), the diagram has no operator string outside the
        Hamiltonian's (coefficients wrong, with repeated strings whole strings may be lost).  C01-sge-symbolic-regroup (proposed):
        method SGE, no exactly repeated term, at least two different coefficient symbols (counting "1"), the diagram has exactly
        the Hamiltonian's operator strings and only coefficients are wrong.  C01-duplicate-terms: method SGE/BIPARTITE/TREE, two padded terms are
        identical (prefactor, symbol, operator string), and the diagram denotes the Hamiltonian with repeated terms counted fewer times (>= once), or
        the construction dies with the IndexError of _remove_reduntant_v_hyperedges.  Anything else stays a violation."""
        if what.startswith("tie:") or what.startswith("[history]") or what.startswith("[process history]"):
            return None
        kid = self._class_of(case)
        if kid is None or kid not in known:
            return None
        numeric = "TTNO differs from sum_k c_k (x) A_k" in what and "failed" not in what and "shape" not in what
        if kid == KF_TREE and numeric and ("operator strings agree, coefficients differ" in what or "no operator string outside" in what):
            return kid
        if kid == KF_SGE and numeric and "operator strings agree, coefficients differ" in what:
            return kid
        if kid == KF_SGE and "raised IndexError: list index out of range [in _remove_reduntant_v_hyperedges]" in what:
            return kid
        if kid == KF_DUP and numeric and "exactly repeated terms counted fewer times" in what:
            return kid
        if kid == KF_DUP and case["method"] in ("SGE", "BIPARTITE") and \
                "raised IndexError: list index out of range [in _remove_reduntant_v_hyperedges]" in what:
            return kid
        return None

    def sample_repr(self, case):
        return case
