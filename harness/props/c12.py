"""C12 — Symbolic-Gaussian-elimination TTNOs have minimal bond dimensions.

For every tree edge e the harness builds, independently of the library, the coefficient matrix
Gamma_e of the Hamiltonian (rows = distinct operator strings on the child side of e, columns =
distinct strings on the other side, entry = sum of prefactor * symbol, distinct primes substituted
for distinct symbols), finds a maximal non-singular minor and its exact inverse, and a Coq case
file checks the certificate (`min_cert`, sound by RankProofs.min_cert_sound: no factorisation of
Gamma_e through a smaller inner dimension).  The implementation's bond dimension must equal that
rank; the independent oracle is the numerical operator Schmidt rank of the dense Hamiltonian.
"""
from __future__ import annotations

import copy
import traceback
from collections import Counter, defaultdict
from fractions import Fraction

import numpy as np

import lib
from lib import Prop, coq_eval, coq_q, coq_nat, coq_list
import util
from util import TTNO
from props.c01 import (build_ref, build_ham, spy_state_diagram, finder, preorder, parents_of, nid, padded_strings,
                       term_frac, random_children, children_from_parents, random_phys, random_terms, export_sd,
                       export_positions, case_features)

IMPORTS = "From Coq Require Import List Arith Bool QArith. From PTN Require Import SD.Rank. Import ListNotations."
PRIMES = [{"1": 1, "g1": 2, "g2": 3, "g3": 5, "g4": 7}, {"1": 1, "g1": 11, "g2": 13, "g3": 17, "g4": 19},
          {"1": 1, "g1": 101, "g2": 211, "g3": 307, "g4": 401}]
SV_TOL = 1e-9
HUB_TIE_MAX = 40     # quick tier: many-term cases with more terms than this are oracle-only
DET_MAX = 7          # largest minor whose determinant is recomputed in Coq (Laplace expansion)


def subtree_nodes(children, c):
    return preorder(children, c)


def gamma_matrix(case, c, primes):
    """coefficient matrix across the edge (parent(c), c): exact Fractions"""
    n = len(case["children"])
    S = sorted(subtree_nodes(case["children"], c))
    R = [i for i in range(n) if i not in S]
    rows, cols = {}, {}
    ent = defaultdict(Fraction)
    for term, s in zip(case["terms"], padded_strings(case)):
        i = rows.setdefault(tuple(s[k] for k in S), len(rows))
        j = cols.setdefault(tuple(s[k] for k in R), len(cols))
        ent[(i, j)] += term_frac(term) * primes[term[2]]
    return [[ent.get((i, j), Fraction(0)) for j in range(len(cols))] for i in range(len(rows))]


def pivots(M):
    """full-pivot elimination: row and column indices of a maximal non-singular minor"""
    A = [list(r) for r in M]
    m, n = len(A), len(A[0])
    rows_left, cols_left, rs, cs = list(range(m)), list(range(n)), [], []
    while True:
        piv = next(((i, j) for i in rows_left for j in cols_left if A[i][j] != 0), None)
        if piv is None:
            return rs, cs
        i, j = piv
        rs.append(i)
        cs.append(j)
        rows_left.remove(i)
        cols_left.remove(j)
        for i2 in rows_left:
            f = A[i2][j] / A[i][j]
            if f:
                for j2 in range(n):
                    A[i2][j2] -= f * A[i][j2]


def inverse(S):
    r = len(S)
    A = [list(row) + [Fraction(int(i == j)) for j in range(r)] for i, row in enumerate(S)]
    for c in range(r):
        p = next(i for i in range(c, r) if A[i][c] != 0)
        A[c], A[p] = A[p], A[c]
        pv = A[c][c]
        A[c] = [x / pv for x in A[c]]
        for i in range(r):
            if i != c and A[i][c] != 0:
                f = A[i][c]
                A[i] = [x - f * y for x, y in zip(A[i], A[c])]
    return [row[r:] for row in A]


def det_frac(S):
    A = [list(r) for r in S]
    r = len(A)
    d = Fraction(1)
    for c in range(r):
        p = next((i for i in range(c, r) if A[i][c] != 0), None)
        if p is None:
            return Fraction(0)
        if p != c:
            A[c], A[p] = A[p], A[c]
            d = -d
        d *= A[c][c]
        for i in range(c + 1, r):
            f = A[i][c] / A[c][c]
            if f:
                A[i] = [x - f * y for x, y in zip(A[i], A[c])]
    return d


def certificate(case, c):
    """best certificate over the prime assignments: dict(M, rs, cs, B, r, det)"""
    best = None
    for primes in PRIMES:
        M = gamma_matrix(case, c, primes)
        rs, cs = pivots(M)
        if best is None or len(rs) > best["r"]:
            S = [[M[i][j] for j in cs] for i in rs]
            best = {"M": M, "rs": rs, "cs": cs, "B": inverse(S) if rs else [], "r": len(rs), "det": det_frac(S) if rs else Fraction(1)}
        if best["r"] == min(len(M), len(M[0])):
            break
    return best


def schmidt_rank(H, dims, A):
    """numerical operator Schmidt rank of the dense operator H (sites in `dims` order) across the
    bipartition A | rest: (rank, smallest kept / largest, largest dropped / largest)"""
    n = len(dims)
    B = [k for k in range(n) if k not in A]
    T = H.reshape(list(dims) + list(dims))
    perm = list(A) + [n + a for a in A] + B + [n + b for b in B]
    dA = int(np.prod([dims[a] for a in A])) ** 2
    Mx = T.transpose(perm).reshape(dA, -1)
    sv = np.linalg.svd(Mx, compute_uv=False)
    if sv[0] == 0:
        return 0, 0.0, 0.0
    keep = sv > SV_TOL * sv[0]
    r = int(np.sum(keep))
    return r, float(sv[r - 1] / sv[0]), float(sv[r] / sv[0]) if r < len(sv) else 0.0


def _balanced_order(sizes, group):
    """a permutation of range(len(sizes)) whose consecutive groups of `group` indices have about equal total size"""
    n = len(sizes)
    k = max(1, -(-n // group))
    by_size = sorted(range(n), key=lambda i: -sizes[i])
    return [i for g in range(k) for i in by_size[g::k]]


def matching_number(M):
    """size of a maximum matching (= minimum vertex cover, Koenig) of the bipartite support graph of M"""
    m, n = len(M), len(M[0]) if M else 0
    adj = [[j for j in range(n) if M[i][j] != 0] for i in range(m)]
    match = [-1] * n

    def aug(i, seen):
        for j in adj[i]:
            if j not in seen:
                seen.add(j)
                if match[j] < 0 or aug(match[j], seen):
                    match[j] = i
                    return True
        return False
    return sum(aug(i, set()) for i in range(m))


def elimination_gain(case):
    """max over the edges of (minimum vertex cover of the support of Gamma_e) - rank Gamma_e: positive iff on some edge the
    plain bipartite-graph optimisation of the raw coefficient matrix cannot reach the operator Schmidt rank, so that the
    elimination steps (deparallelisation, row/column elimination) are what makes the bond minimal"""
    best = 0
    for c in range(1, len(case["children"])):
        M = gamma_matrix(case, c, PRIMES[0])
        best = max(best, matching_number(M) - len(pivots(M)[0]))
    return best


def coq_mat(M):
    return coq_list(M, lambda row: coq_list(row, coq_q))


SYM_RENAME = {"g1": "a", "g2": "b", "g3": "c", "g4": "d", "g5": "e", "g6": "f"}


def _ren(x):
    if isinstance(x, tuple) and len(x) == 2 and isinstance(x[1], str):
        return (x[0], SYM_RENAME.get(x[1], x[1]))
    return x


def sge_calls_encoded(calls):
    """[(coq literal of the input matrix, encoded result)] in the conventions of C13 (symbols renamed to its alphabet)"""
    from props import c13
    out = []
    for gin, res in calls:
        try:
            M = [[_ren(x) for x in row] for row in gin]
            lit = c13.coq_mat(M)
            if isinstance(res, BaseException):
                enc = "EXC " + type(res).__name__
            else:
                L, Mm, R = res
                enc = c13.out_result((L, [[_ren(x) for x in row] for row in Mm], R))
            out.append([lit, enc, [[c13.entry_str(x) for x in row] for row in M]])
        except Exception as e:  # noqa
            out.append([None, f"UNENCODABLE {type(e).__name__}: {e}", None])
    return out


# ------------------------------------------------------------------------------------------
# process histories: a case with "proc": "fresh" is executed as the first thing a pristine process does (after its optional
# "history": earlier TTNO constructions, any method, in the same process).  One zygote process per check run imports the
# library and this module and constructs nothing; every such case runs in a child forked from it, so the module-level
# state of the library at the start of the case is exactly the state after `import pytreenet`, and a replay of the case
# alone reproduces the run.
# ------------------------------------------------------------------------------------------
_ZYG_BOOT = r"""
import sys, os, json
sys.path[:0] = json.loads(os.environ["C12_ZYG_PATH"])
import warnings; warnings.filterwarnings("ignore")
import lib
lib.setup_repo_import()
import pytreenet  # noqa
from props import c12
c12.zygote_loop()
"""
_ZYG = {}            # slot -> zygote process
ZYG_SLOTS = 6
ZYG_TIMEOUT = 300


def zygote_loop():
    """runs in the zygote: one JSON case per line on stdin -> fork -> the child writes one JSON line (the observation)"""
    import json
    import os
    import select
    import signal
    import sys
    out = sys.stdout
    for line in sys.stdin:
        line = line.strip()
        if not line:
            continue
        r, w = os.pipe()
        pid = os.fork()
        if pid == 0:
            os.close(r)
            try:
                case = json.loads(line)
                try:
                    ob = C12()._impl_core(case)
                except Exception as e:  # noqa
                    ob = {"harness_error": f"{type(e).__name__}: {e}", "tb": traceback.format_exc()[-1500:]}
                data = json.dumps(lib.jsonable(ob)).encode()
            except BaseException as e:  # noqa
                data = json.dumps({"harness_error": f"child: {type(e).__name__}: {e}"}).encode()
            with os.fdopen(w, "wb") as f:
                f.write(data)
            os._exit(0)
        os.close(w)
        chunks = []
        deadline = ZYG_TIMEOUT
        import time
        t0 = time.time()
        while True:
            left = deadline - (time.time() - t0)
            if left <= 0 or not select.select([r], [], [], left)[0]:
                os.kill(pid, signal.SIGKILL)
                chunks = [json.dumps({"harness_error": f"fresh-process case exceeded {ZYG_TIMEOUT} s"}).encode()]
                break
            b = os.read(r, 1 << 16)
            if not b:
                break
            chunks.append(b)
        os.close(r)
        os.waitpid(pid, 0)
        data = b"".join(chunks) or json.dumps({"harness_error": "fresh-process child died without an observation"}).encode()
        out.write(data.decode() + "\n")
        out.flush()


def _zygote(slot=0):
    import atexit
    import json
    import os
    import subprocess
    import sys
    p = _ZYG.get(slot)
    if p is not None and p.poll() is None:
        return p
    here = os.path.dirname(os.path.dirname(os.path.abspath(__file__)))
    env = dict(os.environ, C12_ZYG_PATH=json.dumps([here]), PYTHONHASHSEED="0", PYTHONDONTWRITEBYTECODE="1", OMP_NUM_THREADS="1",
               OPENBLAS_NUM_THREADS="1", MKL_NUM_THREADS="1")
    env[lib.GUARD] = "1"
    p = subprocess.Popen([sys.executable, "-W", "ignore", "-c", _ZYG_BOOT], stdin=subprocess.PIPE, stdout=subprocess.PIPE,
                         stderr=subprocess.DEVNULL, env=env, text=True, bufsize=1)
    _ZYG[slot] = p

    def _stop():
        try:
            p.stdin.close()
            p.wait(timeout=5)
        except Exception:  # noqa
            p.kill()
    atexit.register(_stop)
    return p


def zygote_run(case, slot=0):
    import json
    try:
        p = _zygote(slot)
        p.stdin.write(json.dumps(lib.jsonable(case)) + "\n")
        p.stdin.flush()
        line = p.stdout.readline()
        if not line:
            raise RuntimeError("zygote process ended")
        return json.loads(line)
    except Exception as e:  # noqa
        _ZYG.pop(slot, None)
        return {"harness_error": f"fresh-process runner: {type(e).__name__}: {e}"}


# ------------------------------------------------------------------------------------------
# [str5-C12] identifier spellings and coefficient scales.
# The property quantifies over ALL Hamiltonians with distinct terms: the NAMES the caller gives the operators (keys of
# the conversion dictionary) and the SIZE / representation of the rational prefactors are free.  A case may carry
#   "labelmap": {harness label 'A<l>_<d>' -> the name the library sees}   (injective; identities keep 'I<d>')
# everything the harness computes itself (coefficient matrices, certificates, dense reference) is independent of the
# names; only the live Hamiltonian handed to the library is spelled with them.  Prefactors are exact [num, den] pairs of
# arbitrary size in the ordinary term format.
# ------------------------------------------------------------------------------------------
def build_ham_c12(case):
    """the live Hamiltonian of a case, operator names spelled through case['labelmap'] if present"""
    lm = case.get("labelmap")
    if not lm:
        return build_ham(case)
    from util import Hamiltonian
    from props.c01 import default_values, make_term
    conv, cm = default_values(case)
    assert len(set(lm.values())) == len(lm) and not any(v in conv and v not in lm for v in lm.values()), "harness: labelmap not injective"
    conv2 = {lm.get(k, k): v for k, v in conv.items()}
    terms = [[t[0], t[1], t[2], [[k, lm.get(v, v)] for k, v in t[3]]] for t in case["terms"]]
    return Hamiltonian([make_term(t) for t in terms], conv2, cm)


def _digest_kinds():
    import hashlib
    return {
        "sha256[:8]": lambda b: hashlib.sha256(b).hexdigest()[:8],
        "sha256[-8:]": lambda b: hashlib.sha256(b).hexdigest()[-8:],
        "sha256[20:28]": lambda b: hashlib.sha256(b).hexdigest()[20:28],
        "sha1[:8]": lambda b: hashlib.sha1(b).hexdigest()[:8],
        "md5[:8]": lambda b: hashlib.md5(b).hexdigest()[:8],
        "md5[-8:]": lambda b: hashlib.md5(b).hexdigest()[-8:],
        "blake2b[:8]": lambda b: hashlib.blake2b(b).hexdigest()[:8],
        "sha512[:8]": lambda b: hashlib.sha512(b).hexdigest()[:8],
    }


SPELL_STEMS = ["A", "O", "op", "S", "B", "n", "X", "sigma_", "c", "J", "h", "Sz", "a_dag_", "N", "T", "P", "Q_", "k"]
_COLLISIONS = {}


def colliding_labels(stem, kind, want=2, limit=600000):
    """pairs of numbered operator names stem<k> (k = 0, 1, 2, ...) that agree on a 32-bit truncation `kind` of a standard
    digest of their text (birthday search in ascending k: about 10^5 names): names that any key built from a SHORTENED
    digest of the label text confuses, whereas the operators they name are unrelated"""
    key = (stem, kind)
    if key not in _COLLISIONS:
        f = _digest_kinds()[kind]
        seen, pairs = {}, []
        for k in range(limit):
            lab = f"{stem}{k}"
            d = f(lab.encode())
            if d in seen:
                pairs.append([seen[d], lab])
                if len(pairs) >= want:
                    break
            else:
                seen[d] = lab
        _COLLISIONS[key] = pairs
    return _COLLISIONS[key]


def odd_spellings(rng):
    """three distinct unusual but legal operator names"""
    import hashlib
    fam = rng.choice(["longprefix", "case", "space", "digits", "unicode", "hexlike", "prefixes", "punct", "long", "suffixdigits"])
    if fam == "longprefix":
        stem = "operator_with_a_rather_long_common_name_" * rng.choice([1, 3])
        labs = [stem + x for x in rng.sample("abcdefgh", 3)]
    elif fam == "case":
        labs = rng.choice([["Sz", "sz", "SZ"], ["Op", "oP", "OP"], ["x", "X", "xX"]])
    elif fam == "space":
        labs = rng.choice([["X", "X ", " X"], ["a b", "ab", "a  b"], ["s\t", "s", "s\n"]])
    elif fam == "digits":
        labs = rng.choice([["0", "00", "000"], ["7", "70", "07"], ["12", "21", "121"]])
    elif fam == "unicode":
        labs = rng.choice([["\u03c3x", "\u03c3y", "\u03c3z"], ["\u015d\u207a", "\u015d\u207b", "\u015d\u1dbb"], ["e\u0301", "\u00e9", "e"]])
    elif fam == "hexlike":            # names that look like the hex digests keys are built from
        labs = [hashlib.sha256(f"{rng.random()}".encode()).hexdigest() for _ in range(3)]
        if rng.random() < 0.5:
            labs[1] = labs[0][:-1] + ("0" if labs[0][-1] != "0" else "1")
    elif fam == "prefixes":
        s = rng.choice(["n", "ab", "I", "A1"])
        labs = [s, s + s, s + s + s] if s != "I" else ["Ix", "IxIx", "Ixx"]
    elif fam == "punct":
        labs = rng.choice([["a+b", "a*b", "(a)"], ["a,b", "a;b", "a.b"], ["[0]", "[1]", "{0}"], ["a'", "a\"", "a`"]])
    elif fam == "long":
        labs = ["L" * 300 + x for x in "abc"]
    else:
        k = rng.randrange(10 ** 6)
        labs = [f"A{k}", f"A{k}0", f"A{k + 1}"]
    labs = list(labs)
    rng.shuffle(labs)
    return fam, labs


def spelled_labelmap(rng, phys, pools, focus_dim=None):
    """an injective map of the harness labels A<l>_<d> (l < 3) of every physical dimension to names: for `focus_dim` (default
    a random one) the first two labels get a pair from a collision pool or an odd-spelling family, all other labels numbered
    names of the pool's style.  -> (labelmap, description)"""
    dims = sorted({d for d in phys if d > 1})
    fd = focus_dim if focus_dim in dims else rng.choice(dims)
    used, lm = set(), {}
    if pools and rng.random() < 0.6:
        stem, kind, pairs = pools[0] if rng.random() < 0.4 else rng.choice(pools)
        pair = list(rng.choice(pairs))
        rng.shuffle(pair)
        names = pair + [f"{stem}{rng.randrange(10 ** 5)}"]
        desc = "digest-collision " + kind
    else:
        fam, names = odd_spellings(rng)
        stem = rng.choice(SPELL_STEMS)
        desc = "odd " + fam
    for d in dims:
        for l in range(3):
            if d == fd:
                nm = names[l]
            else:
                nm = f"{stem}{rng.randrange(10 ** 5)}"
            while nm in used or (nm[:1] == "I" and nm[1:].isdigit()):
                nm = f"{stem}{rng.randrange(10 ** 6)}_{d}"
            used.add(nm)
            lm[f"A{l}_{d}"] = nm
    return lm, desc


def _rand_rational(rng, mode):
    """one non-zero rational of magnitude about 0.1 .. 10 in the representation class `mode`"""
    import math
    if mode == "small":
        return Fraction(rng.choice([1, 2, -1, 3, -2, 5, 7, -3]), rng.choice([1, 1, 2, 3]))
    if mode == "bigden":           # p/q with a denominator of 4..12 digits
        q = int(10 ** rng.uniform(3, 12)) | 1
        p = max(1, int(q * 10 ** rng.uniform(-1, 1)))
        g = math.gcd(p, q)
        return Fraction(rng.choice([1, -1]) * p // g, q // g)
    if mode == "primeden":         # small numerator over a denominator just above a power of ten (the 1/1009-like couplings)
        q = int(10 ** rng.choice([2, 3, 3, 4, 6])) + rng.choice([1, 3, 7, 9, 13, 19, 21, 31, 33])
        return Fraction(rng.choice([1, 2, 3, 5, 7, 11, -1, -2, -3]) * max(1, q // rng.choice([1, 10, 100, 1000])), q)
    if mode == "dyadic":           # the exact value of a binary floating point number (Fraction(0.1) = 3602879701896397 / 2^55)
        return Fraction(rng.choice([1, -1]) * rng.uniform(0.1, 4.0))
    if mode == "decimal":          # a decimal with 7..14 digits
        k = rng.choice([7, 8, 10, 12, 14])
        return Fraction(rng.choice([1, -1]) * rng.randrange(10 ** (k - 1), 4 * 10 ** k), 10 ** k)
    raise ValueError(mode)


def _rand_scale(rng):
    """a global factor for all prefactors of a Hamiltonian (the operator Schmidt ranks do not depend on it): (Fraction, tag)"""
    kind = rng.choice(["one", "pow10", "pow10", "pow2", "bigden", "dyadic", "huge_int"])
    if kind == "one":
        return Fraction(1), "1"
    if kind == "pow10":
        k = rng.choice([-40, -30, -20, -12, -9, -7, -6, -3, 3, 6, 9, 12, 20, 30, 40])
        return Fraction(10) ** k, f"1e{k}"
    if kind == "pow2":
        k = rng.choice([-100, -64, -53, -30, -21, -20, 20, 53, 64, 100])
        return Fraction(2) ** k, f"2^{k}"
    if kind == "huge_int":
        return Fraction(rng.randrange(10 ** 15, 10 ** 25)), "integer of 16..25 digits"
    return _rand_rational(rng, kind), kind


def run_history(history):
    """earlier TTNO constructions in the same process (any construction method); what they return is not judged here
    (exactness of the other methods is C01's subject): [method, None | exception text]"""
    out = []
    for h in history:
        try:
            TTNO.from_hamiltonian(build_ham_c12(h), build_ref(h), finder(h["method"]))
            out.append([h["method"], None])
        except Exception as e:  # noqa
            out.append([h["method"], f"{type(e).__name__}: {e}"[:200]])
    return out


# ------------------------------------------------------------------------------------------
# [str7-C12] GROWN Hamiltonians and constructor input forms.
# The property quantifies over Hamiltonian OBJECTS, however the caller assembled them: a case with a "grow" list reaches its
# final term list case["terms"] (consecutive chunks, in order) by a sequence of public operations of the Hamiltonian class
#   {"op": "ctor", "form": none | default | empty_list | list | list_tp | list_mixed | bare_tp | triple, "n": k}
#   {"op": add_term | add_multiple_terms | add_hamiltonian | plus_ham | iadd_ham | plus_tp | iadd_tp, "form": ..., "n": k}
#   {"op": "rejected"}  (ham + 3 / ham + "x": raises TypeError, the caller catches it and keeps using the object)
# each optionally followed by "build": a TTNO construction (any method) from the Hamiltonian AS IT IS THEN on the SAME tree
# object the judged construction uses.  Every SGE construction on the way is judged by the oracle against the dense operator
# of the terms added so far (computed from the case, never from the library's Hamiltonian); certificates and the call-path tie
# apply to the final construction (the case format is unchanged).  Terms may have EMPTY support ([num, den, "1", []]: the
# identity / a constant offset; a TensorProduct without entries is falsy in Python).  Numeric prefactors only (symbol "1").
# ------------------------------------------------------------------------------------------
def _live_tables(case):
    from props.c01 import default_values
    conv, cm = default_values(case)
    lm = case.get("labelmap")
    if lm:
        conv = {lm.get(k, k): v for k, v in conv.items()}
    return conv, cm


def _live_terms(case, terms):
    from props.c01 import make_term
    lm = case.get("labelmap") or {}
    return [make_term([t[0], t[1], t[2], [[k, lm.get(v, v)] for k, v in t[3]]]) for t in terms]


def _is_unit(t):
    return t[2] == "1" and Fraction(t[0], t[1]) == 1


def _ham_from_form(case, form, chunk):
    """a Hamiltonian from the terms `chunk` given to the constructor in the input form `form` (own table objects)"""
    from util import Hamiltonian
    conv, cm = _live_tables(case)
    triples = _live_terms(case, chunk)
    tps = [t[2] for t in triples]
    if form == "none":
        return Hamiltonian(None, conv, cm)
    if form == "default":
        return Hamiltonian(conversion_dictionary=conv, coeffs_mapping=cm)
    if form == "empty_list":
        return Hamiltonian([], conv, cm)
    if form == "list":
        return Hamiltonian(list(triples), conv, cm)
    if form == "list_tp":
        return Hamiltonian(list(tps), conv, cm)
    if form == "list_mixed":
        return Hamiltonian([tp if _is_unit(t) and k % 2 == 0 else tr for k, (t, tr, tp) in enumerate(zip(chunk, triples, tps))], conv, cm)
    if form == "bare_tp":
        return Hamiltonian(tps[0], conv, cm)
    if form == "triple":
        return Hamiltonian(triples[0], conv, cm)
    raise ValueError(form)


def ctor_forms(chunk):
    """the documented constructor input forms that can express `chunk`"""
    if not chunk:
        return ["none", "default", "empty_list"]
    unit = [_is_unit(t) for t in chunk]
    forms = ["list"]
    if all(unit):
        forms.append("list_tp")
    if len(chunk) > 1 and unit[0]:
        forms.append("list_mixed")
    if len(chunk) == 1:
        forms.append("triple")
        if unit[0]:
            forms += ["bare_tp", "bare_tp"]
    return forms


def grow_ops(chunk):
    """(op, form) pairs that can add `chunk` to an existing Hamiltonian"""
    if not chunk:
        return [("rejected", "int"), ("rejected", "str"), ("add_hamiltonian", "none"), ("add_multiple_terms", "triples")]
    unit = all(_is_unit(t) for t in chunk)
    out = [(op, f) for op in ("add_hamiltonian", "plus_ham", "iadd_ham") for f in ctor_forms(chunk)]
    out += [("add_multiple_terms", "triples")] * 2 + ([("add_multiple_terms", "tps")] if unit else [])
    if len(chunk) == 1:
        out += [("add_term", "triple")] * 2
        if unit:
            out += [("add_term", "tp"), ("plus_tp", "tp"), ("iadd_tp", "tp")]
    return out


def dense_terms(case, terms, pre):
    """dense operator of `terms` (case format, harness labels), sites in the order `pre`: independent of the library"""
    from props.c01 import default_values
    conv, cm = default_values(case)
    phys = case["phys"]
    D = int(np.prod(phys))
    M = np.zeros((D, D), dtype=complex)
    for t in terms:
        ops = {int(k): v for k, v in t[3]}
        m = np.ones((1, 1))
        for i in pre:
            m = np.kron(m, conv[ops[i]] if i in ops else np.eye(phys[i]))
        M = M + float(term_frac(t)) * cm[t[2]] * m
    return M


def measure_ttno(case, ttno, ref):
    """bond dimensions, exactness and numerical Schmidt ranks of the reference `ref` (sites in preorder)"""
    from props.c01 import dense_ttno
    ch = case["children"]
    pre = preorder(ch)
    ids = [nid(i) for i in pre]
    par = parents_of(ch)
    bd = ttno.bond_dims()
    ob = {"bond": {}, "schmidt": {}}
    for c in range(1, len(ch)):
        key = (nid(par[c]), nid(c))
        ob["bond"][str(c)] = int(bd[key]) if key in bd else None
    dev = float(np.max(np.abs(dense_ttno(ttno, ids) - ref)))
    top = float(np.max(np.abs(ref)))
    ob["exact_dev"] = dev / max(1.0, top)
    ob["exact_rel"] = dev / top if top > 0 else dev
    dl = [case["phys"][i] for i in pre]
    for c in range(1, len(ch)):
        A = [pre.index(v) for v in subtree_nodes(ch, c)]
        ob["schmidt"][str(c)] = list(schmidt_rank(ref, dl, sorted(A)))
    return ob


def grow_ham(case, ttns, ob):
    """performs case['grow'] and returns the grown Hamiltonian; intermediate constructions on `ttns` are logged in ob['stages']"""
    pos, ham = 0, None
    stages, log = [], []
    pre = preorder(case["children"])
    for s in case["grow"]:
        chunk = case["terms"][pos:pos + s["n"]]
        pos += s["n"]
        op, form = s["op"], s.get("form")
        triples = _live_terms(case, chunk)
        if op == "ctor":
            ham = _ham_from_form(case, form, chunk)
        elif op == "add_term":
            ham.add_term(triples[0] if form == "triple" else triples[0][2])
        elif op == "add_multiple_terms":
            ham.add_multiple_terms(list(triples) if form == "triples" else [t[2] for t in triples])
        elif op == "add_hamiltonian":
            ham.add_hamiltonian(_ham_from_form(case, form, chunk))
        elif op == "plus_ham":
            ham = ham + _ham_from_form(case, form, chunk)
        elif op == "iadd_ham":
            ham += _ham_from_form(case, form, chunk)
        elif op == "plus_tp":
            ham = ham + triples[0][2]
        elif op == "iadd_tp":
            ham += triples[0][2]
        elif op == "rejected":
            try:
                ham + (3 if form == "int" else "x")
                log.append([op, "accepted"])
            except TypeError:
                log.append([op, "TypeError"])
        else:
            raise ValueError(op)
        if s.get("build") and pos > 0:
            st = {"nterms": pos, "method": s["build"], "after": op}
            try:
                ttno = TTNO.from_hamiltonian(ham, ttns, finder(s["build"]))
                if s["build"] == "SGE":
                    st.update(measure_ttno(case, ttno, dense_terms(case, case["terms"][:pos], pre)))
            except Exception as e:  # noqa
                site = traceback.extract_tb(e.__traceback__)[-1].name
                st["exception"] = f"{type(e).__name__}: {e} [in {site}]"[:300]
            stages.append(st)
    assert pos == len(case["terms"]), "harness: grow steps do not cover the terms"
    ob["stages"] = stages
    ob["grow_log"] = log
    ob["nterms_seen"] = len(ham.terms)
    return ham


class C12(Prop):
    id = "C12"
    title = "SGE bond dimensions are minimal"
    design_ref = "DESIGN.md section 5 / C12"
    rule = ("random rooted trees of 2..7 nodes (random child order, dims in {1,2,3}, dimension-1 nodes carry only the identity; all ordered "
            "shapes <= 5 nodes in thorough), Hamiltonians with 1..8 terms with pairwise distinct operator strings, at most d^2-1 non-identity "
            "labels per site of dimension d (so distinct strings are linearly independent for generic operator values), 45% with expanded "
            "products of local sums (rank-deficient coefficient matrices, where elimination beats the plain vertex cover), 20% random symbolic "
            "coefficient matrices across one edge (one term per entry), 15% operator names with ambiguous concatenations, coefficient mode "
            "unit/frac/sym/symshared; method SGE. one case per (tree, Hamiltonian); non-trivial = some edge of rank >= 2; distinct by content. "
            "PROCESS HISTORIES (cases with proc=fresh run in a process forked from a zygote that imported the library and constructed nothing, "
            "so the case states its whole history and replays alone): 'first' = a main-family case as the very first construction of a process; "
            "'history' = 1..3 earlier constructions in the same process with methods SGE/BIPARTITE/BASE/TREE (own random trees and Hamiltonians, "
            "30% the judged Hamiltonian itself), then the judged SGE construction, 75% of them chosen (rejection sampling, independent exact "
            "computation) with an edge whose rank is below the minimum vertex cover of the raw coefficient matrix, i.e. where the elimination "
            "itself is needed; 'hub' = 6..160 distinct terms with up to 6 labels per site on stars/spiders/random trees with a node of >= 3 "
            "neighbours, branching nodes mostly without operator (dimension 1 or untouched), unit or rational coefficients, first "
            "construction (80%) or after a history: diagrams with hundreds of vertices. All other cases share the process of the check run "
            "(a long history of SGE constructions). Quick tier: hub cases with more than 40 terms are judged by the oracle only (no tie). "
            "OPERATOR NAMES [str5-C12] (cases with a 'labelmap': the library sees the operators under these names, everything the harness "
            "computes is independent of them): numbered names stem<k> (stems A, O, op, S, sigma_, a_dag_, random letters ...) taken from pools "
            "of PAIRS WHOSE 32-BIT DIGEST TRUNCATIONS COINCIDE (birthday search over ~10^5 names; sha256 prefix - the digest the state diagram's "
            "subtree keys are built from - in every run, and 3 (quick) / all (thorough) of sha256 suffix / middle, sha1, md5 prefix / suffix, "
            "blake2b, sha512) and odd spellings (long common prefix, case / whitespace variants, digits only, non-ASCII incl. composed vs "
            "decomposed accents, names that look like hex digests, names that are prefixes / repetitions of each other, punctuation, 300 "
            "characters, digit suffixes); structure 'pair' (75%): 2..3 terms that carry differently named operators on one site s (mostly at depth "
            ">= 2), agree on the rest of the subtree of an ancestor p of s and differ outside it, plus 0..3 random terms, unit or rational "
            "coefficients; 25%: main-family Hamiltonians with spelled names. COEFFICIENT SIZE AND REPRESENTATION [str5-C12] (struct scaled:*): "
            "'lowrank' (60%): coupling matrix G = X*Y of exact rank k <= 3 < min(rows, columns) between two dimension-3 sites of a small or random "
            "tree, entries of X, Y = p/q with denominators up to 12 digits / small numerators over denominators just above a power of ten "
            "(1/1009-like) / exact values of binary floats (denominator 2^5x) / decimals with 7..14 digits / small rationals (control), 0 or 20% "
            "zeros, 30% with further terms elsewhere; 40%: main-family Hamiltonians (unit / rational / symbolic); in both all prefactors times "
            "one global factor: 1, 10^k (|k| <= 40), 2^k (|k| <= 100), a rational with a big denominator, the exact value of a float, an integer "
            "of 16..25 digits (prefactors of one Hamiltonian stay within a few orders of magnitude of each other, so that the relative "
            "threshold of the numerical Schmidt rank is meaningful; exactness is judged relative to the largest entry of H). "
            "GROWN HAMILTONIAN OBJECTS AND CONSTRUCTOR INPUT FORMS [str7-C12] (struct grown:*, numeric prefactors only, so never attributable to a "
            "recorded symbolic finding): the term list of a main-family Hamiltonian (unit / rational; 35% with an EMPTY-SUPPORT term = identity / "
            "constant offset, 8% of those alone) is cut into consecutive chunks; the first chunk (0, 1, 2, half, all but one or all of the terms) goes "
            "to the constructor in a documented input form (None / no argument / empty list / list of triples / list of bare TensorProducts / mixed "
            "list / ONE bare TensorProduct / one triple), every further chunk is added by add_term (triple or TensorProduct), add_multiple_terms "
            "(triples or TensorProducts), add_hamiltonian, `ham + other`, `ham += other` (other built in any constructor form, with its own "
            "dictionaries), `ham + TensorProduct`, `ham += TensorProduct`; 15% of the steps are followed by an addition that adds nothing or is "
            "REJECTED (ham + 3, ham + 'x': TypeError caught, object used on); after the constructor (85%) and after later steps (45%) a TTNO is built "
            "(SGE 4/7, BIPARTITE, BASE, TREE) from the Hamiltonian as it is then ON THE SAME TREE OBJECT the final judged SGE construction uses; "
            "every SGE construction on the way is judged by the oracle against the dense operator of the terms given so far; 25% in a pristine process")
    clauses = [
        ("F", "min_cert_sound: an accepted certificate (row/column indices of an r x r minor of Gamma and its inverse) excludes every factorisation "
              "Gamma = X*Y through an inner dimension k < r, for all matrices and all X, Y (C12_min_cert_sound; core lemma C12_kernel_vector: k equations "
              "in r > k unknowns over Q have a non-trivial solution)"),
        ("F", "single_term_bonds_one: in the single-term diagram every edge carries exactly one vertex (C12_single_term_bonds_one), for every tree"),
        ("F", "C12_numeric_minimal: for EVERY numeric coefficient matrix M (all sizes m x n; every entry a rational constant, i.e. all coefficient "
              "symbols are the unit '1') without a zero row or column, the model of symbolic_gaussian_elimination_fraction.gaussian_elimination "
              "(SGE/Model.v, the function the C13 check ties exactly to the code) returns L (m x r), M' (r x r, diagonal with non-zero diagonal), "
              "R (r x n) with L*M'*R = M, and M factors through NO inner dimension k < r whatever X (m x k), Y (k x n) over Q: r = rank M "
              "(C12_numeric_factor: the easy direction; C12_last_round: a round of row+column elimination that deletes nothing ends square diagonal; "
              "proved via loop invariants: every iteration and the deparallelisation preserve 'factors through k' and 'no zero line'). "
              "Not covered: entries with coefficient symbols (there minimality fails for several symbols: known finding C12-symbolic-suboptimal), "
              "matrices with a zero line (the 2 x 2 zero matrix is returned unreduced: C12_numeric_zero_line_example)"),
        ("I", "for every explored (tree, Hamiltonian) and every edge e: min_cert accepts the harness-built minor of Gamma_e by vm_compute => rank Gamma_e >= r "
              "at the substituted primes, hence over Q(symbols); the minor's determinant computed by the Coq Laplace expansion equals the harness's"),
        ("I", "call-path tie: every gaussian_elimination call made by the pipeline while it builds the TTNO of an explored case (recorded at the "
              "state_diagram module boundary: input matrix, returned L, M', R) is replayed on SGE/Model.v by vm_compute and must agree exactly; a recorded "
              "known finding is attributed only to constructions whose elimination calls all agree with the model of the unchanged algorithm"),
        ("V", "ttno.bond_dims()[e] == max(r, 1) and == number of vertices of the exported diagram on e (>= is then a consequence of exactness, <= is the observation)"),
        ("V", "process histories: the oracle below judges the SGE construction as first construction of a pristine process, after earlier "
              "constructions with the other methods (BIPARTITE, BASE, TREE, SGE) in the same process, and late in a long-running process; "
              "certificates and the call-path tie apply to these cases unchanged (minors larger than 7 x 7: min_cert only, the determinant "
              "cross-check is skipped)"),
        ("V", "oracle: numerical operator Schmidt rank of the dense Hamiltonian across e (SVD, relative threshold 1e-9, generic random operator and "
              "coefficient values) equals the bond dimension; single-term Hamiltonians give bond dimension 1 everywhere"),
        ("V", "[str5-C12] the same oracle, certificates and call-path tie for Hamiltonians whose operators carry arbitrary names (incl. pairs of names "
              "with coinciding truncated digests) and whose rational prefactors have large numerators / denominators or a global factor between "
              "1e-40 and 1e40: the bond dimension must not depend on how the operators are called, and exactly rank-deficient coupling matrices "
              "must be recognised whatever the size of the fractions; the dense TTNO must equal H up to 1e-9 RELATIVE to the largest entry of H"),
        ("V", "[str7-C12] the same oracle for Hamiltonian objects assembled step by step with every public route (constructor input forms incl. a bare "
              "TensorProduct with empty support, add_term, add_multiple_terms, add_hamiltonian, + and += with a Hamiltonian or a TensorProduct, rejected "
              "additions in between) and rebuilt on the same tree object: after every step the SGE bond dimensions equal the operator Schmidt ranks of the "
              "dense operator of ALL terms given so far (reference computed from the case, never from the library's Hamiltonian object); an identity / "
              "constant-offset Hamiltonian has bond dimension one on every edge; certificates and call-path tie for the final construction"),
    ]
    trusted_base = ["the link 'a TTNO with bond k on e that represents H exactly factors Gamma_e through k' (operator strings on either side are linearly "
                    "independent for generic operator values) is the standard argument and is not formalised; what is kernel-checked is rank Gamma_e >= r",
                    "universal optimality is proved only for the elimination on numeric coefficient matrices (C12_numeric_minimal); with coefficient symbols it is "
                    "certified per explored instance (and false for several symbols: known finding C12-symbolic-suboptimal)",
                    "the link 'coefficient matrix Gamma_e of the cut -> bond dimension of the built TTNO on e' (_setup_gamma_matrix builds Gamma_e without zero "
                    "lines; the bond is the minimum vertex cover of the support of the reduced matrix, = r for a diagonal one; _apply_bipartite_to_gamma_u keeps the "
                    "smaller of the two covers; hyperedge reconnection) is not modelled: it is validated per explored instance (bond_dims()[e] == certified rank); "
                    "the tie of SGE/Model.v to the code is the C13 check",
                    "numpy SVD for the numerical Schmidt rank"]
    assumptions = ["pairwise distinct operator strings after padding; generic operator values; distinct symbols independent"]

    def __init__(self):
        self._inst = (0, 0, [])

    # ------------------------------------------------------------------------------ generation
    def generate(self, ctx, stream, budget_scale=1):
        rng = ctx.rng(stream)
        cases = []
        cap = ctx.scale(150, 300)
        ncases = ctx.scale(800, 8000) * budget_scale
        shapes = []
        if ctx.thorough() and stream == "main":
            for n in range(2, 6):
                shapes += [children_from_parents(p) for p in util.all_parents(n)]
        fixed = [[[1], []], [[1, 2], [], []], [[1], [2], []]]
        for g in range(ncases):
            if g < len(fixed) and stream == "main":
                ch = [list(c) for c in fixed[g]]
            elif shapes:
                ch = shapes.pop()
                if rng.random() < 0.5:
                    for cs in ch:
                        rng.shuffle(cs)
            else:
                ch = random_children(rng, rng.choice([2, 3, 3, 4, 4, 5, 5, 6, 7]))
            case = self._random_case(rng, ch, cap, g)
            if case is not None:
                cases.append(case)
        # "row-symbol" family: Gamma = diag(g_i) * A across one edge, with A a 0/1 matrix whose COLUMNS are
        # linearly dependent in a way that is not plain parallelism (each row carries its own symbol, so row
        # elimination cannot see it): the minimal bond needs column additions that create new symbolic entries
        for k in range(ctx.scale(24, 240) * budget_scale):
            ch = rng.choice([[[1], []], [[1], [2], []], [[1, 2], [], []], [[1], [2, 3], [], []]])
            n = len(ch)
            phys = [3] * n
            leaves = [i for i in range(n) if not ch[i]]
            u = 0 if len(leaves) < 2 or rng.random() < 0.5 else leaves[0]
            v = leaves[-1]
            if u == v:
                continue
            r, c = rng.choice([3, 4, 4]), rng.choice([3, 4, 4, 5])
            for _try in range(50):
                A = [[rng.random() < 0.5 for _ in range(c)] for _ in range(r)]
                if all(any(row) for row in A) and all(any(A[i][j] for i in range(r)) for j in range(c)):
                    M = np.array(A, dtype=float)
                    if np.linalg.matrix_rank(M) < min(r, c) and len({tuple(col) for col in M.T}) == c:
                        break
            else:
                continue
            terms = []
            for i in range(r):
                for j in range(c):
                    if A[i][j]:
                        terms.append([1, 1, f"g{i + 1}", [[u, f"A{i}_3"], [v, f"A{j}_3"]]])
            cases.append({"kind": "ham", "method": "SGE", "children": ch, "phys": phys, "terms": terms, "nlabels": 5, "coefmode": "sym",
                          "dupmode": "none", "struct": "rowsym", "seed": rng.randrange(10 ** 6), "group": 10000 + k})
        # "part-symbolic" family: a rank-deficient rational coefficient matrix across one edge (product of small integer
        # factors, so rows AND columns are dependent in a non-parallel way) in which a few entries carry the single symbol g1:
        # the elimination needs several row/column sweeps; unit/rational entries alone never do
        for k in range(ctx.scale(40, 400) * budget_scale):
            ch = rng.choice([[[1], []], [[1], [2], []], [[1, 2], [], []]])
            n = len(ch)
            phys = [3] * n
            leaves = [i for i in range(n) if not ch[i]]
            u = 0 if len(leaves) < 2 or rng.random() < 0.5 else leaves[0]
            v = leaves[-1]
            if u == v:
                continue
            r, c = rng.choice([4, 5, 5, 6]), rng.choice([4, 5, 5, 6])
            kk = rng.choice([2, 3])
            X = [[rng.choice([0, 0, 1, 1, -1, 2]) for _ in range(kk)] for _ in range(r)]
            Y = [[rng.choice([0, 0, 1, 1, -1, 2]) for _ in range(c)] for _ in range(kk)]
            G = [[sum(X[i][l] * Y[l][j] for l in range(kk)) for j in range(c)] for i in range(r)]
            nz = [(i, j) for i in range(r) for j in range(c) if G[i][j] != 0]
            if len(nz) < 4:
                continue
            sym = set(rng.sample(nz, rng.choice([1, 2, 2, 3])))
            if rng.random() < 0.5:       # plus a symbolic entry where the rational matrix has a zero
                zs = [(i, j) for i in range(r) for j in range(c) if G[i][j] == 0]
                if zs:
                    z = rng.choice(zs)
                    G[z[0]][z[1]] = 1
                    sym.add(z)
            terms = [[G[i][j], 1, "g1" if (i, j) in sym else "1", [[u, f"A{i}_3"], [v, f"A{j}_3"]]]
                     for i in range(r) for j in range(c) if G[i][j] != 0]
            rng.shuffle(terms)
            cases.append({"kind": "ham", "method": "SGE", "children": ch, "phys": phys, "terms": terms, "nlabels": 6, "coefmode": "sym",
                          "dupmode": "none", "struct": "partsym", "seed": rng.randrange(10 ** 6), "group": 20000 + k})
        cases += self._history_cases(ctx, rng, cap, budget_scale)
        cases += self._spell_cases(ctx, rng, cap, budget_scale)
        cases += self._scaled_cases(ctx, rng, cap, budget_scale)
        cases += self._grown_cases(ctx, ctx.rng(stream + ":grown"), cap, budget_scale)
        return cases

    # [str5-C12] ------------------------------------------------------------------------------------------------------
    def _spell_cases(self, ctx, rng, cap, budget_scale):
        """operator NAMES: the same Hamiltonians with the operators called differently (case['labelmap']).  Pools of numbered
        names stem<k> whose 32-bit digest truncations coincide (several standard digests and truncations, birthday search) and
        families of odd spellings; 'pair' structure: two or three terms that differ at one site s (differently named
        operators) and outside the subtree of an ancestor p of s, and agree on the rest of the subtree of p, plus random terms;
        'random' structure: a main-family case with spelled names"""
        out = []
        # one pool for the plain prefix of the digest the state diagram's subtree keys are built from (sha256), and pools for other
        # truncations / digests; a case with digest-colliding names takes the first pool with probability 0.4
        kinds = [k for k in _digest_kinds() if k != "sha256[:8]"]
        pools = []
        for kind in ["sha256[:8]"] + rng.sample(kinds, ctx.scale(3, len(kinds))):
            stem = rng.choice(SPELL_STEMS) if rng.random() < 0.7 else "".join(rng.choice("abcdefghijklmnopqrstuvwxyz") for _ in range(rng.choice([1, 2, 3])))
            pairs = colliding_labels(stem, kind)
            if pairs:
                pools.append((stem, kind, pairs))
        for k in range(ctx.scale(64, 500) * budget_scale):
            if rng.random() < 0.25:
                case = self._random_case(rng, random_children(rng, rng.choice([3, 4, 4, 5, 5, 6])), cap, 60000 + k, coefmodes=("unit", "frac", "sym"),
                                         p_product=0.6)
                if case is None or case.get("labelset") == "amb":
                    continue
                lm, desc = spelled_labelmap(rng, case["phys"], pools)
                case.update(labelmap=lm, spell=desc, struct="spell:" + case["struct"], labelset="spelled")
            else:
                case = self._pair_case(rng, pools, cap, 60000 + k)
                if case is None:
                    continue
            out.append(case)
        return out

    @staticmethod
    def _pair_case(rng, pools, cap, g):
        n = rng.choice([3, 4, 4, 5, 5, 6])
        for _try in range(4):            # mostly trees with a node at depth >= 2
            ch = [[1], [2, 3], [], []] if rng.random() < 0.15 else random_children(rng, n)
            par = parents_of(ch)
            depth = [0] * len(ch)
            for v in preorder(ch)[1:]:
                depth[v] = depth[par[v]] + 1
            if max(depth) >= 2:
                break
        n = len(ch)
        deep = [v for v in range(1, n) if depth[v] >= 2]
        s = rng.choice(deep) if deep and rng.random() < 0.75 else rng.randrange(1, n)
        phys = random_phys(rng, n, cap)
        if phys[s] < 2:
            phys[s] = rng.choice([2, 3])
        for i in range(n):
            if phys[i] == 1 and rng.random() < 0.6:
                phys[i] = 2
        while int(np.prod(phys)) > cap:
            i = max((q for q in range(n) if q != s), key=lambda q: (phys[q], rng.random()))
            if phys[i] == 1:
                return None
            phys[i] -= 1
        d = phys[s]
        anc = []
        v = par[s]
        while v is not None:
            anc.append(v)
            v = par[v]
        p = anc[0] if rng.random() < 0.6 else rng.choice(anc)
        sub = set(preorder(ch, p))
        outside = [i for i in range(n) if i not in sub and phys[i] > 1]
        inside = [i for i in sub if i != s and phys[i] > 1]

        def lab(i):
            return f"A{rng.randrange(3)}_{phys[i]}"
        nvar = rng.choice([2, 2, 3])
        common = rng.random() < 0.75
        W = [[i, lab(i)] for i in inside if rng.random() < 0.3]
        seen, terms = set(), []

        def add(ops, coef):
            full = tuple(dict((a, b) for a, b in ops).get(i, f"I{phys[i]}") for i in range(n))
            if not ops or full in seen:
                return False
            seen.add(full)
            ops = [list(x) for x in ops]
            rng.shuffle(ops)
            terms.append([coef.numerator, coef.denominator, "1", ops])
            return True
        coefmode = rng.choice(["unit", "unit", "frac"])

        def coef():
            return Fraction(1) if coefmode == "unit" else Fraction(rng.choice([1, 2, -1, 3, -2, 5]), rng.choice([1, 1, 2, 3]))
        for k in range(nvar):
            for _try in range(20):
                w = W if common else [[i, lab(i)] for i in inside if rng.random() < 0.3]
                o = [[i, lab(i)] for i in (rng.sample(outside, rng.randrange(1, min(2, len(outside)) + 1)) if outside else [])]
                if add([[s, f"A{k}_{d}"]] + w + o, coef()):
                    break
        for _ in range(rng.choice([0, 0, 1, 2, 3])):
            sites = [i for i in range(n) if phys[i] > 1]
            add([[i, lab(i)] for i in rng.sample(sites, rng.randrange(1, min(3, len(sites)) + 1))], coef())
        if len(terms) < 2:
            return None
        rng.shuffle(terms)
        lm, desc = spelled_labelmap(rng, phys, pools, focus_dim=d)
        return {"kind": "ham", "method": "SGE", "children": ch, "phys": phys, "terms": terms, "nlabels": 3, "coefmode": coefmode, "dupmode": "none",
                "struct": "spell:pair", "labelset": "spelled", "labelmap": lm, "spell": desc, "seed": rng.randrange(10 ** 6), "group": g}

    def _scaled_cases(self, ctx, rng, cap, budget_scale):
        """coefficient SIZE and REPRESENTATION: rational prefactors with large numerators / denominators (p/q with up to 12-digit
        q, exact values of binary floats, long decimals), all prefactors of a Hamiltonian times one global factor from 1e-40 to
        1e40.  'lowrank': the coupling matrix G = X*Y between two sites has exact rank k < min(rows, columns) with such entries
        (bond dimension k is reached only by exact arithmetic on the true prefactors); 'main': a main-family Hamiltonian times
        a global factor.  The prefactors of one Hamiltonian stay within a few orders of magnitude of each other, so the
        numerical operator Schmidt rank (relative threshold) is well defined."""
        out = []
        for k in range(ctx.scale(48, 400) * budget_scale):
            scale, stag = _rand_scale(rng)
            if rng.random() < 0.4:
                case = self._random_case(rng, random_children(rng, rng.choice([2, 3, 3, 4, 4, 5, 6])), cap, 70000 + k, coefmodes=("unit", "frac", "frac", "sym"),
                                         p_product=0.7)
                if case is None:
                    continue
                if stag == "1":
                    scale, stag = Fraction(10) ** rng.choice([-9, -7, 7, 9]), "1e+-7/9"
                for t in case["terms"]:
                    f = term_frac(t) * scale
                    t[0], t[1] = f.numerator, f.denominator
                case.update(struct="scaled:" + case["struct"], scale=stag, entries="small")
                out.append(case)
                continue
            ch = rng.choice([[[1], []], [[1], [2], []], [[1, 2], [], []], [[1], [2, 3], [], []]]) if rng.random() < 0.6 else \
                random_children(rng, rng.choice([3, 4, 5]))
            n = len(ch)
            phys = [3] * n
            while int(np.prod(phys)) > cap:
                phys[rng.randrange(n)] = 2
            three = [i for i in range(n) if phys[i] == 3]
            if len(three) < 2:
                continue
            u, v = rng.sample(three, 2)
            for i in range(n):
                if i not in (u, v) and rng.random() < 0.3:
                    phys[i] = rng.choice([1, 2])
            r, c = rng.choice([2, 3, 3, 4, 5]), rng.choice([2, 3, 3, 4, 5, 6])
            kk = rng.randrange(1, min(r, c)) if min(r, c) > 1 else 1
            kk = min(kk, 3)
            mode = rng.choice(["bigden", "bigden", "primeden", "primeden", "dyadic", "decimal", "small"])
            pz = rng.choice([0.0, 0.0, 0.2])
            X = [[Fraction(0) if rng.random() < pz else _rand_rational(rng, mode) for _ in range(kk)] for _ in range(r)]
            Y = [[Fraction(0) if rng.random() < pz else _rand_rational(rng, mode) for _ in range(c)] for _ in range(kk)]
            G = [[sum(X[i][l] * Y[l][j] for l in range(kk)) * scale for j in range(c)] for i in range(r)]
            terms = [[G[i][j].numerator, G[i][j].denominator, "1", [[u, f"A{i}_3"], [v, f"A{j}_3"]]]
                     for i in range(r) for j in range(c) if G[i][j] != 0]
            if len(terms) < 2:
                continue
            if rng.random() < 0.3:            # further terms elsewhere, prefactors of the same order of magnitude
                others = [i for i in range(n) if i not in (u, v) and phys[i] > 1]
                for i in others:
                    if rng.random() < 0.6:
                        f = _rand_rational(rng, mode) * scale
                        ops = [[i, f"A{rng.randrange(3)}_{phys[i]}"]]
                        if rng.random() < 0.5:
                            ops.append([u, f"A{rng.randrange(r)}_3"])
                        if ops not in [t[3] for t in terms]:
                            terms.append([f.numerator, f.denominator, "1", ops])
            rng.shuffle(terms)
            case = {"kind": "ham", "method": "SGE", "children": ch, "phys": phys, "terms": terms, "nlabels": 6, "coefmode": "frac", "dupmode": "none",
                    "struct": "scaled:lowrank", "labelset": "std", "scale": stag, "entries": mode, "seed": rng.randrange(10 ** 6), "group": 70000 + k}
            if case_features(case)["same_string"]:
                continue
            out.append(case)
        return out

    # [str7-C12] ------------------------------------------------------------------------------------------------------
    def _grown_cases(self, ctx, rng, cap, budget_scale):
        """Hamiltonian objects assembled in steps with the public interface (constructor in every documented input form, add_term,
        add_multiple_terms, add_hamiltonian, `+` / `+=` with a Hamiltonian or a TensorProduct, rejected additions), TTNOs built in
        between on the same tree object; identity / constant-offset terms (empty support).  Numeric prefactors only."""
        out = []
        for k in range(ctx.scale(90, 900) * budget_scale):
            g = 80000 + k
            ch = random_children(rng, rng.choice([2, 3, 3, 4, 4, 5, 5, 6]))
            case = self._random_case(rng, ch, cap, g if g % 10 != 3 else g + 1, coefmodes=("unit", "unit", "frac"), p_product=0.5)
            if case is None or any(t[2] != "1" for t in case["terms"]):
                continue
            terms = case["terms"]
            offset = rng.random() < 0.35
            if offset:                # the identity / a constant offset: a term without any operator
                f = Fraction(1) if rng.random() < 0.6 else Fraction(rng.choice([2, -1, 3, -2, 5, 1]), rng.choice([1, 2, 3]))
                terms.insert(rng.choice([0, 0, len(terms), rng.randrange(len(terms) + 1)]), [f.numerator, f.denominator, "1", []])
            if rng.random() < 0.08:
                terms[:] = [t for t in terms if not t[3]] or terms[:1]        # the offset (or one term) alone
            if case_features(case)["same_string"]:
                continue
            n = len(terms)
            # consecutive chunks: the constructor's share (possibly none), then the additions
            first = rng.choice([0, 1, 1, 1, 2, max(1, n // 2), max(1, n - 1), n])
            first = min(first, n)
            sizes, left = [first], n - first
            while left > 0:
                m = rng.choice([1, 1, 1, 2, 3, left])
                m = min(m, left)
                sizes.append(m)
                left -= m
            grow, pos = [], 0
            for j, m in enumerate(sizes):
                chunk = terms[pos:pos + m]
                pos += m
                if j == 0:
                    step = {"op": "ctor", "form": rng.choice(ctor_forms(chunk)), "n": m}
                    pb = 0.85
                else:
                    op, form = rng.choice(grow_ops(chunk))
                    step = {"op": op, "form": form, "n": m}
                    pb = 0.45
                if rng.random() < pb:
                    step["build"] = rng.choice(["SGE", "SGE", "SGE", "SGE", "BIPARTITE", "BASE", "TREE"])
                grow.append(step)
                if rng.random() < 0.15:          # an addition that adds nothing / is rejected, in between
                    op, form = rng.choice(grow_ops([]))
                    grow.append({"op": op, "form": form, "n": 0})
            case.update(grow=grow, struct="grown:" + case["struct"] + ("+offset" if offset else ""))
            if rng.random() < 0.25:
                case.update(proc="fresh", hist="first")
            out.append(case)
        return out

    def _history_cases(self, ctx, rng, cap, budget_scale):
        """process histories (the property holds for every construction of a program, whatever the process did before):
        "proc": "fresh" cases run in a process forked from a pristine zygote (library imported, nothing constructed)
          * first:   a case of the main family as the very first construction of a process
          * history: 1..3 earlier constructions (methods SGE / BIPARTITE / BASE / TREE, their own trees and Hamiltonians)
                     in the same process, then the judged SGE construction
          * hub:     many terms (6..160) with up to 6 operator labels per site on trees with a node of >= 3 neighbours
                     (stars, spiders, random trees), as first construction or after a history: large diagrams, hundreds of
                     vertices and hyperedges meeting at one node"""
        out = []
        sizes = [2, 3, 3, 4, 4, 5, 5, 6, 7]
        for k in range(ctx.scale(24, 300) * budget_scale):
            case = self._random_case(rng, random_children(rng, rng.choice(sizes)), cap, 30000 + k)
            if case is None:
                continue
            case.update(proc="fresh", hist="first")
            out.append(case)
        for k in range(ctx.scale(40, 600) * budget_scale):
            # three quarters of the judged Hamiltonians: some edge where the rank is below the vertex cover of the raw
            # coefficient matrix (the elimination itself is needed for minimality), by rejection sampling
            want_gain = rng.random() < 0.75
            for _try in range(12):
                case = self._random_case(rng, random_children(rng, rng.choice(sizes)), cap, 40000 + k, p_product=0.7)
                if case is not None and (not want_gain or elimination_gain(case) > 0):
                    break
            if case is None:
                continue
            case.update(proc="fresh", hist="history", history=self._random_history(rng, cap, case))
            out.append(case)
        for k in range(ctx.scale(30, 400) * budget_scale):
            case = self._hub_case(rng, 50000 + k, ctx.scale(250, 500))
            if case is None:
                continue
            case.update(proc="fresh", hist="first")
            if rng.random() < 0.2:
                case.update(hist="history", history=self._random_history(rng, cap, case))
            out.append(case)
        return out

    def _random_history(self, rng, cap, case):
        hist = []
        for _ in range(rng.choice([1, 1, 2, 3])):
            if rng.random() < 0.3:         # the same tree and Hamiltonian built with another method first
                h = {k: copy.deepcopy(case[k]) for k in ("children", "phys", "terms", "nlabels", "seed") if k in case}
                if "labelset" in case:
                    h["labelset"] = case["labelset"]
            else:
                h = None
                while h is None:
                    h = self._random_case(rng, random_children(rng, rng.choice([2, 3, 4, 4, 5, 6])), cap, 0, coefmodes=("unit", "frac", "sym"))
                h = {k: h[k] for k in ("children", "phys", "terms", "nlabels", "seed", "labelset")}
            h["method"] = rng.choice(["SGE", "BIPARTITE", "BIPARTITE", "BASE", "TREE"])
            hist.append(h)
        return hist

    @staticmethod
    def _hub_case(rng, g, cap):
        """many distinct terms around a node with >= 3 neighbours; up to 6 labels per site (<= d^2 - 1)"""
        shape = rng.choice(["star", "star", "star", "spider", "random"])
        if shape == "random":
            for _ in range(50):
                ch = random_children(rng, rng.choice([4, 5, 5, 6]))
                par = parents_of(ch)
                if any(len(ch[i]) + (par[i] is not None) >= 3 for i in range(len(ch))):
                    break
            else:
                return None
        else:
            k = rng.choice([3, 3, 3, 4])
            ch = [list(range(1, k + 1))] + [[] for _ in range(k)]
            if shape == "spider":
                for leaf in range(1, k + 1):
                    if rng.random() < 0.35 and len(ch) < 6:
                        ch.append([])
                        ch[leaf].append(len(ch) - 1)
            rng.shuffle(ch[0])
            if rng.random() < 0.2:        # re-root at a leaf: the hub is then an inner node with a parent
                ch = [[1]] + [[c + 1 for c in cs] for cs in ch]
        n = len(ch)
        phys = [3] * n if rng.random() < 0.5 else [rng.choice([2, 3, 3, 3]) for _ in range(n)]
        par = parents_of(ch)
        silent = set()                   # branching nodes without a physical operator (as in T3NS-like layouts): dimension
        for i in range(n):               # 1, or a physical leg that no term acts on
            if len(ch[i]) + (par[i] is not None) >= 3 and rng.random() < 0.65:
                phys[i] = rng.choice([1, 1, 2])
                silent.add(i)
        while int(np.prod(phys)) > cap:
            i = max(range(n), key=lambda q: (phys[q], rng.random()))
            phys[i] -= 1
        nlab = rng.choice([3, 6, 6, 6])
        T = rng.choice([6, 20, 40, 60, 80, 100, 120, 160])
        ptouch = rng.choice([0.7, 0.9, 1.0])
        coefmode = rng.choice(["unit", "unit", "frac"])
        seen, terms, tries = set(), [], 0
        while len(terms) < T and tries < 10 * T:
            tries += 1
            ops = []
            for s_ in range(n):
                d = phys[s_]
                if d > 1 and s_ not in silent and rng.random() < ptouch:
                    ops.append([s_, f"A{rng.randrange(min(nlab, d * d - 1))}_{d}"])
            key = tuple(sorted(map(tuple, ops)))
            if not ops or key in seen:
                continue
            seen.add(key)
            rng.shuffle(ops)
            fr = Fraction(1) if coefmode == "unit" else Fraction(rng.choice([1, 2, -1, 3, -2, 5]), rng.choice([1, 1, 2, 3]))
            terms.append([fr.numerator, fr.denominator, "1", ops])
        if len(terms) < 2:
            return None
        return {"kind": "ham", "method": "SGE", "children": ch, "phys": phys, "terms": terms, "nlabels": nlab, "coefmode": coefmode,
                "dupmode": "none", "struct": "hub", "labelset": "std", "seed": rng.randrange(10 ** 6), "group": g}

    @staticmethod
    def _random_case(rng, ch, cap, g, coefmodes=("unit", "unit", "frac", "sym", "sym", "symshared"), p_product=0.45):
        """one (tree, distinct-term Hamiltonian) of the main family on the tree `ch`"""
        n = len(ch)
        phys = random_phys(rng, n, cap)
        if all(d == 1 for d in phys):
            phys[rng.randrange(n)] = 2
        coefmode = rng.choice(list(coefmodes))
        nterms = 1 if g % 10 == 3 else rng.choice([1, 2, 3, 3, 4, 4, 5, 6, 7, 8])
        product = rng.random() < p_product
        amb = rng.random() < 0.15         # operator names with ambiguous concatenations (n, nn, nnn) on the dimension-2 sites
        if amb:
            phys = [min(d, 2) for d in phys]
        gamma = rng.random() < 0.2        # random symbolic coefficient matrix across one edge (see c01.gamma_terms)
        if gamma:
            coefmode = "sym"
        terms = random_terms(rng, phys, nterms, coefmode, "none", rng.choice([1, 2, 3]), distinct_strings=True, physical_only=True,
                             product=product, amb=(ch if amb else None), gamma_on=(ch if gamma else None))
        if not terms:
            return None
        struct = ("gamma+product" if product else "gamma") if gamma else ("product" if product else "random")
        return {"kind": "ham", "method": "SGE", "children": ch, "phys": phys, "terms": terms, "nlabels": 3, "coefmode": coefmode,
                "dupmode": "none", "struct": struct, "labelset": "amb" if amb else "std", "seed": rng.randrange(10 ** 6), "group": g}

    def nontrivial(self, case):
        return any(certificate(case, c)["r"] >= 2 for c in range(1, len(case["children"])))

    def distribution(self, cases):
        c = Counter()
        for x in cases:
            c[f"nodes:{len(x['children'])}"] += 1
            c[f"terms:{len(x['terms'])}"] += 1
            c["coef:" + x["coefmode"]] += 1
            c["struct:" + x.get("struct", "random")] += 1
            c["labels:" + x.get("labelset", "std")] += 1
            c["has_dim1_node"] += 1 in x["phys"]
            if x.get("labelmap"):
                c["spelling:" + x.get("spell", "?")] += 1
            if "scale" in x:
                c["global_scale:" + x["scale"]] += 1
                c["entries:" + x.get("entries", "small")] += 1
            dd = max(len(str(abs(t[1]))) for t in x["terms"])
            c["max_denominator_digits:" + ("1" if dd == 1 else "2-6" if dd <= 6 else "7-12" if dd <= 12 else "13-30" if dd <= 30 else ">30")] += 1
            c["process:" + ("shared with the earlier cases of the run" if x.get("proc") != "fresh" else
                            "pristine, first construction" if not x.get("history") else "pristine, after a history")] += 1
            for h in x.get("history", []):
                c["history_method:" + h["method"]] += 1
            for st in x.get("grow", []):
                c["grow_op:" + st["op"] + (":" + st["form"] if st["op"] == "ctor" else "")] += 1
                if st["op"] != "ctor" and st.get("form") in ("none", "default", "empty_list", "list", "list_tp", "list_mixed", "bare_tp", "triple"):
                    c["added_hamiltonian_form:" + st["form"]] += 1
                if st.get("build"):
                    c["grow_intermediate_build:" + st["build"]] += 1
            if x.get("grow"):
                c["grown_hamiltonians"] += 1
                c["with_empty_support_term"] += any(not t[3] for t in x["terms"])
            if x.get("history"):
                c[f"history_len:{len(x['history'])}"] += 1
            for e in range(1, len(x["children"])):
                c[f"edge_rank:{certificate(x, e)['r']}"] += 1
        return dict(c)

    # ------------------------------------------------------------------------------ implementation
    def _impl_one(self, case):
        if case.get("proc") == "fresh":
            # the case names its whole process history: run it in a process forked from a zygote that has imported the
            # library and constructed nothing (module-level state exactly as after `import pytreenet`)
            return zygote_run(case)
        return self._impl_core(case)

    def _impl_core(self, case):
        ob = {}
        assert not case_features(case)["same_string"], "harness: C12 needs pairwise distinct operator strings"
        if case.get("history"):
            ob["history"] = run_history(case["history"])
        ttns = build_ref(case)
        if case.get("grow"):
            # [str7-C12] the Hamiltonian is assembled step by step (TTNOs built in between on the same tree object `ttns`)
            try:
                ham = grow_ham(case, ttns, ob)
            except Exception as e:  # noqa
                site = traceback.extract_tb(e.__traceback__)[-1].name
                ob["exception"] = f"while the Hamiltonian was assembled: {type(e).__name__}: {e} [in {site}]"
                ob["tb"] = traceback.format_exc()[-1200:]
                ob["sge_calls"] = []
                return ob
        else:
            ham = build_ham_c12(case)
        ch = case["children"]
        pre = preorder(ch)
        ids = [nid(i) for i in pre]
        dims = {nid(i): case["phys"][i] for i in range(len(ch))}
        captured = {}
        # every symbolic Gaussian elimination the pipeline performs (input matrix, result), for the call-path tie with SGE/Model.v
        import pytreenet.ttno.state_diagram as sdm
        calls = []
        orig_ge = sdm.gaussian_elimination

        def rec_ge(G, *a, **kw):
            gin = copy.deepcopy(G)
            try:
                res = orig_ge(G, *a, **kw)
            except Exception as e:  # noqa
                calls.append((gin, e))
                raise
            calls.append((gin, copy.deepcopy(res)))
            return res
        sdm.gaussian_elimination = rec_ge
        try:
            with spy_state_diagram(captured):
                ttno = TTNO.from_hamiltonian(ham, ttns, finder("SGE"))
        except Exception as e:  # noqa
            ob["sge_calls"] = sge_calls_encoded(calls)
            site = traceback.extract_tb(e.__traceback__)[-1].name
            ob["exception"] = f"{type(e).__name__}: {e} [in {site}]"
            ob["tb"] = traceback.format_exc()[-1200:]
            return ob
        finally:
            sdm.gaussian_elimination = orig_ge
        ob["sge_calls"] = sge_calls_encoded(calls)
        bd = ttno.bond_dims()
        par = parents_of(ch)
        ob["bond"] = {}
        for c in range(1, len(ch)):
            key = (nid(par[c]), nid(c))
            ob["bond"][str(c)] = int(bd[key]) if key in bd else None
        if "sd" in captured:
            ex = export_sd(captured["sd"], case)
            if not ex["malformed"]:
                _pos, cnt = export_positions(ex, case)
                ob["nvert"] = {str(c): cnt[c] for c in range(1, len(ch))}
        # exactness (C01's oracle) — a minimal but wrong operator must not pass
        # (grown Hamiltonians: the reference is computed from the case's terms, not from the object the library worked on)
        ref = dense_terms(case, case["terms"], pre) if case.get("grow") else util.dense_ham(ham, ids, dims)
        from props.c01 import dense_ttno
        dev = float(np.max(np.abs(dense_ttno(ttno, ids) - ref)))
        ob["exact_dev"] = dev / max(1.0, float(np.max(np.abs(ref))))
        # [str5-C12] relative to the size of the reference itself (Hamiltonians with tiny or huge prefactors)
        ob["exact_rel"] = dev / float(np.max(np.abs(ref))) if float(np.max(np.abs(ref))) > 0 else dev
        dl = [dims[i] for i in ids]
        ob["schmidt"] = {}
        for c in range(1, len(ch)):
            A = [pre.index(v) for v in subtree_nodes(ch, c)]
            ob["schmidt"][str(c)] = list(schmidt_rank(ref, dl, sorted(A)))
        return ob

    def impl(self, ctx, cases):
        out = [None] * len(cases)
        fresh = [k for k, c in enumerate(cases) if c.get("proc") == "fresh"]
        if len(fresh) > 1:
            # every such case runs in its own pristine process, so they can run side by side (one zygote per slot)
            import queue
            from concurrent.futures import ThreadPoolExecutor
            slots = queue.Queue()
            for s_ in range(ZYG_SLOTS):
                slots.put(s_)

            def run(k):
                s_ = slots.get()
                try:
                    return k, zygote_run(cases[k], s_)
                finally:
                    slots.put(s_)
            with ThreadPoolExecutor(ZYG_SLOTS) as ex:
                for k, ob in ex.map(run, fresh):
                    out[k] = ob
        for k, c in enumerate(cases):
            if out[k] is not None:
                continue
            try:
                out[k] = self._impl_one(c)
            except Exception as e:  # noqa
                out[k] = {"harness_error": f"{type(e).__name__}: {e}", "tb": traceback.format_exc()[-1500:]}
        return out

    # ------------------------------------------------------------------------------ model
    def model(self, ctx, cases, obs):
        exprs, owner = [], []
        certs = []
        untied = set()
        for k, c in enumerate(cases):
            cc = {}
            if c.get("struct") == "hub" and len(c["terms"]) > HUB_TIE_MAX and not ctx.thorough():
                # quick tier: the biggest many-term cases are judged by the property oracle only (no certificates, no
                # call-path tie: their matrices dominate the Coq evaluation time); the thorough tier ties all of them
                untied.add(k)
                certs.append(cc)
                continue
            for e in range(1, len(c["children"])):
                ce = certificate(c, e)
                cc[e] = ce
                M = ce["M"]
                args = (f"{coq_mat(M)} {coq_nat(len(M))} {coq_nat(len(M[0]))} {coq_list(ce['rs'], coq_nat)} "
                        f"{coq_list(ce['cs'], coq_nat)}")
                if ce["r"] <= DET_MAX:
                    exprs.append(f"rank_case {args} {coq_mat(ce['B'])}")
                else:
                    # the determinant cross-check is a Laplace expansion (exponential): for big minors only the certificate
                    # itself (min_cert, the hypothesis of min_cert_sound; polynomial) is evaluated
                    ce["nodet"] = True
                    exprs.append(f"(shape_ok {coq_mat(M)} {coq_nat(len(M))} {coq_nat(len(M[0]))}, min_cert {args} {coq_mat(ce['B'])}, (1%Z, 1%positive))")
                owner.append((k, e))
            certs.append(cc)
        # shards are consecutive groups of 60 expressions evaluated in parallel: deal the expressions out by size so that
        # the big certificates (many-term cases) do not end up in one shard
        order = _balanced_order([len(x) for x in exprs], 60)
        vals_p = coq_eval(ctx, IMPORTS, [exprs[i] for i in order], shard=60)
        vals = [None] * len(exprs)
        for i, v in zip(order, vals_p):
            vals[i] = v
        out = [dict() for _ in cases]
        n = ok = 0
        fails = []
        for (k, e), v in zip(owner, vals):
            n += 1
            ce = certs[k][e]
            if isinstance(v, BaseException):
                out[k][e] = {"error": str(v)[:300]}
                fails.append(f"certificate not evaluated: {str(v)[:200]}")
                continue
            shape_ok, cert_ok, det = v
            out[k][e] = {"r": ce["r"], "shape_ok": shape_ok, "cert_ok": cert_ok, "det": Fraction(det[0], det[1]),
                         "det_py": Fraction(1) if ce.get("nodet") else ce["det"]}
            if shape_ok and cert_ok:
                ok += 1
            else:
                fails.append(f"certificate rejected for edge {e} of {cases[k]}")
        # call-path tie: SGE/Model.v (the model C13 ties to gaussian_elimination on its own inputs) on every matrix the pipeline
        # handed to gaussian_elimination while building these TTNOs
        from props import c13
        lits, where = [], []
        for k, ob in enumerate(obs):
            if isinstance(ob, dict) and k not in untied:
                for j, (lit, enc, _m) in enumerate(ob.get("sge_calls", [])):
                    if lit is not None:
                        lits.append(lit)
                        where.append((k, j))
        self._sge_agree = {}
        self._sge_model = {}
        self._sge_by_hash = {}
        self._sge_stats = [len(lits), 0]
        if lits:
            order = _balanced_order([len(x) for x in lits], 100)
            lits_p = [lits[i] for i in order]
            exprs = [("ge_list [" + ";\n ".join(lits_p[i:i + 100]) + "]", len(lits_p[i:i + 100])) for i in range(0, len(lits_p), 100)]
            vals = c13._coq_eval_ostr(ctx, exprs, 400)
            flat = []
            for v, (e, w) in zip(vals, exprs):
                flat += ([v] * w) if isinstance(v, BaseException) else (list(v) if len(v) == w else [RuntimeError("count mismatch")] * w)
            for i, mv in zip(order, flat):
                k, j = where[i]
                self._sge_model.setdefault(k, {})[j] = mv
        for k, ob in enumerate(obs):
            if isinstance(ob, dict) and "sge_calls" in ob and k not in untied:
                agree = True
                for j, (lit, enc, _m) in enumerate(ob["sge_calls"]):
                    mv = self._sge_model.get(k, {}).get(j)
                    if lit is None or isinstance(mv, BaseException) or mv != enc:
                        agree = False
                    else:
                        self._sge_stats[1] += 1
                self._sge_agree[lib.case_hash(cases[k])] = agree
                self._sge_by_hash[lib.case_hash(cases[k])] = self._sge_model.get(k, {})
        n += self._sge_stats[0]
        ok += self._sge_stats[1]
        if self._sge_stats[1] < self._sge_stats[0]:
            fails.append(f"{self._sge_stats[0] - self._sge_stats[1]} gaussian_elimination call(s) of the pipeline differ from SGE/Model.v (see the correspondence detail)")
        self._inst = (n, ok, fails[:3])
        for k in untied:
            out[k] = None
        return out

    def extra_obligations(self, ctx):
        return self._inst

    # ------------------------------------------------------------------------------ tie
    def compare(self, case, ob, mo):
        if "harness_error" in ob:
            return f"harness error: {ob['harness_error']}"
        sge = getattr(self, "_sge_by_hash", {}).get(lib.case_hash(case), {})
        for j, (lit, enc, mat) in enumerate(ob.get("sge_calls", [])):
            mv = sge.get(j)
            if lit is None:
                return f"pipeline call {j} of gaussian_elimination: {enc}"
            if isinstance(mv, BaseException):
                return f"pipeline call {j} of gaussian_elimination: model not evaluated: {str(mv)[:200]}"
            if mv != enc:
                from props import c13
                return (f"pipeline call {j} of gaussian_elimination on {mat}: implementation "
                        f"{c13.dec_result(enc) if not enc.startswith('EXC') else enc} ; model {c13.dec_result(mv)}")
        for e, m in mo.items():
            if "error" in m:
                return f"edge {e}: certificate not evaluated: {m['error']}"
            if not (m["shape_ok"] and m["cert_ok"]):
                return f"edge {e}: min_cert rejects the harness's minor (r={m['r']})"
            if m["det"] != m["det_py"] or m["det"] == 0:
                return f"edge {e}: determinant of the minor: Coq {m['det']}, harness {m['det_py']}"
        if "exception" in ob:
            return None
        for e, m in mo.items():
            b = ob["bond"].get(str(e))
            if b != max(m["r"], 1):
                return f"edge (parent, n{e}): bond dimension {b}, certified rank of Gamma_e is {m['r']}"
            if "nvert" in ob and ob["nvert"][str(e)] != b:
                return f"edge (parent, n{e}): bond dimension {b} but the diagram has {ob['nvert'][str(e)]} vertices"
            sr = ob["schmidt"][str(e)][0]
            if sr != m["r"]:
                return f"edge (parent, n{e}): certified rank {m['r']} (primes) differs from the numerical Schmidt rank {sr}"
        return None

    # ------------------------------------------------------------------------------ oracle
    def oracle(self, case, ob):
        if "harness_error" in ob:
            return None
        for st in ob.get("stages", []):          # [str7-C12] SGE constructions while the Hamiltonian was being assembled
            if st["method"] != "SGE":
                continue
            where = f"construction after {st['after']} with {st['nterms']} of the terms: "
            if "exception" in st:
                return where + f"raised {st['exception']}"
            if st["exact_dev"] > 1e-9 or st["exact_rel"] > 1e-9:
                return where + f"the SGE TTNO is not exact (relative deviation {st['exact_rel']})"
            for e in range(1, len(case["children"])):
                r, kept, dropped = st["schmidt"][str(e)]
                if st["bond"][str(e)] != max(r, 1):
                    return where + (f"edge (n{parents_of(case['children'])[e]}, n{e}): bond dimension {st['bond'][str(e)]}, operator Schmidt rank {r} "
                                    f"(singular value ratios kept {kept:.2e} dropped {dropped:.2e})")
        if "exception" in ob:
            return f"raised {ob['exception']}"
        if ob["exact_dev"] > 1e-9:
            lost = (f"; the assembled Hamiltonian object holds {ob.get('nterms_seen')} terms, {len(case['terms'])} were given"
                    if case.get("grow") and ob.get("nterms_seen") != len(case["terms"]) else "")
            return f"the SGE TTNO is not exact (relative deviation {ob['exact_dev']})" + lost
        if ob.get("exact_rel", 0.0) > 1e-9:
            return f"the SGE TTNO is not exact (relative deviation {ob['exact_rel']}, relative to the largest entry of H)"
        for e in range(1, len(case["children"])):
            r, kept, dropped = ob["schmidt"][str(e)]
            b = ob["bond"][str(e)]
            if b != max(r, 1):
                return (f"edge (n{parents_of(case['children'])[e]}, n{e}): bond dimension {b}, operator Schmidt rank {r} "
                        f"(singular value ratios kept {kept:.2e} dropped {dropped:.2e})")
            if len(case["terms"]) == 1 and b != 1:
                return f"single-term Hamiltonian with bond dimension {b} on edge to n{e}"
        return None

    def classify(self, case, what, known):
        """C12-symbolic-suboptimal (proposed): an exact SGE TTNO whose bond on some edge EXCEEDS the rank, for a Hamiltonian with
        at least two different coefficient symbols other than "1": the symbolic elimination cannot combine rows/columns that carry
        different symbols.  A bond below the rank, an inexact operator or an exception is never attributed."""
        if getattr(self, "_sge_agree", {}).get(lib.case_hash(case)) is False:
            # some gaussian_elimination call of this construction did NOT behave like the model of the unchanged algorithm:
            # whatever is wrong here is not one of the recorded findings
            return None
        nsym = len({t[2] for t in case["terms"]})      # the unit "1" counts: a symbol next to rational coefficients is enough
        kc = "C12-sge-symbolic-crash"
        if kc in known and nsym >= 2 and "raised IndexError: list index out of range [in _remove_reduntant_v_hyperedges]" in what:
            keys = [(t[0], t[1], t[2], tuple(sorted(map(tuple, t[3])))) for t in case["terms"]]
            if len(set(keys)) == len(keys):
                return kc
        ki = "C12-sge-symbolic-inexact"
        if ki in known and nsym >= 2:
            keys = [(t[0], t[1], t[2], tuple(sorted(map(tuple, t[3])))) for t in case["terms"]]
            import re as _re
            mm = _re.search(r"bond dimension (\d+), (?:operator Schmidt rank|certified rank of Gamma_e is) (\d+)", what)
            if len(set(keys)) == len(keys) and ("the SGE TTNO is not exact" in what or (mm and int(mm.group(1)) < int(mm.group(2)))):
                return ki
        kid = "C12-symbolic-suboptimal"
        # at least two different symbols OTHER than the unit "1" (the witness has g1, g2, g3): a Hamiltonian with unit/rational
        # coefficients and at most one symbol is always eliminated optimally by the unchanged code
        if kid not in known or len({t[2] for t in case["terms"]}) < 2:
            return None
        import re
        m = re.search(r"bond dimension (\d+), (?:operator Schmidt rank|certified rank of Gamma_e is) (\d+)", what)
        if m and int(m.group(1)) > int(m.group(2)):
            return kid
        return None

    def shrink(self, ctx, case, pred):
        """smaller failing input of the same kind: drop earlier constructions of the history, then blocks of terms (the terms
        stay pairwise distinct), as long as the case still fails with a violation that is not a known finding"""
        import time
        t0, budget = time.time(), [120]

        def fails(c):
            if budget[0] <= 0 or time.time() - t0 > 60:
                return False
            budget[0] -= 1
            try:
                return bool(pred(c))
            except Exception:  # noqa
                return False
        cur = copy.deepcopy(case)
        hist = cur.get("history") or []
        i = 0
        while i < len(hist):
            cand = dict(cur, history=hist[:i] + hist[i + 1:])
            if fails(cand):
                cur, hist = cand, cand["history"]
            else:
                i += 1
        if cur.get("grow"):
            # [str7-C12] grown Hamiltonians: drop whole steps with their terms, then intermediate constructions
            j = 1
            while j < len(cur["grow"]):
                st = cur["grow"][j]
                a = sum(x["n"] for x in cur["grow"][:j])
                cand = dict(cur, grow=cur["grow"][:j] + cur["grow"][j + 1:], terms=cur["terms"][:a] + cur["terms"][a + st["n"]:])
                if cand["terms"] and fails(cand):
                    cur = cand
                else:
                    j += 1
            for j in range(len(cur["grow"])):
                if cur["grow"][j].get("build"):
                    g2 = copy.deepcopy(cur["grow"])
                    del g2[j]["build"]
                    cand = dict(cur, grow=g2)
                    if fails(cand):
                        cur = cand
            return cur
        block = len(cur["terms"]) // 2
        while block >= 1:
            i = 0
            while i < len(cur["terms"]) and len(cur["terms"]) > 1:
                cand = dict(cur, terms=cur["terms"][:i] + cur["terms"][i + block:])
                if cand["terms"] and fails(cand):
                    cur = cand
                else:
                    i += block
            block //= 2
        return cur

    def sample_repr(self, case):
        return case
