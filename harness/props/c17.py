"""C17 — tree navigation and the TDVP sweep order are correct on every rooted tree."""
from __future__ import annotations

import collections
import copy
from fractions import Fraction

from lib import Prop, coq_eval, coq_nat, coq_list, coq_opt, SkipCase
import util

IMPORTS = ("From Coq Require Import List Arith Bool ZArith. "
           "From PTN Require Import Tree.RTree Tree.Nav Tree.UpdatePath Tree.CachePath. Import ListNotations.")

# comparison helpers evaluated by Coq (harness side only, not part of the development)
PRELUDE = """
Fixpoint leqb {A} (e : A -> A -> bool) (a b : list A) : bool :=
  match a, b with [], [] => true | x :: a', y :: b' => e x y && leqb e a' b' | _, _ => false end.
Definition oeqb {A} (e : A -> A -> bool) (a b : option A) : bool :=
  match a, b with Some x, Some y => e x y | None, None => true | _, _ => false end.
Definition peqb (a b : nat * nat) : bool := Nat.eqb (fst a) (fst b) && Nat.eqb (snd a) (snd b).
Definition lneq := leqb Nat.eqb.
Definition lpeq := leqb peqb.
Definition cseq (a b : list nat * list (nat * nat)) : bool := lneq (fst a) (fst b) && lpeq (snd a) (snd b).
(* indices (first 4) of the inputs where the model value differs from the expected one *)
Definition mism {A B} (f : A -> B) (e : B -> B -> bool) (xs : list (A * B)) : list nat :=
  firstn 4 (map fst (filter (fun ix => negb (e (f (fst (snd ix))) (snd (snd ix)))) (combine (seq 0 (length xs)) xs))).
"""


def nid(s):
    return int(s[1:])


def sid(i):
    return f"n{i}"


def cn(i):
    return f"{int(i)}%nat"


def cl(xs):
    return coq_list(xs, cn)


def cpairs(xs):
    return coq_list(xs, lambda p: f"({cn(p[0])}, {cn(p[1])})")


def copt(x, f):
    return "None" if x is None else f"(Some {f(x)})"


# ---- case construction --------------------------------------------------------------------
def random_parents_shaped(rng, n, shape):
    par = [None]
    for i in range(1, n):
        if shape == "uniform":
            p = rng.randrange(0, i)
        elif shape == "deep":          # long paths with occasional branches
            p = i - 1 if rng.random() < 0.75 else rng.randrange(0, i)
        elif shape == "bushy":         # prefer old nodes
            p = min(rng.randrange(0, i), rng.randrange(0, i))
        elif shape == "chainroot":     # the root has exactly one child
            p = 0 if i == 1 else rng.randrange(1, i)
        elif shape == "binary":
            p = (i - 1) // 2
        elif shape == "ties":          # several leaves of equal maximal depth
            p = max(0, i - rng.choice([1, 2, 3]))
        else:
            p = rng.randrange(0, i)
        par.append(p)
    return par


LARGE_SHAPES = ["uniform", "bushy", "binary", "chainroot", "spine", "broom", "ties", "ternary-chains"]
LARGE_FULL_TIE = 128      # up to this many nodes every table of a case is tied exactly
LARGE_TIE_QUICK, LARGE_TIE_THOROUGH = 256, 420     # beyond: judged by the graph-search oracle only
LARGE_BANDS = [(41, 100), (101, 256), (257, 420), (421, 700), (701, 1200)]


def random_parents_large(rng, n, shape, maxdepth=110):
    """shaped random tree with MANY nodes; the depth is capped (the library's recursive queries and the literal printer
    recurse once per level)."""
    par, depth = [None], [0]
    arms = rng.choice([2, 3, 5, 8])
    for i in range(1, n):
        if shape == "uniform":
            p = rng.randrange(0, i)
        elif shape == "bushy":
            p = min(rng.randrange(0, i), rng.randrange(0, i))
        elif shape == "binary":
            p = (i - 1) // 2
        elif shape == "chainroot":
            p = 0 if i == 1 else rng.randrange(1, i)
        elif shape == "spine":          # long paths with branches that grow their own sub-branches
            p = i - 1 if rng.random() < 0.7 else rng.randrange(0, i)
        elif shape == "broom":          # a handle, then a bush
            p = i - 1 if i < min(n // 3, maxdepth // 2) else rng.randrange(max(0, min(n // 3, maxdepth // 2) - 1), i)
        elif shape == "ties":
            p = max(0, i - rng.choice([1, 2, 3, 4, 7]))
        else:                           # several long arms below the root, each with side twigs
            p = 0 if i <= arms else (i - arms if rng.random() < 0.8 else rng.randrange(0, i))
        if depth[p] + 1 > maxdepth:
            p = rng.choice([j for j in range(i) if depth[j] < maxdepth // 2])
        par.append(p)
        depth.append(depth[p] + 1)
    return par


def topo_order(rng, par):
    """random attach order (parent before child): the library's children order and the key
    order of its node dictionary both follow it."""
    ch = util.children_of(par)
    order = [0]
    frontier = list(ch[0])
    while frontier:
        k = rng.randrange(len(frontier))
        c = frontier.pop(k)
        order.append(c)
        frontier.extend(ch[c])
    return order


def case_rtree(case):
    """(label, [children]) with the children in attach order — what the library must hold."""
    par, lab, order = case["parents"], case["labels"], case["attach"]
    ch = collections.defaultdict(list)
    for i in order:
        if par[i] is not None:
            ch[par[i]].append(i)

    def rec(i):
        return (lab[i], [rec(c) for c in ch[i]])
    return rec(0)


def graph_of(case):
    """undirected adjacency (labels), root label, parent map — from the case, not the library."""
    par, lab = case["parents"], case["labels"]
    adj = {lab[i]: [] for i in range(len(par))}
    parent = {}
    for i, p in enumerate(par):
        if p is not None:
            adj[lab[i]].append(lab[p])
            adj[lab[p]].append(lab[i])
            parent[lab[i]] = lab[p]
    return adj, lab[0], parent


def bfs(adj, src):
    dist = {src: 0}
    prev = {src: None}
    q = collections.deque([src])
    while q:
        u = q.popleft()
        for v in adj[u]:
            if v not in dist:
                dist[v] = dist[u] + 1
                prev[v] = u
                q.append(v)
    return dist, prev


def bfs_path(adj, a, b):
    _, prev = bfs(adj, b)      # prev pointers toward b
    p = [a]
    while p[-1] != b:
        p.append(prev[p[-1]])
    return p


# ---- TDVP object histories (kind "tdvp") ------------------------------------------------------
TDVP_SCHEMES = ["pre", "post", "revpost", "bfs", "attach"]
TDVP_OPS = [[], ["reset"], ["step", "reset"], ["step", "step", "reset"], ["run", "reset"],
            ["step", "reset", "step", "step", "reset"], ["run", "reset", "run", "reset"], ["reset", "step", "reset"]]


# operation lists of an object whose CURRENT state (tdvp.state) is later handed to a further object as its initial state
TDVP_SOURCE_OPS = [["step"], ["step", "step"], ["run"], ["step", "reset", "step"], ["reset", "run"], []]
PREPARE_HOW = ["canonical_form", "orthogonalize", "move", "move_chain"]


def random_prepare(rng, par):
    """a public preparation of the state BEFORE it is handed to the path finder / a TDVP object: bring it into canonical form
    with respect to a node (leaves of any depth, inner nodes, the root), directly or by moving the centre there."""
    n = len(par)
    inner = {p for p in par if p is not None}
    leaves = [i for i in range(n) if i not in inner]

    def pick():
        return rng.choice(leaves) if rng.random() < 0.6 else rng.randrange(n)
    return {"how": rng.choice(PREPARE_HOW), "node": pick(), "via": [pick() for _ in range(rng.randrange(1, 4))],
            "mode": rng.choice(["KEEP", "KEEP", "REDUCED"])}


def apply_prepare(ttns, prep, ident):
    """ident: node index -> identifier. canonical_form / orthogonalize at `node`; "move": canonical form at via[0], then
    move_orthogonalization_center to `node`; "move_chain": ... through all of `via` first."""
    from pytreenet.util.tensor_splitting import SplitMode
    mode = getattr(SplitMode, prep["mode"])
    how = prep["how"]
    if how == "canonical_form":
        ttns.canonical_form(ident(prep["node"]), mode=mode)
    elif how == "orthogonalize":
        ttns.orthogonalize(ident(prep["node"]), mode=mode)
    else:
        ttns.canonical_form(ident(prep["via"][0]), mode=mode)
        for x in (prep["via"][1:] if how == "move_chain" else []):
            ttns.move_orthogonalization_center(ident(x), mode=mode)
        ttns.move_orthogonalization_center(ident(prep["node"]), mode=mode)


def depth_profile(par):
    d = [0] * len(par)
    for i in range(1, len(par)):
        d[i] = d[par[i]] + 1      # parents precede children in every generator of this module
    return d


def ordered_children(par, order):
    ch = collections.defaultdict(list)
    for i in order:
        if par[i] is not None:
            ch[par[i]].append(i)
    return ch


def scheme_positions(par, order, scheme):
    """position of every node in a canonical traversal of the ORDERED tree (children in attach order): identifiers are
    handed out along it, so different trees of one history share identifiers and, e.g., their post-order sequence."""
    ch = ordered_children(par, order)
    seq = []
    if scheme in ("pre", "post", "revpost"):
        def rec(i):
            if scheme == "pre":
                seq.append(i)
            for c in (ch[i] if scheme != "revpost" else reversed(ch[i])):
                rec(c)
            if scheme != "pre":
                seq.append(i)
        rec(0)
    elif scheme == "bfs":
        q = collections.deque([0])
        while q:
            u = q.popleft()
            seq.append(u)
            q.extend(ch[u])
    else:   # the order in which the nodes are attached
        seq = list(order)
    pos = [0] * len(par)
    for k, i in enumerate(seq):
        pos[i] = k
    return pos


def build_labelled_ttns(tree, rng):
    """TTNS holding the tree of the case: identifiers n<label>, children attached in attach order, legs (parent, children,
    physical), bond dimensions drawn per edge."""
    import numpy as np
    par, lab, order = tree["parents"], tree["labels"], tree["attach"]
    ch = ordered_children(par, order)
    bd = {i: rng.choice([1, 2, 2, 2, 3]) for i in range(1, len(par))}
    nprs = np.random.RandomState(rng.randrange(2 ** 31))
    ttns = util.TTNS()
    for i in order:
        shape = ([] if par[i] is None else [bd[i]]) + [bd[c] for c in ch[i]] + [2]
        t = nprs.standard_normal(shape) + 1j * nprs.standard_normal(shape)
        node = util.Node(identifier=sid(lab[i]))
        if par[i] is None:
            ttns.add_root(node, t)
        else:
            pid = sid(lab[par[i]])
            ttns.add_child_to_parent(node, t, 0, pid, ttns.nodes[pid].nneighbours())
    return ttns


def reference_block(state, ttno, a, b):
    """<state|H|state> restricted to the component of `a` after cutting the edge (a, b), by a naive recursive einsum over the
    tensors of the state and the operator; legs (ket, operator, bra) of the cut edge. Independent of the library's
    contraction code (it only reads tensors and neighbour orders)."""
    import numpy as np

    def nb(node):
        return ([] if node.parent is None else [node.parent]) + list(node.children)
    ket = state.tensors[a]
    op = ttno.tensors[a]
    knb, onb = nb(state.nodes[a]), nb(ttno.nodes[a])
    lab = {}

    def L(*key):
        return lab.setdefault(key, len(lab))
    pin, pout = L("in"), L("out")
    args = [ket, [L("k", x) for x in knb] + [pin],
            op, [L("h", x) for x in onb] + [pout, pin],
            ket.conj(), [L("b", x) for x in knb] + [pout]]
    for x in knb:
        if x != b:
            args += [reference_block(state, ttno, x, a), [L("k", x), L("h", x), L("b", x)]]
    return np.einsum(*args, [L("k", b), L("h", b), L("b", b)])


# ---- histories of in-place EDITS of one state / operator pair between initialisations of the cache (kind "edit") ----------
def edit_labels_trace(case):
    """identifier (label) of every node index after each step of the history, by plain bookkeeping on the case (no library):
    list with one label list per step (the labels that hold AFTER that step). The rooted tree itself (parents) never changes:
    the edits rename nodes, exchange the identifiers of two nodes, or contract a child with its parent and split the pair
    again (same legs on either side) under new identifiers."""
    cur = list(case["labels"])
    out = []
    for st in case["steps"]:
        op = st["op"]
        if op == "rename":
            cur[st["node"]] = st["new"]
        elif op == "swap":
            a, b = st["a"], st["b"]
            cur[a], cur[b] = cur[b], cur[a]
        elif op == "merge_split":
            cur[case["parents"][st["child"]]] = st["new_parent"]
            cur[st["child"]] = st["new_child"]
        out.append(list(cur))
    return out


def edit_step_text(case, k, labels_before):
    st = case["steps"][k]
    op = st["op"]
    if op == "init":
        return "init_cache_but_one(left out: %s)" % ("update_path[0]" if st["node"] == "first" else labels_before[st["node"]])
    if op == "rename":
        return "change_node_identifier(%s -> %s) on state and operator" % (labels_before[st["node"]], st["new"])
    if op == "swap":
        return "identifiers of %s and %s exchanged (three change_node_identifier calls via %s) on state and operator" % (
            labels_before[st["a"]], labels_before[st["b"]], st["tmp"])
    if op == "merge_split":
        return "contract_nodes(%s, %s) as %s + %s back into parent %s / child %s on state and operator" % (
            labels_before[case["parents"][st["child"]]], labels_before[st["child"]], st["tmp"],
            "split_node_svd" if st["split"] == "svd" else "split_node_qr(SplitMode.%s)" % st["split"][3:], st["new_parent"], st["new_child"])
    return op


def check_cache_blocks(state, ham, cache):
    """every block of the cache that sits on an edge of the state's tree against the naive einsum reference (relative 1e-8)"""
    import numpy as np
    bad = []
    for a, b in list(cache.keys()):
        node = state.nodes.get(a)
        if node is None or b not in ([node.parent] + list(node.children)):
            continue          # not an edge: the key check reports it
        got = np.asarray(cache.get_entry(a, b))
        ref = reference_block(state, ham, a, b)
        if got.shape != ref.shape:
            bad.append([nid(a), nid(b), "shape %s instead of %s" % (list(got.shape), list(ref.shape))])
        else:
            dev = float(np.max(np.abs(got - ref))) if got.size else 0.0
            if not dev <= 1e-8 * (1.0 + float(np.max(np.abs(ref))) if ref.size else 1.0):
                bad.append([nid(a), nid(b), "max abs deviation %.3e" % dev])
    return bad


class C17(Prop):
    id = "C17"
    title = "tree navigation and the TDVP sweep order"
    design_ref = "DESIGN.md section 5 / C17"
    rule = ("struct cases: every rooted ordered tree up to the node bound (7 quick / 9 thorough), built "
            "as a bare TreeStructure, all node pairs, all centres; random cases: shaped random trees up to 40 nodes with "
            "random identifiers and random attach order (children order and node-dict order), sampled pairs/centres; "
            "real cases: TTNS+TTNO with the real SandwichCache.init_cache_but_one contraction; tdvp cases (40 quick / 300 thorough): "
            "HISTORIES of 2-5 real TDVP algorithm objects (first/second order one-site, two-site) created in one process on "
            "2-4 trees of one size (distinct rooted ordered trees up to 6 nodes, shaped random trees up to 7 / 9 nodes) whose "
            "identifiers are handed out along one canonical traversal (pre-order, post-order = linearise, reversed post-order, "
            "breadth-first, attach order; identity or random identifier set), so that different trees share identifiers and "
            "traversal sequences; some objects reuse a state/operator already passed to an earlier object; every object is "
            "observed after construction and after every reset_to_initial_state that follows time steps / complete runs / "
            "nothing (sequential or interleaved round robin with all objects alive): tdvp.update_path, keys and block values of "
            "tdvp.partial_tree_cache; prepared-state cases (16 quick / 200 thorough further histories, 12 / 120 further real cases "
            "on 2-9 nodes): the state is PREPARED by the caller before the path finder / the TDVP object sees it — canonical_form / "
            "orthogonalize w.r.t. a node (60% a leaf of any depth, else any node incl. inner nodes and the root), or canonical form "
            "elsewhere followed by one or several move_orthogonalization_center calls, SplitMode KEEP or REDUCED — or it is TAKEN "
            "OVER from an earlier object of the history (that object's current tdvp.state after time steps / runs without a final "
            "reset, i.e. an evolution that is continued by a new object; optionally prepared again); for these objects the model is "
            "evaluated on the ordered tree the library holds at that moment (canonicalisation reorders the children of a node; the "
            "rooted tree must stay the one of the case), the BFS oracle always on the tree of the case; malformed: unknown "
            "identifiers (both sides must reject); LARGE trees (4 quick / 30 thorough `large` cases, one per size band 41-100, 101-256, "
            "257-420, 421-700 and, thorough, 701-1200 nodes in every run; shapes uniform / bushy / binary / root with one child / spine with "
            "branching side branches / broom / ties / several long arms, depth capped at 110; random identifiers, random attach order): "
            "38 sampled node pairs and ~8 centres (the root, nodes with the largest subtrees, branching inner nodes, leaves) with all "
            "queries of the small cases, 4 left-out nodes, and in addition find_subtree_of_node (key set and node identity), "
            "leaves_under_node, find_subtree_size_of_node and find_path_to_root of EVERY node against graph search; exact model tie up to "
            "256 (quick) / 420 (thorough) nodes (beyond 128 nodes the distance tables are tied for two centres and the caching path / "
            "cache keys for update_path[0] only), larger ones are judged by the graph-search oracle alone; further real TTNS+TTNO cases "
            "(4 quick / 24 thorough) on 10-500 nodes, half of them with a prepared state; EDIT histories (kind edit, 40 quick / 400 thorough): ONE real "
            "TTNS + TTNO pair (2-9 nodes all shapes, every fifth 10-20 nodes of small degree; random or identity identifiers, random attach order) "
            "whose tree is edited IN PLACE between 2-4 initialisations SandwichCache.init_cache_but_one (left-out node: update_path[0] of the "
            "current tree, a deepest leaf or any node; 80% the same node throughout): change_node_identifier of any node (root, left-out node, "
            "inner nodes, leaves; to a fresh identifier or one that was in use earlier), exchange of the identifiers of two nodes, contract_nodes "
            "of a child with its parent + split_node_svd / split_node_qr back into two nodes with new / exchanged / the same / one new identifier, "
            "deepcopy of both objects and continuing on the copies; the rooted tree (parents) never changes, the expected identifiers are kept by "
            "plain bookkeeping on the case; at every initialisation: the ordered trees state and operator hold, the update path, the cache keys "
            "in order (exact tie with update_path / cache_keys of the model on the tree held), the BFS oracle on the edited tree of the case and "
            "every block against the naive einsum contraction of the current tensors; any exception of a step is a violation. non-trivial = at least 3 nodes; distinct by case content")
    clauses = [
        ("F", "linearise: permutation of the nodes, every child before its parent, root last (C17_linearise_perm, _child_before_parent, _root_last)"),
        ("F", "find_path_to_root: starts at the node, ends at the root, consecutive entries child->parent, defined exactly on the nodes "
              "(C17_root_path_spec, C17_root_path_defined)"),
        ("F", "path_from_to (literal model: duplicate count, [:-n+1] slice with its 0 case): starts at a, ends at b, consecutive entries "
              "adjacent, no repetition; it is THE tree path (any repetition-free walk along edges from a to b equals it); path a a = [a]; "
              "defined exactly on node pairs (C17_path_from_to_spec, C17_path_unique, C17_path_self, C17_path_defined)"),
        ("F", "distance_to_node(c) for every centre c: keys = the node set, value = len(path_from_to c x) - 1; for the root the keys are "
              "in pre-order (C17_distance_spec, C17_root_distance_spec)"),
        ("F", "find_subtree_of_node / leaves_under_node / find_subtree_size_of_node / get_leaves / nearest_neighbours agree with the "
              "structural definitions (C17_subtree_spec, C17_leaves_spec, C17_subtree_size_spec, C17_get_leaves_spec, C17_nearest_neighbours_spec)"),
        ("F", "update path: permutation of the node set (C17_update_path_perm); head = find_start_node_id = a leaf of maximal depth, the "
              "first such in pre-order (C17_update_path_start); last node has degree <= 1 (C17_update_path_end)"),
        ("F", "init_cache_but_one for every left-out node, and for update_path[0]: as unordered pairs the key list is a permutation of the "
              "edge list (exactly one block per edge); every block (n, m) has m = second node of the path n -> left-out; every block is "
              "created after the blocks of the other neighbours it is contracted from (C17_cache_keys_spec, C17_tdvp_cache_keys_spec)"),
        ("F", "walking the update path along tree paths crosses no edge more than twice, for every tree: every proper subtree is one contiguous "
              "block of the update path (C17_update_path_crossings, C17_update_path_subtree_block, C17_update_path_jumps); the bounded companion over "
              "all 23714 trees with <= 11 nodes is kept (C17_update_path_crossings_bounded_11, C17_enumeration_complete)"),
        ("V", "exact equality of every modelled query with the implementation on all rooted ordered trees up to the node bound, all node "
              "pairs and centres (lists, dict key orders, update path, caching path, next-id dict, cache key order), plus random trees up "
              "to 40 nodes; independent BFS oracle on the undirected graph; real SandwichCache contraction on TTNS+TTNO"),
        ("V", "trees with many nodes (up to 700 quick / 1200 thorough, beyond the exhaustive bound and the random trees up to 40): the same "
              "queries for sampled pairs / centres, and subtree, leaves, subtree size and root path of every node, against elementary graph "
              "search (BFS oracle); exact model tie up to 256 / 420 nodes"),
        ("V", "the sweep order and the initial environment cache HELD BY TDVP algorithm objects (tdvp.update_path, tdvp.partial_tree_cache), "
              "for every object of a history of several objects in one process and at every start of a sweep (after construction, after "
              "each reset following time steps or runs): update path and cache key order equal the model's update_path / tdvp_cache_keys of "
              "the object's own tree (exact), BFS oracle (permutation, deepest leaf, end degree, crossings <= 2, exactly one block per edge "
              "toward path[0], no other keys) and every cached block equals a naive einsum contraction of the object's current state and "
              "operator over the subtree behind its edge (relative 1e-8)"),
        ("V", "the same for states that already carry an orthogonality centre when they reach TDVPUpdatePathFinder / the TDVP constructor "
              "(canonical form w.r.t. deepest leaves, shallower leaves, inner nodes, the root; centre moved around; both split modes; "
              "states taken over from an earlier object after time steps): the sweep order and the cache depend on the rooted tree only "
              "— BFS oracle on the tree of the case, exact tie on the ordered tree the library holds (update_path of the tree handed in, "
              "cache_keys of the tree the object holds when the cache is built), same rooted tree as an unordered tree"),
        ("V", "the initial environment cache of a state / operator pair whose tree was EDITED IN PLACE after an earlier initialisation "
              "(nodes renamed, identifiers exchanged, neighbouring nodes contracted and split again under other names, objects deep-copied; "
              "node count, root identifier and left-out node mostly unchanged): again exactly one block per edge of the CURRENT tree, each "
              "pointing toward the left-out node, created after the blocks it is contracted from, block values = naive contraction of the "
              "current tensors; update path and key order tied exactly to the model on the tree the state holds"),
    ]
    trusted_base = ["node identifiers are mapped to natural numbers by the harness (the library uses strings); the key order of the node "
                    "dictionary is an explicit input of get_leaves/nearest_neighbours",
                    "find_path_to_root (a while loop over parent pointers) and _path_for_branch_rec (recursion over child identifiers) are "
                    "modelled by structural recursion over the rtree; the tie checks them on every run",
                    "the bounded crossing theorem quantifies over pre-order labelled shapes (`trees_upto 11`); invariance under relabelling "
                    "is validated by the tie (random identifiers), not proved"]
    assumptions = ["identifiers are unique (NoDup (ids t)) — enforced by TreeStructure.ensure_uniqueness"]

    # ---------------------------------------------------------------------------------------
    def _struct_case(self, par, rng=None, relabel=False, shuffle=False, pairs="all", centres="all", kind="struct"):
        n = len(par)
        lab = list(range(n))
        if relabel:
            lab = rng.sample(range(0, 3 * n + 5), n)
        order = topo_order(rng, par) if shuffle else list(range(n))
        return {"kind": kind, "parents": par, "labels": lab, "attach": order, "pairs": pairs, "centres": centres}

    def _large_case(self, rng, k, nbands):
        """a tree with MANY nodes (41 .. 1200): sampled node pairs and centres for the exact tie; in addition the subtree / leaf /
        size / root-path queries of EVERY node are observed and judged by the graph-search oracle."""
        lo, hi = LARGE_BANDS[k % nbands]
        n = rng.randrange(lo, hi + 1)
        par = random_parents_large(rng, n, rng.choice(LARGE_SHAPES))
        ch = util.children_of(par)
        size = [1] * n
        for i in range(n - 1, 0, -1):
            size[par[i]] += size[i]
        inner = [i for i in range(n) if ch[i]]
        branching = [i for i in inner if len(ch[i]) >= 2 and any(ch[c] for c in ch[i])]
        big = sorted(range(n), key=lambda i: -size[i])[:max(6, n // 20)]
        leaves = [i for i in range(n) if not ch[i]]
        # centres: the root, nodes with large subtrees, branching inner nodes, any inner node, leaves, any node
        centres = [0] + rng.sample(big, 2) + rng.sample(branching, min(2, len(branching))) + rng.sample(inner, 1) + rng.sample(leaves, 1) + [rng.randrange(n)]
        centres = list(dict.fromkeys(centres))
        pick = lambda: rng.choice([0, rng.choice(leaves), rng.choice(leaves), rng.choice(inner), rng.randrange(n), rng.randrange(n)])
        pairs = [[pick(), pick()] for _ in range(36)] + [[i, i] for i in rng.sample(range(n), 2)]
        c = self._struct_case(par, rng, shuffle=rng.random() < 0.7, pairs=pairs, centres=centres, kind="large")
        c["labels"] = rng.sample(range(0, n + n // 4 + 5), n) if rng.random() < 0.8 else list(range(n))
        return c

    def _tdvp_history(self, rng, k, nmax, prepared=False):
        """several TDVP algorithm objects created (and used: time steps, complete runs, resets) in one process, on trees of
        one size whose identifiers are handed out along one canonical traversal (so the trees share their identifier set
        and e.g. the post-order / pre-order / breadth-first sequence although their shapes differ)."""
        n = rng.choice([2, 3, 3, 4, 4, 4, 5, 5, 6, 7]) if k % 4 else rng.randrange(3, nmax + 1)
        ntrees = rng.choice([2, 2, 3, 3, 4])
        shapes = ["uniform", "deep", "bushy", "chainroot", "binary", "ties"]
        if n <= 6 and k % 3:
            pool = util.all_parents(n)           # distinct rooted ordered trees of this size
            pars = rng.sample(pool, min(ntrees, len(pool)))
        else:
            pars = [random_parents_shaped(rng, n, rng.choice(shapes)) for _ in range(ntrees)]
        scheme = TDVP_SCHEMES[k % len(TDVP_SCHEMES)]
        ids = list(range(n)) if rng.random() < 0.25 else rng.sample(range(0, 3000), n)
        shuffle = rng.random() < 0.5
        trees = []
        for par in pars:
            order = topo_order(rng, par) if shuffle else list(range(n))
            pos = scheme_positions(par, order, scheme)
            trees.append({"parents": par, "labels": [ids[pos[i]] for i in range(n)], "attach": order})
        which = list(range(len(trees)))
        if rng.random() < 0.35:                  # a further object on a state / operator that was already passed in
            which.append(rng.randrange(len(trees)))
        objs = [{"tree": j, "algo": rng.choice(["tdvp1", "tdvp1", "tdvp2", "tdvp2s"]), "ops": list(rng.choice(TDVP_OPS))} for j in which]
        if prepared:
            # states that were PREPARED by the caller before the object is built (canonical form w.r.t. some node, centre moved
            # around) and states TAKEN OVER from an earlier object of the history (its current tdvp.state, after time steps)
            for o in objs:
                if rng.random() < 0.7:
                    o["prepare"] = random_prepare(rng, pars[o["tree"]])
            for _ in range(rng.choice([0, 1, 1, 2])):
                src = rng.randrange(len(objs))
                if "from" not in objs[src]:
                    objs[src]["ops"] = list(rng.choice(TDVP_OPS)) + list(rng.choice(TDVP_SOURCE_OPS))
                o = {"tree": objs[src]["tree"], "algo": rng.choice(["tdvp1", "tdvp1", "tdvp2", "tdvp2s"]),
                     "ops": list(rng.choice(TDVP_OPS)), "from": src}
                if rng.random() < 0.25:
                    o["prepare"] = random_prepare(rng, pars[o["tree"]])
                objs.append(o)
        # (a taken-over state is only interesting after its source has evolved: those histories run object after object)
        return {"kind": "tdvp", "scheme": scheme, "trees": trees, "objects": objs,
                "interleave": rng.random() < 0.3 and not any("from" in o for o in objs), "seed": rng.randrange(10 ** 6)}

    def _edit_history(self, rng, k):
        """one state / operator pair whose tree is EDITED IN PLACE between initialisations of the environment cache: rename a
        node (any node: the root, the left-out node, inner nodes, leaves; to a fresh identifier or to one that was in use
        earlier), exchange the identifiers of two nodes, contract a child with its parent and split again under new /
        exchanged / the same identifiers, continue on a deepcopy; the cache is initialised before the first and after every
        group of edits, mostly for the same left-out node."""
        shapes = ["uniform", "deep", "bushy", "chainroot", "binary", "ties"]
        n = rng.choice([2, 3, 3, 4, 4, 5, 5, 6, 7, 8, 9]) if k % 5 else rng.randrange(10, 21)
        # (ten and more nodes: shapes of small degree only, the naive reference contraction of a block is exponential in the degree)
        par = random_parents_shaped(rng, n, shapes[k % len(shapes)] if n < 10 else rng.choice(["deep", "binary", "ties"]))
        order = topo_order(rng, par) if rng.random() < 0.5 else list(range(n))
        labels = list(range(n)) if rng.random() < 0.25 else rng.sample(range(0, 3000), n)
        cur, retired = list(labels), []
        nxt = [3000]

        def fresh():
            if retired and rng.random() < 0.3:
                return retired.pop(rng.randrange(len(retired)))
            nxt[0] += rng.randrange(1, 40)
            return nxt[0]
        d = depth_profile(par)
        deepest = [i for i in range(n) if d[i] == max(d)]

        def pick_left_out():
            r = rng.random()
            return "first" if r < 0.45 else rng.choice(deepest) if r < 0.7 else rng.randrange(n)
        x = pick_left_out()
        steps = [{"op": "init", "node": x}]
        for _ in range(rng.choice([1, 1, 2, 3])):
            for _ in range(rng.choice([1, 1, 2])):
                r = rng.random()
                if r < 0.45 or n < 2:
                    i = rng.randrange(n)
                    new = fresh()
                    retired.append(cur[i])
                    cur[i] = new
                    steps.append({"op": "rename", "node": i, "new": new})
                elif r < 0.62:
                    a, b = rng.sample(range(n), 2)
                    steps.append({"op": "swap", "a": a, "b": b, "tmp": fresh()})
                    cur[a], cur[b] = cur[b], cur[a]
                elif r < 0.92:
                    c = rng.randrange(1, n)
                    pidx = par[c]
                    how = rng.choice(["new", "new", "exchanged", "same", "parent_only"])
                    if how == "new":
                        npl, ncl = fresh(), fresh()
                    elif how == "exchanged":
                        npl, ncl = cur[c], cur[pidx]
                    elif how == "same":
                        npl, ncl = cur[pidx], cur[c]
                    else:
                        npl, ncl = fresh(), cur[c]
                    tmp = fresh()
                    for old in (cur[pidx], cur[c]):
                        if old not in (npl, ncl):
                            retired.append(old)
                    cur[pidx], cur[c] = npl, ncl
                    steps.append({"op": "merge_split", "child": c, "tmp": tmp, "new_parent": npl, "new_child": ncl,
                                  # (QR may raise the bond dimension to min(rows, columns): small trees only; the truncated
                                  #  SVD split is capped at the bond dimension the edge had before)
                                  "split": rng.choice(["qr_KEEP", "qr_REDUCED", "svd"]) if n <= 4 else "svd"})
                else:
                    steps.append({"op": "copy"})
            if rng.random() < 0.2:
                x = pick_left_out()
            steps.append({"op": "init", "node": x})
        return {"kind": "edit", "parents": par, "labels": labels, "attach": order, "steps": steps, "seed": rng.randrange(10 ** 6)}

    def generate(self, ctx, stream, budget_scale=1):
        rng = ctx.rng(stream)
        cases = []
        nmax = ctx.scale(7, 9)
        if stream != "main":
            nmax = 8
        for n in range(1, nmax + 1):
            allp = util.all_parents(n)
            if stream != "main" and n >= 8:
                allp = rng.sample(allp, min(len(allp), 150 * budget_scale))
            for par in allp:
                # a third of the exhaustive trees get random identifiers
                cases.append(self._struct_case(par, rng, relabel=(rng.random() < 0.34)))
        shapes = ["uniform", "deep", "bushy", "chainroot", "binary", "ties"]
        nrand = ctx.scale(36, 300) * budget_scale
        for k in range(nrand):
            n = rng.choice([2, 3, 5, 8, 10, 12, 15, 20, 25, 30, 40]) if k % 4 else rng.randrange(8, 41)
            par = random_parents_shaped(rng, n, shapes[k % len(shapes)])
            lab_nodes = list(range(n))
            npairs = 150
            pairs = [[rng.randrange(n), rng.randrange(n)] for _ in range(npairs)] + [[i, i] for i in rng.sample(lab_nodes, min(n, 3))]
            centres = rng.sample(lab_nodes, min(n, 10))
            c = self._struct_case(par, rng, relabel=True, shuffle=True, pairs=pairs, centres=centres, kind="random")
            cases.append(c)
        # real TTNS + TTNO: the cache is built by the real contraction code
        nreal = ctx.scale(16, 80) * budget_scale
        for k in range(nreal):
            n = rng.randrange(2, 9)
            par = random_parents_shaped(rng, n, shapes[k % len(shapes)])
            cases.append({"kind": "real", "parents": par, "seed": rng.randrange(10 ** 6)})
        # histories of TDVP objects (several objects in one process, run / reset on a reused object)
        for k in range(ctx.scale(40, 300) * budget_scale):
            cases.append(self._tdvp_history(rng, k, ctx.scale(7, 9)))
        # ... on states prepared by the caller (canonical forms) / taken over from an earlier object; prepared real cases
        for k in range(ctx.scale(16, 200) * budget_scale):
            cases.append(self._tdvp_history(rng, k, ctx.scale(7, 9), prepared=True))
        for k in range(ctx.scale(12, 120) * budget_scale):
            n = rng.randrange(2, 10)
            par = random_parents_shaped(rng, n, shapes[k % len(shapes)])
            cases.append({"kind": "real", "parents": par, "seed": rng.randrange(10 ** 6), "prepare": random_prepare(rng, par)})
        # malformed: unknown identifiers
        for k in range(ctx.scale(6, 20)):
            n = rng.randrange(1, 8)
            par = util.random_parents(rng, n)
            c = self._struct_case(par, rng)
            c["kind"] = "malformed"
            c["pairs"] = [[n + 3, 0], [0, n + 3], [n + 3, n + 3], [n + 3, n + 4]]
            c["centres"] = [n + 3]
            cases.append(c)
        # LARGE trees (41 .. 700 nodes quick, .. 1200 thorough): every band in every run
        nb = ctx.scale(4, 5)
        for k in range(ctx.scale(4, 30) * budget_scale):
            cases.append(self._large_case(rng, k, nb))
        # real TTNS + TTNO (real path finder, real cache contraction) on trees with many nodes, half of them prepared
        bands = [(10, 40), (41, 120), (121, 256), (257, 500)]
        for k in range(ctx.scale(4, 24) * budget_scale):
            lo, hi = bands[k % len(bands)]
            par = random_parents_large(rng, rng.randrange(lo, hi + 1), rng.choice(LARGE_SHAPES), maxdepth=60)
            c = {"kind": "real", "parents": par, "seed": rng.randrange(10 ** 6)}
            if rng.random() < 0.5:
                c["prepare"] = random_prepare(rng, par)
            cases.append(c)
        # one state / operator pair EDITED IN PLACE between initialisations of the cache (own stream: older families keep their cases)
        rng_e = ctx.rng(stream + ":edit")
        for k in range(ctx.scale(40, 400) * budget_scale):
            cases.append(self._edit_history(rng_e, k))
        return cases

    @staticmethod
    def _parents(case):
        return case["trees"][0]["parents"] if case["kind"] == "tdvp" else case["parents"]

    def nontrivial(self, case):
        return len(self._parents(case)) >= 3

    def distribution(self, cases):
        c = collections.Counter()
        for x in cases:
            c["kind:" + x["kind"]] += 1
            n = len(self._parents(x))
            c["n:" + (str(n) if n <= 9 else "10-19" if n < 20 else "20-40" if n <= 40 else "41-100" if n <= 100 else "101-256" if n <= 256
                      else "257-420" if n <= 420 else "421-700" if n <= 700 else "701-1200")] += 1
            if x["kind"] == "tdvp":
                c["tdvp:objects"] += len(x["objects"])
                c["tdvp:scheme-" + x["scheme"]] += 1
                c["tdvp:interleaved"] += bool(x["interleave"])
                for o in x["objects"]:
                    c["tdvp:algo-" + o["algo"]] += 1
                    if "from" in o:
                        c["tdvp:objects-on-the-current-state-of-an-earlier-object"] += 1
                        c["tdvp:...-whose-source-evolved-without-a-final-reset"] += (x["objects"][o["from"]]["ops"] or ["reset"])[-1] != "reset"
                    if o.get("prepare"):
                        self._count_prepare(c, "tdvp", o["prepare"], x["trees"][o["tree"]]["parents"])
                    c["tdvp:cache-observations-after-reset"] += o["ops"].count("reset")
                    c["tdvp:resets-after-evolution"] += sum(1 for a, b in zip(o["ops"], o["ops"][1:]) if b == "reset" and a != "reset")
                tr = x["trees"]
                lins = [tuple(l for l, _ in sorted(zip(t["labels"], scheme_positions(t["parents"], t["attach"], "post")), key=lambda z: z[1])) for t in tr]
                shp = [repr(case_rtree(t)) for t in tr]
                c["tdvp:pairs-of-different-trees-with-equal-linearisation"] += sum(
                    1 for i in range(len(tr)) for j in range(i) if lins[i] == lins[j] and shp[i] != shp[j])
                c["tdvp:objects-sharing-a-state-object"] += len(x["objects"]) - len({o["tree"] for o in x["objects"]})
                continue
            par = x["parents"]
            if x["kind"] == "edit":
                ops = [st["op"] for st in x["steps"]]
                c["edit:initialisations"] += ops.count("init")
                for o in ("rename", "swap", "merge_split", "copy"):
                    c["edit:" + o] += ops.count(o)
                inits = [st["node"] for st in x["steps"] if st["op"] == "init"]
                c["edit:histories-with-the-same-left-out-node-throughout"] += len(set(map(str, inits))) == 1
                c["edit:histories-that-rename-the-root"] += any(st["op"] == "rename" and st["node"] == 0 for st in x["steps"])
                c["edit:histories-keeping-root-and-node-count-while-another-identifier-changes"] += any(
                    (st["op"] == "rename" and st["node"] != 0) or st["op"] == "swap" and 0 not in (st["a"], st["b"]) for st in x["steps"])
            if x.get("prepare"):
                self._count_prepare(c, "real", x["prepare"], par)
            if sum(1 for p in par if p == 0) == 1:
                c["root-with-one-child"] += 1
            if sum(1 for p in par if p == 0) >= 3:
                c["root-with-3+-children"] += 1
        return dict(c)

    @staticmethod
    def _count_prepare(c, kind, prep, par):
        d = depth_profile(par)
        x = prep["node"]
        leaf = x not in par
        c[kind + ":prepared-state"] += 1
        c[kind + ":prepared-" + prep["how"]] += 1
        c[kind + ":prepared-centre-" + ("root" if x == 0 else "deepest-leaf" if leaf and d[x] == max(d) else
                                       "shallower-leaf" if leaf else "inner-node")] += 1

    def sample_repr(self, case):
        if case["kind"] == "tdvp":
            return case
        r = {k: v for k, v in case.items() if k not in ("pairs", "centres")} | {"npairs": case.get("pairs") if isinstance(case.get("pairs"), str) else len(case.get("pairs", []))}
        if len(case["parents"]) > 40:     # trees with many nodes: size, depth and maximal degree instead of the lists
            par = case["parents"]
            r = {k: v for k, v in r.items() if k not in ("parents", "labels", "attach")} | {
                "nodes": len(par), "depth": max(depth_profile(par)), "max_children": max(collections.Counter(p for p in par if p is not None).values())}
        return r

    # ---------------------------------------------------------------------------------------
    @staticmethod
    def _build(case):
        from pytreenet.core.tree_structure import TreeStructure
        from pytreenet.core.graph_node import GraphNode
        par, lab, order = case["parents"], case["labels"], case["attach"]
        T = TreeStructure()
        for i in order:
            node = GraphNode(identifier=sid(lab[i]))
            if par[i] is None:
                T.add_root(node)
            else:
                T.add_child_to_parent(node, sid(lab[par[i]]))
        return T

    @staticmethod
    def _try(f):
        try:
            return {"ok": f()}
        except Exception as e:  # noqa
            return {"err": type(e).__name__}

    def _observe_tree(self, T, ob, labels, pairs, centres, all_left_out):
        """all discrete observations on a TreeStructure-like object; identifiers -> ints."""
        from pytreenet.time_evolution.time_evo_util.update_path import TDVPUpdatePathFinder
        from pytreenet.contractions.sandwich_caching import _find_caching_path, SandwichCache
        tr = self._try
        ob["root"] = nid(T.root_id)
        ob["node_order"] = [nid(k) for k in T.nodes]
        ob["structure"] = {str(nid(k)): [None if v.parent is None else nid(v.parent), [nid(c) for c in v.children]] for k, v in T.nodes.items()}
        ob["linearise"] = [nid(x) for x in T.linearise()]
        ob["get_leaves"] = [nid(x) for x in T.get_leaves()]
        ob["nearest_neighbours"] = [[nid(a), nid(b)] for a, b in T.nearest_neighbours()]
        per = {}
        for x in centres:
            s = sid(x)
            per[str(x)] = {
                "to_root": tr(lambda: [nid(y) for y in T.find_path_to_root(s)]),
                "dist": tr(lambda: [[nid(k), int(v)] for k, v in T.distance_to_node(s).items()]),
                "subtree": tr(lambda: [nid(k) for k in T.find_subtree_of_node(s)]),
                "leaves": tr(lambda: [nid(k) for k in T.leaves_under_node(s)]),
                "size": tr(lambda: int(T.find_subtree_size_of_node(s))),
                "children": tr(lambda: [nid(k) for k in T.nodes[s].children]),
                "parent": tr(lambda: None if T.nodes[s].parent is None else nid(T.nodes[s].parent)),
                "degree": tr(lambda: int(T.nodes[s].nneighbours())),
                "is_leaf": tr(lambda: bool(T.nodes[s].is_leaf())),
            }
        ob["per"] = per
        ob["paths"] = [tr(lambda a=a, b=b: [nid(y) for y in T.path_from_to(sid(a), sid(b))]) for a, b in pairs]
        # update path
        def upd():
            f = TDVPUpdatePathFinder(T)
            return {"start": nid(f.start), "main": [nid(y) for y in f.main_path], "path": [nid(y) for y in f.find_path()]}
        ob["update"] = tr(upd)
        # caching path for several left-out nodes, and the cache keys created by init_cache_but_one

        class Rec(SandwichCache):
            def update_tree_cache(self, node_id, next_node_id):
                self.add_entry(node_id, next_node_id, None)
        lo = list(all_left_out)
        if "ok" in ob["update"] and ob["update"]["ok"]["path"]:
            first = ob["update"]["ok"]["path"][0]
            if first in labels:
                lo = [first] + [x for x in lo if x != first]
        cache = {}
        for x in lo:
            def fc(x=x):
                cp, nd = _find_caching_path(T, sid(x))
                return [[nid(y) for y in cp], [[nid(k), nid(v)] for k, v in nd.items()]]

            def ck(x=x):
                return [[nid(a), nid(b)] for a, b in Rec.init_cache_but_one(T, None, sid(x)).keys()]
            cache[str(x)] = {"caching": tr(fc), "keys": tr(ck)}
        ob["cache"] = cache
        ob["cache_order"] = lo
        return ob

    def _impl_struct(self, case):
        T = self._build(case)
        lab = case["labels"]
        n = len(lab)
        pairs = case["pairs"]
        if pairs == "all":
            pairs = [[a, b] for a in range(n) for b in range(n)]
        centres = case["centres"]
        if centres == "all":
            centres = list(range(n))
        # indices -> labels (indices beyond the tree denote unknown identifiers)
        def L(i):
            return lab[i] if i < n else 4000 + i
        pairs_l = [[L(a), L(b)] for a, b in pairs]
        centres_l = [L(x) for x in centres]
        ob = {"pairs": pairs_l, "centres": centres_l}
        left_out = centres_l if n <= 8 else centres_l[:4]
        self._observe_tree(T, ob, set(lab), pairs_l, centres_l, left_out)
        if case["kind"] == "large":
            # the queries "below a node" / "up to the root" for EVERY node (judged by the graph-search oracle only)
            tr = self._try
            ob["every"] = {str(x): {"subtree": tr(lambda: [nid(k) for k in T.find_subtree_of_node(sid(x))]),
                                    "subtree_is_nodes": tr(lambda: all(v is T.nodes[k] for k, v in T.find_subtree_of_node(sid(x)).items())),
                                    "leaves": tr(lambda: [nid(k) for k in T.leaves_under_node(sid(x))]),
                                    "size": tr(lambda: int(T.find_subtree_size_of_node(sid(x)))),
                                    "to_root": tr(lambda: [nid(y) for y in T.find_path_to_root(sid(x))])} for x in lab}
        return ob

    def _impl_real(self, case):
        import random
        from pytreenet.time_evolution.time_evo_util.update_path import TDVPUpdatePathFinder
        from pytreenet.contractions.sandwich_caching import SandwichCache
        rng = random.Random(case["seed"])
        par = case["parents"]
        n = len(par)
        ttns = util.build_ttns(rng, par, phys=[2] * n, bond=2)
        idsl = sorted(ttns.nodes)
        dims = util.phys_dims(ttns)
        ham = util.rand_ham(rng, idsl, dims, 2, hermitian=True, max_support=2)
        ttno = util.TTNO.from_hamiltonian(copy.deepcopy(ham), ttns)
        ob = {}
        if case.get("prepare"):
            apply_prepare(ttns, case["prepare"], sid)
            c = ttns.orthogonality_center_id
            ob["centre"] = None if c is None else nid(c)
        # (the ordered tree the finder and the cache see: canonicalisation may reorder the children of a node)
        ob["rtree"] = util.ttn_to_rtree(ttns, {k: nid(k) for k in ttns.nodes})[0]
        up = [nid(x) for x in TDVPUpdatePathFinder(ttns).find_path()]
        ob["update"] = {"ok": {"path": up}}
        ob["structure"] = {str(nid(k)): [None if v.parent is None else nid(v.parent), [nid(c) for c in v.children]] for k, v in ttns.nodes.items()}
        try:
            cache = SandwichCache.init_cache_but_one(ttns, ttno, sid(up[0]))
            ob["keys"] = {"ok": [[nid(a), nid(b)] for a, b in cache.keys()]}
            ob["shapes_ok"] = all(getattr(v, "ndim", 0) == 3 for v in cache.values())
        except Exception as e:  # noqa
            ob["keys"] = {"err": type(e).__name__ + ": " + str(e)[:200]}
        return ob

    @staticmethod
    def _observe_tdvp(tdvp, after):
        """the sweep order and the environment cache of a TDVP object that is at the start of a sweep (freshly constructed
        or just reset): identifiers -> ints; every cached block is compared with the naive reference contraction of the
        object's CURRENT state."""
        import numpy as np
        rec = {"after": list(after)}
        try:
            rec["path"] = [nid(x) for x in tdvp.update_path]
            cache = tdvp.partial_tree_cache
            keys = list(cache.keys())
            rec["keys"] = [[nid(a), nid(b)] for a, b in keys]
            c = tdvp.state.orthogonality_center_id
            rec["centre"] = None if c is None else nid(c)
            rec["rtree_state"] = util.ttn_to_rtree(tdvp.state, {k: nid(k) for k in tdvp.state.nodes})[0]
            bad = []
            for a, b in keys:
                node = tdvp.state.nodes.get(a)
                if node is None or b not in ([node.parent] + list(node.children)):
                    continue          # not an edge: the key check reports it
                got = np.asarray(cache.get_entry(a, b))
                ref = reference_block(tdvp.state, tdvp.hamiltonian, a, b)
                if got.shape != ref.shape:
                    bad.append([nid(a), nid(b), "shape %s instead of %s" % (list(got.shape), list(ref.shape))])
                else:
                    dev = float(np.max(np.abs(got - ref))) if got.size else 0.0
                    if not dev <= 1e-8 * (1.0 + float(np.max(np.abs(ref))) if ref.size else 1.0):
                        bad.append([nid(a), nid(b), "max abs deviation %.3e" % dev])
            rec["bad_blocks"] = bad
        except Exception as e:  # noqa
            import traceback
            rec["err"] = f"{type(e).__name__}: {e}"[:300] + " | " + traceback.format_exc()[-600:]
        return rec

    def _impl_tdvp(self, case):
        import random
        import numpy as np
        rng = random.Random(case["seed"])
        ob = {"trees": [], "objects": []}
        built = []
        for tree in case["trees"]:
            ttns = build_labelled_ttns(tree, rng)
            idsl = sorted(ttns.nodes)
            ham = util.rand_ham(rng, idsl, util.phys_dims(ttns), len(idsl) + 1, hermitian=True, max_support=2)
            ttno = util.TTNO.from_hamiltonian(copy.deepcopy(ham), ttns)
            built.append((ttns, ham, ttno))
            ob["trees"].append({"structure": {str(nid(k)): [None if v.parent is None else nid(v.parent), [nid(c) for c in v.children]]
                                              for k, v in ttns.nodes.items()},
                                "linearise": [nid(x) for x in ttns.linearise()]})
        live = []
        todo = []

        def construct(o):
            ttns, ham, ttno = built[o["tree"]]
            lab = case["trees"][o["tree"]]["labels"]
            if "from" in o:       # the current state of an earlier object becomes the initial state of this one
                src = live[o["from"]] if o["from"] < len(live) else None
                if src is None:
                    ob["objects"].append({"phases": [], "skipped": "the source object does not exist"})
                    return None
                ttns = src.state
            obs_op = util.TensorProduct({ttns.root_id: np.array([[1.0, 0.0], [0.0, -1.0]])})
            rec = {"phases": []}
            ob["objects"].append(rec)
            try:
                if o.get("prepare"):
                    apply_prepare(ttns, o["prepare"], lambda i: sid(lab[i]))
                c = ttns.orthogonality_center_id
                rec["initial_centre"] = None if c is None else nid(c)
                # the ordered tree of the state that is handed in (canonicalisation may reorder the children of a node)
                rec["rtree_in"] = util.ttn_to_rtree(ttns, {k: nid(k) for k in ttns.nodes})[0]
                tdvp = util.make_evolution(o["algo"], ttns, ham, ttno, 0.05, 0.1, [obs_op])
            except Exception as e:  # noqa
                rec["err"] = f"construction raised {type(e).__name__}: {e}"[:300]
                return None
            rec["phases"].append(self._observe_tdvp(tdvp, []))
            return tdvp

        def apply(tdvp, rec, done, op):
            done.append(op)
            try:
                if op == "step":
                    tdvp.run_one_time_step()
                elif op == "run":
                    tdvp.run(pgbar=False)
                else:
                    tdvp.reset_to_initial_state()
            except Exception as e:  # noqa
                rec["err"] = f"{op} (after {done[:-1]}) raised {type(e).__name__}: {e}"[:300]
                return False
            if op == "reset":
                rec["phases"].append(self._observe_tdvp(tdvp, done))
            return True
        if case["interleave"]:
            # all objects are constructed first and stay alive; their operations are then interleaved round robin
            for o in case["objects"]:
                live.append(construct(o))
            queues = [(t, ob["objects"][j], [], list(o["ops"])) for j, (t, o) in enumerate(zip(live, case["objects"])) if t is not None]
            while any(q[3] for q in queues):
                for t, rec, done, ops in queues:
                    if ops and "err" not in rec:
                        apply(t, rec, done, ops.pop(0))
                    elif ops:
                        ops.clear()
        else:
            for j, o in enumerate(case["objects"]):
                t = construct(o)
                live.append(t)
                if t is None:
                    continue
                done = []
                for op in o["ops"]:
                    if not apply(t, ob["objects"][j], done, op):
                        break
        return ob

    def _impl_edit(self, case):
        import random
        from pytreenet.time_evolution.time_evo_util.update_path import TDVPUpdatePathFinder
        from pytreenet.contractions.sandwich_caching import SandwichCache
        from pytreenet.util.tensor_splitting import SplitMode, SVDParameters
        rng = random.Random(case["seed"])
        ttns = build_labelled_ttns(case, rng)
        idsl = sorted(ttns.nodes)
        ham = util.rand_ham(rng, idsl, util.phys_dims(ttns), min(len(idsl) + 1, 6), hermitian=True, max_support=2)
        ttno = util.TTNO.from_hamiltonian(copy.deepcopy(ham), ttns)
        par = case["parents"]
        cur = list(case["labels"])
        ob = {"phases": []}
        for k, st in enumerate(case["steps"]):
            op = st["op"]
            try:
                if op == "init":
                    ph = {"step": k}
                    ob["phases"].append(ph)
                    ph["rtree"] = util.ttn_to_rtree(ttns, {i: nid(i) for i in ttns.nodes})[0]
                    ph["rtree_op"] = util.ttn_to_rtree(ttno, {i: nid(i) for i in ttno.nodes})[0]
                    ph["path"] = [nid(y) for y in TDVPUpdatePathFinder(ttns).find_path()]
                    ph["left_out"] = ph["path"][0] if st["node"] == "first" else cur[st["node"]]
                    cache = SandwichCache.init_cache_but_one(ttns, ttno, sid(ph["left_out"]))
                    ph["keys"] = [[nid(a), nid(b)] for a, b in cache.keys()]
                    ph["bad_blocks"] = check_cache_blocks(ttns, ttno, cache)
                elif op == "rename":
                    for T in (ttns, ttno):
                        T.change_node_identifier(sid(st["new"]), sid(cur[st["node"]]))
                    cur[st["node"]] = st["new"]
                elif op == "swap":
                    a, b = st["a"], st["b"]
                    for T in (ttns, ttno):
                        T.change_node_identifier(sid(st["tmp"]), sid(cur[a]))
                        T.change_node_identifier(sid(cur[a]), sid(cur[b]))
                        T.change_node_identifier(sid(cur[b]), sid(st["tmp"]))
                    cur[a], cur[b] = cur[b], cur[a]
                elif op == "merge_split":
                    c = st["child"]
                    pid, cid = sid(cur[par[c]]), sid(cur[c])
                    for T in (ttns, ttno):
                        sp, sc = T.legs_before_combination(pid, cid)
                        dim = int(T.tensors[cid].shape[T.nodes[cid].neighbour_index(pid)])
                        T.contract_nodes(pid, cid, new_identifier=sid(st["tmp"]))
                        if st["split"] == "svd":
                            T.split_node_svd(sid(st["tmp"]), sp, sc, u_identifier=sid(st["new_parent"]), v_identifier=sid(st["new_child"]),
                                             svd_params=SVDParameters(max_bond_dim=dim, rel_tol=1e-13, total_tol=1e-13))
                        else:
                            T.split_node_qr(sid(st["tmp"]), sp, sc, q_identifier=sid(st["new_parent"]), r_identifier=sid(st["new_child"]),
                                            mode=getattr(SplitMode, st["split"][3:]))
                    cur[par[c]], cur[c] = st["new_parent"], st["new_child"]
                elif op == "copy":
                    ttns, ttno = copy.deepcopy(ttns), copy.deepcopy(ttno)
            except Exception as e:  # noqa
                import traceback
                ob["err"] = {"step": k, "what": f"{type(e).__name__}: {e}"[:200], "tb": traceback.format_exc()[-500:]}
                break
        return ob

    def impl(self, ctx, cases):
        out = []
        for c in cases:
            try:
                out.append(self._impl_real(c) if c["kind"] == "real" else self._impl_tdvp(c) if c["kind"] == "tdvp" else
                           self._impl_edit(c) if c["kind"] == "edit" else self._impl_struct(c))
            except Exception as e:  # noqa
                import traceback
                out.append({"exception": f"{type(e).__name__}: {e}", "tb": traceback.format_exc()[-1500:]})
        return out

    # ---------------------------------------------------------------------------------------
    # expected values, as Coq literals
    @staticmethod
    def _exp(r, f):
        """observation {ok:..}/{err:..} -> Coq option literal (None = the implementation raised)."""
        return copt(r["ok"], f) if "ok" in r else "None"

    def _model_expr(self, case, ob):
        if case["kind"] == "tdvp":
            per_tree = coq_list(case["trees"], lambda tr: f"(let t := {util.coq_rtree(case_rtree(tr))} in (update_path t, tdvp_cache_keys t))")
            if not self._special_case(case):
                return per_tree
            # histories with prepared / taken-over states (state objects are shared, so every object of such a history): the
            # library may have reordered the children of a node, so the model is evaluated on the ordered tree that was handed in
            # (path) and on the one the object holds when the cache is built (keys)
            lits, _ = self._spec_plan(case, ob)
            items = [f"(let t := {lit} in (update_path t, " +
                     (coq_list([f"cache_keys t {cn(u)}" for u in us]) if us else "(@nil (option (list (nat * nat))))") + "))"
                     for lit, us in lits]
            spec = coq_list(items) if items else "(@nil (option (list nat) * list (option (list (nat * nat)))))"
            return f"({per_tree}, {spec})"
        if case["kind"] == "real":
            tl = util.coq_rtree(tuple_tree(ob["rtree"]))
            return f"(let t := {tl} in (update_path t, tdvp_cache_keys t))"
        if case["kind"] == "edit":
            # per completed initialisation: the model on the ordered tree the state holds at that moment
            phs = [ph for ph in ob["phases"] if "keys" in ph]
            if not phs:
                return "(@nil (option (list nat) * option (list (nat * nat))))"
            return coq_list(phs, lambda ph: f"(let t := {util.coq_rtree(tuple_tree(ph['rtree']))} in (update_path t, cache_keys t {cn(ph['left_out'])}))")
        tl = util.coq_rtree(case_rtree(case))
        t = "t"
        cen = ob["centres"]
        per = ob["per"]
        E = self._exp

        def tab(key, f):
            return coq_list(cen, lambda x: f"({cn(x)}, {E(per[str(x)][key], f)})")

        def tabv(key, f):   # queries the model answers without an error channel
            return coq_list(cen, lambda x: f"({cn(x)}, {f(per[str(x)][key]['ok'])})")
        known = [x for x in cen if "ok" in per[str(x)]["children"]]
        # (trees with many nodes: the expected values are literals with unary identifiers, whose elaboration dominates the
        #  evaluation; the exact tie of the longest tables is restricted to a prefix — two centres for the distance dicts, the
        #  first left-out node = update_path[0] for the caching path and the cache keys; the oracle judges all of them)
        big = len(case["parents"]) > LARGE_FULL_TIE
        parts = []
        parts.append(f"linearise {t}")
        parts.append(f"mism (path_to_root {t}) (oeqb lneq) {tab('to_root', cl)}")
        parts.append(f"mism (distance_to_node {t}) (oeqb lpeq) " +
                     coq_list(cen[:2] if big else cen, lambda x: f"({cn(x)}, {E(per[str(x)]['dist'], cpairs)})"))
        parts.append(f"mism (subtree_nodes {t}) (oeqb lneq) {tab('subtree', cl)}")
        parts.append(f"mism (leaves_under {t}) (oeqb lneq) {tab('leaves', cl)}")
        parts.append(f"mism (subtree_size {t}) (oeqb Nat.eqb) {tab('size', cn)}")
        kn = lambda key, f: coq_list(known, lambda x: f"({cn(x)}, {f(per[str(x)][key]['ok'])})")
        parts.append(f"mism (children_ids {t}) lneq {kn('children', cl)}")
        parts.append(f"mism (fun x => parent_of x {t}) (oeqb Nat.eqb) {kn('parent', lambda p: copt(p, cn))}")
        parts.append(f"mism (degree {t}) Nat.eqb {kn('degree', cn)}")
        parts.append(f"mism (is_leaf {t}) Bool.eqb {kn('is_leaf', lambda b: 'true' if b else 'false')}")
        parts.append(f"get_leaves {cl(ob['node_order'])} {t}")
        parts.append(f"nearest_neighbours {cl(ob['node_order'])} {t}")
        prs = coq_list(list(zip(ob["pairs"], ob["paths"])), lambda pr: f"(({cn(pr[0][0])}, {cn(pr[0][1])}), {E(pr[1], cl)})")
        parts.append(f"mism (fun ab => path_from_to {t} (fst ab) (snd ab)) (oeqb lneq) {prs}")
        parts.append(f"(start_node {t}, main_path {t}, update_path {t})")
        lo = ob["cache_order"][:1] if big else ob["cache_order"]
        cache = ob["cache"]
        parts.append("mism (find_caching_path %s) (oeqb cseq) %s" % (t, coq_list(lo, lambda x: "(%s, %s)" % (
            cn(x), E(cache[str(x)]["caching"], lambda v: f"({cl(v[0])}, {cpairs(v[1])})")))))
        parts.append("mism (cache_keys %s) (oeqb lpeq) %s" % (t, coq_list(lo, lambda x: "(%s, %s)" % (cn(x), E(cache[str(x)]["keys"], cpairs)))))
        parts.append(f"tdvp_cache_keys {t}")
        return f"(let t := {tl} in (" + ", ".join(parts) + "))"

    @staticmethod
    def _spec_plan(case, ob):
        """for a history with prepared / taken-over states: the distinct ordered trees the library held (as Coq literals, each
        with the left-out nodes whose cache keys are needed — one single-level `let` per tree: chains of `let`s over literals
        with large unary identifiers are very slow to elaborate) and, per object that was constructed, (index of the tree
        handed in, [(index of the tree held when the cache was built, position of the left-out node) per observed phase])."""
        lits, index, plan = [], {}, []

        def T(rt):
            lit = util.coq_rtree(tuple_tree(rt))
            if lit not in index:
                index[lit] = len(lits)
                lits.append((lit, []))
            return index[lit]
        for rec in ob["objects"]:
            if "rtree_in" not in rec:
                plan.append(None)
                continue
            tin = T(rec["rtree_in"])
            phs = []
            for ph in rec["phases"]:
                if "err" in ph or not ph["path"]:
                    phs.append(None)
                    continue
                k = T(ph["rtree_state"])
                us = lits[k][1]
                if ph["path"][0] not in us:
                    us.append(ph["path"][0])
                phs.append((k, us.index(ph["path"][0])))
            plan.append((tin, phs))
        return lits, plan

    @staticmethod
    def _special(o):
        return bool(o.get("prepare")) or "from" in o

    @classmethod
    def _special_case(cls, case):
        return case["kind"] == "tdvp" and any(cls._special(o) for o in case["objects"])

    def model(self, ctx, cases, obs):
        exprs, idx, small = [], [], []
        for i, (c, ob) in enumerate(zip(cases, obs)):
            if "exception" in ob:
                continue
            if c["kind"] == "tdvp":      # tiny expressions: ten histories per evaluated expression (fewer coqc start-ups)
                small.append(i)
                continue
            if c["kind"] in ("large", "real") and len(c["parents"]) > ctx.scale(LARGE_TIE_QUICK, LARGE_TIE_THOROUGH):
                continue                 # oracle only (the model needs a minute per tree of this size: unary identifiers)
            exprs.append(self._model_expr(c, ob))
            idx.append(i)
        plain = [i for i in small if not self._special_case(cases[i])]
        spec = [i for i in small if i not in set(plain)]
        # (histories with prepared states carry one tree literal per distinct children order: smaller groups)
        groups = [plain[k:k + 10] for k in range(0, len(plain), 10)] + [spec[k:k + 4] for k in range(0, len(spec), 4)]
        gexprs = ["[" + "; ".join(self._model_expr(cases[i], obs[i]) for i in g) + "]" for g in groups]
        # the files are evaluated in parallel, twelve expressions each: one (heavy) group expression per file
        SH = 12
        # (the expressions of trees with many nodes are heavy too: they go first, one per file)
        is_heavy = lambda k: cases[idx[k]]["kind"] == "large" or len(cases[idx[k]]["parents"]) > 100
        heavy = [("e", k) for k in range(len(exprs)) if is_heavy(k)]
        heavy.sort(key=lambda wk: -len(cases[idx[wk[1]]]["parents"]))
        rest = [k for k in range(len(exprs)) if not is_heavy(k)]
        heavy += [("g", gi) for gi in range(len(groups))]
        layout = []
        while rest or heavy:
            take = SH
            if heavy:
                layout.append(heavy.pop(0))
                take -= 1
            layout += [("e", k) for k in rest[:take]]
            rest = rest[take:]
        vals = coq_eval(ctx, IMPORTS, [gexprs[k] if w == "g" else exprs[k] for w, k in layout], prelude=PRELUDE, shard=SH, scope="nat_scope")
        out = [None] * len(cases)
        for (w, k), v in zip(layout, vals):
            if w == "e":
                out[idx[k]] = v
            else:
                for pos, i in enumerate(groups[k]):
                    out[i] = v if isinstance(v, BaseException) else v[pos]
        return out

    # ---------------------------------------------------------------------------------------
    def compare(self, case, ob, mo):
        if "exception" in ob:
            return f"implementation raised {ob['exception']} where the model runs"
        if case["kind"] == "tdvp":
            for j, (tr, tob) in enumerate(zip(case["trees"], ob["trees"])):
                want = {}

                def walk(t, p):
                    want[str(t[0])] = [p, [c[0] for c in t[1]]]
                    for c in t[1]:
                        walk(c, t[0])
                walk(case_rtree(tr), None)
                if tob["structure"] != want:
                    return f"the state of tree {j} does not hold the tree that was built"
            any_special = self._special_case(case)
            mo_trees, mo_spec = (mo if any_special else (mo, []))
            plan = self._spec_plan(case, ob)[1] if any_special else [None] * len(ob["objects"])

            def unordered(t):
                return (t[0], sorted(unordered(c) for c in t[1]))
            for j, (o, rec) in enumerate(zip(case["objects"], ob["objects"])):
                up_m, keys_m = mo_trees[o["tree"]]
                pm = None if up_m is None else list(up_m[1])
                km = None if keys_m is None else [list(p) for p in keys_m[1]]
                pl = plan[j]
                if pl is not None:
                    # same rooted tree as the case (as an UNORDERED tree); model on the ordered trees the library holds
                    want_t = unordered(case_rtree(case["trees"][o["tree"]]))
                    if unordered(tuple_tree(rec["rtree_in"])) != want_t:
                        return f"TDVP object {j}: the state handed in does not hold the tree of the case: {rec['rtree_in']}"
                    up_s = mo_spec[pl[0]][0]
                    pm = None if up_s is None else list(up_s[1])
                for i, ph in enumerate(rec["phases"]):
                    where = f"TDVP object {j} ({o['algo']} on tree {o['tree']}) after {ph['after'] or 'construction'}"
                    if "err" in ph:
                        return f"{where}: observation raised {ph['err']}"
                    if ph["path"] != pm:
                        return f"{where}: update_path {ph['path']}, model {pm}"
                    if pl is not None and pl[1][i] is not None:
                        if unordered(tuple_tree(ph["rtree_state"])) != want_t:
                            return f"{where}: the object's state does not hold the tree of the case: {ph['rtree_state']}"
                        k1 = list(mo_spec[pl[1][i][0]][1])[pl[1][i][1]]
                        km = None if k1 is None else [list(p) for p in k1[1]]
                    if ph["keys"] != km:
                        return f"{where}: cache keys {ph['keys']}, model {km}"
                if "err" in rec:
                    return f"TDVP object {j} ({o['algo']} on tree {o['tree']}): {rec['err']}; the model gives the path {pm}"
            return None
        if case["kind"] == "edit":
            trace = edit_labels_trace(case)

            def unordered(t):
                return (t[0], sorted(unordered(c) for c in t[1]))
            phs = [ph for ph in ob["phases"] if "keys" in ph]
            for ph, (up_m, keys_m) in zip(phs, mo):
                where = f"initialisation at step {ph['step']} of the history"
                want_t = unordered(case_rtree({"parents": case["parents"], "labels": trace[ph["step"]], "attach": case["attach"]}))
                if unordered(tuple_tree(ph["rtree"])) != want_t:
                    return f"{where}: the state does not hold the edited tree of the case: {ph['rtree']}"
                if unordered(tuple_tree(ph["rtree_op"])) != want_t:
                    return f"{where}: the operator does not hold the edited tree of the case: {ph['rtree_op']}"
                pm = None if up_m is None else list(up_m[1])
                if ph["path"] != pm:
                    return f"{where}: update path {ph['path']}, model {pm}"
                km = None if keys_m is None else [list(p) for p in keys_m[1]]
                if ph["keys"] != km:
                    return f"{where}: cache keys (left out {ph['left_out']}) {ph['keys']}, model {km}"
            if "err" in ob:
                return f"step {ob['err']['step']} ({case['steps'][ob['err']['step']]}) raised {ob['err']['what']} where the model runs"
            return None
        if case["kind"] == "real":
            up_m, keys_m = mo
            want = {str(i): p for i, p in enumerate(case["parents"])}
            if {k: v[0] for k, v in ob["structure"].items()} != want:
                return "the state does not hold the tree that was built"
            if up_m is None or list(up_m[1]) != ob["update"]["ok"]["path"]:
                return f"update path: impl {ob['update']['ok']['path']} model {up_m}"
            if "err" in ob["keys"]:
                return f"init_cache_but_one raised {ob['keys']['err']}; model {keys_m}"
            km = None if keys_m is None else [list(p) for p in keys_m[1]]
            if km != ob["keys"]["ok"]:
                return f"cache keys: impl {ob['keys']['ok']} model {km}"
            return None
        (lin, m_root, m_dist, m_sub, m_leaves, m_size, m_ch, m_par, m_deg, m_leaf, gl, nn, m_paths, upd, m_cp, m_keys, tdk) = mo
        # the library must hold the tree the case describes
        rt = case_rtree(case)
        want = {}

        def walk(t, p):
            want[str(t[0])] = [p, [c[0] for c in t[1]]]
            for c in t[1]:
                walk(c, t[0])
        walk(rt, None)
        if ob["structure"] != want:
            return "the TreeStructure does not hold the tree that was built"
        if lin != ob["linearise"]:
            return f"linearise: impl {ob['linearise']} model {lin}"
        names = [("find_path_to_root", m_root), ("distance_to_node", m_dist), ("find_subtree_of_node", m_sub), ("leaves_under_node", m_leaves),
                 ("find_subtree_size_of_node", m_size), ("children", m_ch), ("parent", m_par), ("nneighbours", m_deg), ("is_leaf", m_leaf)]
        for name, mm in names:
            if mm:
                x = ob["centres"][mm[0]] if name in ("find_path_to_root", "distance_to_node", "find_subtree_of_node", "leaves_under_node", "find_subtree_size_of_node") \
                    else [c for c in ob["centres"] if "ok" in ob["per"][str(c)]["children"]][mm[0]]
                return f"{name}({x}) differs from the model; impl {ob['per'][str(x)]}"
        if gl != ob["get_leaves"]:
            return f"get_leaves: impl {ob['get_leaves']} model {gl}"
        if [list(p) for p in nn] != ob["nearest_neighbours"]:
            return f"nearest_neighbours: impl {ob['nearest_neighbours']} model {nn}"
        if m_paths:
            k = m_paths[0]
            return f"path_from_to{tuple(ob['pairs'][k])}: impl {ob['paths'][k]} differs from the model"
        st_m, main_m, up_m = upd
        if "err" in ob["update"]:
            if up_m is not None:
                return f"TDVPUpdatePathFinder raised {ob['update']['err']}; model gives {up_m}"
        else:
            u = ob["update"]["ok"]
            if st_m != ("Some", u["start"]):
                return f"start node: impl {u['start']} model {st_m}"
            if main_m != ("Some", u["main"]):
                return f"main path: impl {u['main']} model {main_m}"
            if up_m != ("Some", u["path"]):
                return f"update path: impl {u['path']} model {up_m}"
        if m_cp:
            x = ob["cache_order"][m_cp[0]]
            return f"_find_caching_path(left_out={x}): impl {ob['cache'][str(x)]['caching']} differs from the model"
        if m_keys:
            x = ob["cache_order"][m_keys[0]]
            return f"init_cache_but_one(left_out={x}) keys: impl {ob['cache'][str(x)]['keys']} differs from the model"
        if "ok" in ob["update"] and ob["update"]["ok"]["path"] and case["kind"] != "malformed":
            first = ob["update"]["ok"]["path"][0]
            k_impl = ob["cache"].get(str(first), {}).get("keys")
            if k_impl is not None and "ok" in k_impl:
                km = None if tdk is None else [list(p) for p in tdk[1]]
                if km != k_impl["ok"]:
                    return f"TDVP cache keys: impl {k_impl['ok']} model {km}"
        return None

    # ---------------------------------------------------------------------------------------
    def _oracle_update_and_cache(self, adj, root, parent, up, keysets):
        nodes = set(adj)
        if sorted(up) != sorted(nodes):
            return f"update path {up} is not a permutation of the node set"
        depth, _ = bfs(adj, root)
        maxd = max(depth.values())
        if depth[up[0]] != maxd or (len(nodes) > 1 and len(adj[up[0]]) != 1):
            return f"update path starts at {up[0]} (depth {depth[up[0]]}, degree {len(adj[up[0]])}), not a deepest leaf (max depth {maxd})"
        if len(adj[up[-1]]) > 1:
            return f"update path ends at {up[-1]} of degree {len(adj[up[-1]])}"
        cross = collections.Counter()
        for a, b in zip(up, up[1:]):
            p = bfs_path(adj, a, b)
            for u, v in zip(p, p[1:]):
                cross[frozenset((u, v))] += 1
        worst = [e for e, k in cross.items() if k > 2]
        if worst:
            return f"walking the update path crosses edge {sorted(worst[0])} {cross[worst[0]]} times"
        for left_out, keys in keysets:
            edges = collections.Counter(frozenset(k) for k in keys)
            want = {frozenset((c, p)) for c, p in parent.items()}
            if set(edges) != want or any(v != 1 for v in edges.values()) or len(keys) != len(want):
                return f"cache (left out {left_out}) does not hold exactly one block per edge: {keys}"
            seen = set()
            for a, b in keys:
                if a == left_out or bfs_path(adj, a, left_out)[1] != b:
                    return f"cache block ({a},{b}) does not point toward {left_out}"
                need = [(k, a) for k in adj[a] if k != b]
                if any(x not in seen for x in need):
                    return f"cache block ({a},{b}) is created before the blocks it is contracted from (left out {left_out})"
                seen.add((a, b))
        return None

    def oracle(self, case, ob):
        if "exception" in ob:
            return f"raised {ob['exception']}"
        if case["kind"] == "tdvp":
            for j, (o, rec) in enumerate(zip(case["objects"], ob["objects"])):
                tr = case["trees"][o["tree"]]
                adj, root, parent = graph_of(tr)
                who = (f"TDVP object {j} of {len(case['objects'])} created in this process ({o['algo']}, tree {case_rtree(tr)}, "
                       f"identifiers along the {case['scheme']} traversal)")
                if "from" in o:
                    who += f" whose initial state is the current state of object {o['from']} (after {case['objects'][o['from']]['ops']})"
                if o.get("prepare"):
                    who += ((", then prepared by " if "from" in o else " whose initial state was prepared by ") +
                            self._prep_text(o["prepare"], tr["labels"]))
                if rec.get("initial_centre") is not None:
                    who += f" [orthogonality centre of the state handed in: {rec['initial_centre']}]"
                for ph in rec["phases"]:
                    where = who + (f" after {ph['after']}" if ph["after"] else " after construction")
                    if "err" in ph:
                        return f"{where}: {ph['err']}"
                    up = ph["path"]
                    if not set(up) <= set(adj):
                        return f"{where}: update path {up} contains identifiers that are not nodes"
                    keys = [tuple(k) for k in ph["keys"]]
                    if any(a not in adj or b not in adj[a] for a, b in keys):
                        return f"{where}: the environment cache holds blocks that belong to no edge: {keys}"
                    w = self._oracle_update_and_cache(adj, root, parent, up, [(up[0], keys)] if up else [])
                    if w:
                        return f"{where}: {w}"
                    if ph["bad_blocks"]:
                        a, b, how = ph["bad_blocks"][0]
                        return (f"{where}: the block ({a},{b}) of the initial environment cache is not the contraction of the current "
                                f"state and operator over the subtree behind the edge ({how})")
                if "err" in rec:
                    return f"{who}: {rec['err']}"
            return None
        if case["kind"] == "edit":
            trace = edit_labels_trace(case)

            def told(upto):
                labs = [case["labels"]] + trace
                return (f"tree {case_rtree(case)}; history on ONE state / operator pair: " +
                        "; ".join(edit_step_text(case, k, labs[k]) for k in range(upto + 1)))
            for ph in ob["phases"]:
                if "keys" not in ph:
                    continue
                k = ph["step"]
                adj, root, parent = graph_of({"parents": case["parents"], "labels": trace[k]})
                up = ph["path"]
                if not set(up) <= set(adj):
                    return f"{told(k)}: update path {up} contains identifiers that are not nodes of the edited tree"
                keys = [tuple(q) for q in ph["keys"]]
                if any(a not in adj or b not in adj[a] for a, b in keys):
                    return f"{told(k)}: the cache holds blocks that belong to no edge of the edited tree {sorted(parent.items())}: {keys}"
                w = self._oracle_update_and_cache(adj, root, parent, up, [(ph["left_out"], keys)])
                if w:
                    return f"{told(k)}: {w}"
                if ph["bad_blocks"]:
                    a, b, how = ph["bad_blocks"][0]
                    return (f"{told(k)}: the block ({a},{b}) of the cache is not the contraction of the current state and operator "
                            f"over the subtree behind the edge ({how})")
            if "err" in ob:
                k = ob["err"]["step"]
                cur = ([case["labels"]] + trace)[k]
                return (f"{told(k)}: this last step raised {ob['err']['what']}; the tree at that moment is the ordinary rooted tree "
                        f"{case_rtree({'parents': case['parents'], 'labels': cur, 'attach': case['attach']})}")
            return None
        if case["kind"] == "real":
            par = case["parents"]
            c2 = {"parents": par, "labels": list(range(len(par)))}
            adj, root, parent = graph_of(c2)
            if "err" in ob["keys"]:
                return f"init_cache_but_one raised {ob['keys']['err']}"
            if not ob.get("shapes_ok", True):
                return "a cached block is not a 3-leg tensor"
            up = ob["update"]["ok"]["path"]
            w = self._oracle_update_and_cache(adj, root, parent, up, [(up[0], [tuple(k) for k in ob["keys"]["ok"]])] if up else [])
            if w and case.get("prepare"):
                w = (f"TDVPUpdatePathFinder on a state prepared by {self._prep_text(case['prepare'], list(range(len(par))))} "
                     f"[orthogonality centre {ob.get('centre')}], tree {tuple_tree(ob['rtree'])}: {w}")
            return w
        adj, root, parent = graph_of(case)
        nodes = set(adj)
        if case["kind"] == "malformed":
            # unknown identifiers must be rejected (path x x is returned unchecked: documented quirk, not part of the property)
            for (a, b), r in zip(ob["pairs"], ob["paths"]):
                if a != b and (a not in nodes or b not in nodes) and "ok" in r:
                    return f"path_from_to({a},{b}) with an unknown identifier returned {r['ok']}"
            for x in ob["centres"]:
                if x not in nodes:
                    for key in ("to_root", "dist", "subtree", "leaves", "size"):
                        if "ok" in ob["per"][str(x)][key]:
                            return f"{key}({x}) on an unknown identifier returned a value"
            return None
        # --- navigation against elementary graph search
        lin = ob["linearise"]
        if sorted(lin) != sorted(nodes) or lin[-1] != root:
            return f"linearise {lin}: not a permutation ending in the root"
        pos = {x: i for i, x in enumerate(lin)}
        for c, p in parent.items():
            if pos[c] > pos[p]:
                return f"linearise: child {c} after its parent {p}"
        for x in ob["centres"]:
            pr = ob["per"][str(x)]
            for key in pr:
                if "err" in pr[key]:
                    return f"{key}({x}) raised {pr[key]['err']}"
            if pr["to_root"]["ok"] != bfs_path(adj, x, root):
                return f"find_path_to_root({x}) = {pr['to_root']['ok']}, graph search gives {bfs_path(adj, x, root)}"
            d, _ = bfs(adj, x)
            got = pr["dist"]["ok"]
            if len(got) != len(nodes) or {k: v for k, v in got} != d:
                return f"distance_to_node({x}) = {got}, graph search gives {d}"
            # descendants by search away from the parent
            ds = {x}
            stack = [x]
            while stack:
                u = stack.pop()
                for v in adj[u]:
                    if v != parent.get(u) and v not in ds:
                        ds.add(v)
                        stack.append(v)
            if sorted(pr["subtree"]["ok"]) != sorted(ds):
                if len(ds) > 60:
                    return (f"find_subtree_of_node({x}) on a tree with {len(nodes)} nodes returns {len(pr['subtree']['ok'])} nodes "
                            f"({pr['subtree']['ok'][:12]}...), graph search finds {len(ds)} (missing e.g. {sorted(ds - set(pr['subtree']['ok']))[:8]})")
                return f"find_subtree_of_node({x}) = {pr['subtree']['ok']}, expected {sorted(ds)}"
            lv = sorted(y for y in ds if all(v == parent.get(y) for v in adj[y]))
            if sorted(pr["leaves"]["ok"]) != lv:
                return f"leaves_under_node({x}) = {pr['leaves']['ok']}, expected {lv}"
            if pr["size"]["ok"] != len(ds):
                return f"find_subtree_size_of_node({x}) = {pr['size']['ok']}, expected {len(ds)}"
        if "every" in ob:
            kids = {x: [v for v in adj[x] if v != parent.get(x)] for x in nodes}
            for x in sorted(nodes):
                pr = ob["every"][str(x)]
                for key in pr:
                    if "err" in pr[key]:
                        return f"{key}({x}) raised {pr[key]['err']} (tree with {len(nodes)} nodes)"
                ds, stack = [], [x]
                while stack:
                    u = stack.pop()
                    ds.append(u)
                    stack.extend(kids[u])
                got = pr["subtree"]["ok"]
                if sorted(got) != sorted(ds) or not pr["subtree_is_nodes"]["ok"]:
                    miss = sorted(set(ds) - set(got))
                    return (f"find_subtree_of_node({x}) on a tree with {len(nodes)} nodes returns {len(got)} nodes, graph search finds {len(ds)}"
                            f" (missing e.g. {miss[:5]}, not below the node: {sorted(set(got) - set(ds))[:5]})")
                lv = sorted(y for y in ds if not kids[y])
                if sorted(pr["leaves"]["ok"]) != lv:
                    return f"leaves_under_node({x}) on a tree with {len(nodes)} nodes returns {len(pr['leaves']['ok'])} nodes, expected the {len(lv)} leaves {lv[:8]}..."
                if pr["size"]["ok"] != len(ds):
                    return f"find_subtree_size_of_node({x}) = {pr['size']['ok']}, expected {len(ds)}"
                up, u = [x], x
                while u != root:
                    u = parent[u]
                    up.append(u)
                if pr["to_root"]["ok"] != up:
                    return f"find_path_to_root({x}) = {pr['to_root']['ok']}, following the parents gives {up}"
        all_leaves = sorted(y for y in nodes if all(v == parent.get(y) for v in adj[y]))
        if sorted(ob["get_leaves"]) != all_leaves:
            return f"get_leaves {ob['get_leaves']} expected {all_leaves}"
        if sorted(map(tuple, ob["nearest_neighbours"])) != sorted((p, c) for c, p in parent.items()):
            return f"nearest_neighbours {ob['nearest_neighbours']} is not the (parent, child) edge list"
        for (a, b), r in zip(ob["pairs"], ob["paths"]):
            if "err" in r:
                return f"path_from_to({a},{b}) raised {r['err']}"
            if r["ok"] != bfs_path(adj, a, b):
                return f"path_from_to({a},{b}) = {r['ok']}, graph search gives {bfs_path(adj, a, b)}"
        # --- update path and cache
        if "err" in ob["update"]:
            return f"TDVPUpdatePathFinder raised {ob['update']['err']}"
        up = ob["update"]["ok"]["path"]
        keysets = []
        for x in ob["cache_order"]:
            k = ob["cache"][str(x)]["keys"]
            if "err" in k:
                return f"init_cache_but_one(left_out={x}) raised {k['err']}"
            keysets.append((x, [tuple(p) for p in k["ok"]]))
        return self._oracle_update_and_cache(adj, root, parent, up, keysets)

    @staticmethod
    def _prep_text(prep, lab):
        m = "SplitMode." + prep["mode"]
        if prep["how"] in ("canonical_form", "orthogonalize"):
            return f"{prep['how']}({lab[prep['node']]}, {m})"
        via = prep["via"] if prep["how"] == "move_chain" else prep["via"][:1]
        return (f"canonical_form({lab[via[0]]}, {m}) + move_orthogonalization_center to " +
                ", ".join(str(lab[x]) for x in via[1:] + [prep["node"]]))

    def classify(self, case, what, known):
        return None


def tuple_tree(t):
    return (t[0], [tuple_tree(c) for c in t[1]])
