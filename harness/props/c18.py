"""C18 — the evolution driver records the right observables at the right times."""
from __future__ import annotations

import copy
import math
from fractions import Fraction

import numpy as np

from lib import Prop, coq_eval, coq_q, coq_nat, SkipCase
import util
from util import TensorProduct
# [ext-C18X] the driver as a state machine (Driver/RunState*.v), see props/c18x.py
from props import c18x
# [/ext-C18X]


# dictionary keys whose insertion order differs from their sorted order
KEYS = ["magnetisation", "energy", "correlation", "op10", "op2"]

# order of the two-site terms (= the gate order of one TEBD step) in the "sites" family
GATE_ORDERS = ["index", "reverse", "evenodd", "shuffle"]
# first factor of a two-site term (= the site that keeps the isometry when TEBD splits the gate): parent, child, random
GATE_ORIENTS = ["pc", "cp", "mixed"]


def edge_hamiltonian(rng, parents, ids, dims, order, orient, fields):
    """Nearest-neighbour Hamiltonian on the tree `parents` (node i <-> ids name f"n{i}"): one two-site term on every
    edge, listed in the given order (node index, reversed, children of even depth first, random) with the parent or
    the child as first factor, and single-site fields on a random subset of the nodes placed behind / before / between
    the two-site terms."""
    nprs = np.random.RandomState(rng.randrange(2 ** 31))
    conv = util.rand_conv(nprs, dims.values(), 3, True)
    n = len(parents)
    depth = [0] * n
    for i in range(1, n):
        depth[i] = depth[parents[i]] + 1
    edges = list(range(1, n))
    if order == "reverse":
        edges.reverse()
    elif order == "evenodd":
        edges = [i for i in edges if depth[i] % 2 == 0] + [i for i in edges if depth[i] % 2 == 1]
    elif order == "shuffle":
        rng.shuffle(edges)
    two = []
    for c in edges:
        a, b = f"n{parents[c]}", f"n{c}"
        if orient == "cp" or (orient == "mixed" and rng.random() < 0.5):
            a, b = b, a
        two.append(TensorProduct({a: f"A{rng.randrange(3)}_{dims[a]}", b: f"A{rng.randrange(3)}_{dims[b]}"}))
    one = []
    if fields != "no":
        for i in rng.sample(range(n), rng.randrange(1, n + 1)):
            one.append(TensorProduct({f"n{i}": f"A{rng.randrange(3)}_{dims[f'n{i}']}"}))
    if fields == "before":
        tps = one + two
    elif fields == "mixed":
        tps = list(two)
        for t in one:
            tps.insert(rng.randrange(len(tps) + 1), t)
    else:
        tps = two + one
    return util.Hamiltonian([(Fraction(1), "1", tp) for tp in tps], conv, {"1": 1})


def wide_root_parents(rng, n, rootdeg):
    """random tree with n nodes whose root has at least `rootdeg` children (the other nodes hang anywhere)."""
    rootdeg = max(1, min(rootdeg, n - 1))
    return [None] + [0] * rootdeg + [rng.randrange(0, i) for i in range(rootdeg + 1, n)]


def observable_hamiltonian(rng, parents, ids, dims):
    """A many-term observable (to be given to the driver in TTNO form): one two-site term on every edge at the
    root, a few random terms of support 1..3 anywhere, site operators NOT Hermitian, a complex coefficient per term
    (so that no node tensor of the TTNO is symmetric under an exchange of two of its legs)."""
    nprs = np.random.RandomState(rng.randrange(2 ** 31))
    conv = util.rand_conv(nprs, dims.values(), 4, False)
    n = len(parents)
    supports = [[0, c] for c in range(1, n) if parents[c] == 0]
    for _ in range(rng.randrange(1, 4)):
        supports.append(rng.sample(range(n), rng.randrange(1, min(3, n) + 1)))
    rng.shuffle(supports)
    terms, cm, seen = [], {"1": 1}, set()
    for t, sup in enumerate(supports):
        tp = {f"n{i}": f"A{rng.randrange(4)}_{dims[f'n{i}']}" for i in sup}
        key = tuple(sorted(tp.items()))
        if key in seen:
            continue
        seen.add(key)
        cm[f"g{t}"] = complex(round(rng.uniform(-2, 2), 3), round(rng.uniform(-2, 2), 3)) or 1.0
        terms.append((Fraction(rng.choice([1, 2, -1, 3]), rng.choice([1, 2])), f"g{t}", TensorProduct(tp)))
    return util.Hamiltonian(terms, conv, cm)


HAMOBS_KS = [1, 2, 3, "inf"]


def fork_parents(rng, n):
    """tree with n >= 4 nodes in which a NON-root node branches: a chain of 1..2 nodes from the root to the fork
    node, 2..3 children below it, the remaining nodes hung below those children (so that their subtrees are larger
    than one site) or, with a small probability, anywhere."""
    chain = 1 if n < 6 else rng.choice([1, 1, 2])
    par = [None] + list(range(chain))            # nodes 0..chain, node `chain` is the fork
    fork = chain
    deg = 2 if n - len(par) < 5 else rng.choice([2, 2, 3])
    kids = []
    for _ in range(deg):
        kids.append(len(par))
        par.append(fork)
    j = 0
    while len(par) < n:
        if rng.random() < 0.15:
            par.append(rng.randrange(len(par)))
        else:
            par.append(kids[j % deg] if rng.random() < 0.8 else rng.randrange(kids[0], len(par)))
            j += 1
    return par


def gen_hamobs(rng, kind, quick, shape=None):
    """one case of the 'hamobs' family (see C18.rule)"""
    shape = shape or rng.choice(["fork", "fork", "random", "wide"])
    nmax = 6 if kind not in ("exact", "tebd") else 7
    if shape == "fork":
        par = fork_parents(rng, rng.choice([5, 6, 6, nmax]))
    elif shape == "wide":
        nn = rng.choice([4, 5, 6])
        par = wide_root_parents(rng, nn, rng.choice([2, 3]))
    else:
        par = util.random_parents(rng, rng.choice([3, 4, 5, 6]))
    n = len(par)
    nsteps = rng.choice([4, 5] if quick else [4, 5, 6, 7])
    ask = sorted(rng.sample(range(nsteps + 1), rng.randrange(1, nsteps)))
    return {"kind": "hamobs", "cls": kind, "shape": shape, "tree": par, "nsteps": nsteps,
            "cont": rng.choice(["single", "list", "dict", "dict"]), "nother": rng.randrange(0, 3),
            "hpos": rng.randrange(0, 4), "twin": rng.random() < 0.4,
            "bond": rng.choice(["2", "2", "2", "12"]), "dt": rng.choice([0.05, 0.1]),
            "seed": rng.randrange(10 ** 6), "deep": rng.random() < 0.5,
            "gauge": rng.choice(["none", "node", "node"]), "centre": rng.randrange(n),
            "order": rng.choice(GATE_ORDERS), "orient": rng.choice(GATE_ORIENTS),
            "fields": rng.choice(["after", "before", "mixed", "no"]),
            "second": {str(k): rng.choice([x for x in HAMOBS_KS]) for k in HAMOBS_KS},
            "reject": rng.choice(["run0", "key", "none"]), "ask_at": ask}


def ref_expm(m):
    """exp(m) of a small complex matrix in extended precision (numpy longdouble): scaling and squaring around a
    Taylor series.  Independent of scipy's Pade routine and of any eigendecomposition."""
    m = np.asarray(m, dtype=np.clongdouble)
    d = m.shape[0]
    nrm = float(np.max(np.sum(np.abs(m), axis=1))) if d else 0.0
    s = 0 if nrm < 0.25 else int(math.ceil(math.log2(nrm / 0.25)))
    a = m / np.longdouble(2) ** s
    term = np.eye(d, dtype=np.clongdouble)
    out = term.copy()
    for j in range(1, 26):
        term = term @ a / np.longdouble(j)
        out = out + term
    for _ in range(s):
        out = out @ out
    return out


def exactgen_input(case):
    """the (Hamiltonian / generator, dt, T, state, named operators) of an 'exactgen' case, from its content only.
    The generator is  scale * G0  and the step  tau / scale:  the represented evolution exp(-i G0 tau j) does not
    depend on `scale`."""
    nprs = np.random.RandomState(case["seed"])
    d = case["dim"]

    def crand(*shape):
        return nprs.standard_normal(shape) + 1j * nprs.standard_normal(shape)
    h0 = crand(d, d)
    h0 = (h0 + h0.conj().T) / 2
    gen = case["gen"]
    if gen == "realsym":
        g0 = np.real(h0)
    elif gen == "herm":
        g0 = h0
    elif gen == "decay":
        # effective non-Hermitian Hamiltonian: H0 - i eps L^dagger L (a loss channel of relative strength eps)
        low = crand(d, d) * (nprs.random_sample((d, d)) < 0.6)
        low[nprs.randint(d), nprs.randint(d)] = 1.0
        g0 = h0 - 1j * (10.0 ** case["eps10"]) * (low.conj().T @ low)
    else:
        g0 = crand(d, d) / max(1.0, math.sqrt(d))
    scale = 10.0 ** case["scale10"]
    ham = scale * g0
    if gen == "realsym":
        ham = np.ascontiguousarray(np.real(ham))
    dt = case["tau"] / scale
    lay = case["layout"]
    if lay == "F":
        ham = np.asfortranarray(ham)
    elif lay == "view":
        big = np.zeros((2 * d, 2 * d), dtype=ham.dtype)
        big[::2, ::2] = ham
        ham = big[::2, ::2]
    psi = crand(d) if case["psi"] == "complex" else nprs.standard_normal(d)
    psi = psi / np.linalg.norm(psi) * 10.0 ** case["psi10"]
    if case["open"]:
        od = int(round(math.sqrt(d)))
    else:
        od = d
    named = {}
    for j in range(case["nops"]):
        o = crand(od, od)
        if j == 1:
            o = np.eye(od, dtype=complex)
        named[KEYS[j]] = o
    T = (case["nsteps"] + case["frac"]) * dt
    return ham, dt, T, psi, named


def state_fingerprint(state):
    """content + identity fingerprint of a caller-owned state object."""
    if isinstance(state, np.ndarray):
        return ("arr", state.tobytes(), id(state))
    out = []
    for nid in state.nodes:
        node = state.nodes[nid]
        raw = state._tensors[nid] if hasattr(state, "_tensors") else state.tensors[nid]
        out.append((nid, node.parent, tuple(node.children), tuple(node.leg_permutation),
                    np.asarray(raw).tobytes(), np.asarray(raw).shape))
    return ("ttn", tuple(out), getattr(state, "orthogonality_center_id", None), id(state))


class C18(Prop):
    id = "C18"
    title = "evolution driver"
    design_ref = "DESIGN.md section 5 / C18"
    rule = ("grid cases: (final_time, step, evaluation interval, operator container) from an exhaustive grid incl. quotients "
            "just below/above the 0.1 threshold and 'inf', run with a counting subclass; class cases: every concrete class "
            "on a small system, run/reset/run; 'sites' class cases: every concrete class on a random 3..5 node tree, a two-site "
            "term on every edge (+ fields), a single-site observable on every node + one two-site observable, caller state "
            "not canonical or canonical at any node, for TEBD every (gate order, gate orientation) pair; every class case also "
            "with the history 'operators asked after every hand-made step'; 'ttnoobs' class cases: every TTN class on a random "
            "4..6 node tree whose root has 2..4 children, observables given in TTNO form (many-term sums with complex "
            "coefficients, built from the caller's tree or from an equal tree whose children were attached in another order) "
            "next to 1..3-site tensor products in one container, judged against the dense sum of Kronecker products; "
            "'exactgen' cases: the exact evolution on Hermitian / real symmetric / weakly..strongly non-Hermitian (loss of "
            "relative strength 1e-10..1) / generic generators (also `open` mode), the generator in units 1e-12..1e6 with the "
            "step scaled inversely, short and long total times (|H| T up to ~1e6), state norms 1e-6..1e6, dimension 1..9, "
            "C / Fortran / strided generator arrays, non-integer T/dt, run/reset/run, judged against an extended-precision "
            "Taylor exponential at the total time with a tolerance relative to |O||psi_j|^2; "
            "'hamobs' cases: every concrete class on trees with 3..7 nodes (a non-root node with 2..3 children whose subtrees "
            "exceed the bond dimension, random trees, wide roots), the operators include the HAMILTONIAN OBJECT ITSELF (the very "
            "TTNO / matrix the instance was constructed with; singly, in a list, in a dict, at any position, optionally next to an "
            "equal separately built copy and 0..2 tensor products), every evaluation interval of {1, 2, 3, 'inf'} on a fresh instance, "
            "then a call the library rejects (run with interval 0 / unknown key: record and state must be unchanged), reset and a second "
            "run with another interval; an instance stepped by hand and asked at an irregular subset of the steps; all records judged "
            "against the dense <psi|O|psi> of an independent instance that was constructed without these operators, stepped by hand "
            "and never asked, the final states against its final state, and the records of the intervals against one another. "
            "non-trivial = at least one step performed; distinct by case content")
    clauses = [
        ("F", "num_steps: floor/ceil rule with the exact double 0.1, non-negative, unique window characterisation (C18_num_steps_*)"),
        ("F", "run: for interval k>=1 exactly the n/k+1 allocated columns are written, column j after j*k steps with time index j*k; "
              "'inf': one column after n steps; never an out-of-range write; n steps in total (C18_run_every, C18_run_inf)"),
        ("F", "a key addresses the row at its insertion position (C18_result_keys)"),
        ("O", "exact evolution: state at column j is U^(jk) psi, U = expm(-iH dt) (validated numerically against scipy expm of -iH*j*dt; "
              "for any square generator, any units / step size / state norm, also against an independent extended-precision exponential "
              "of -iH*(j*dt) with a tolerance of 1e-9 + 1e-13 |H| j dt relative to the scale of the reference value)"),
        ("V", "caller-state aliasing, reset and re-run reproducibility on every concrete class: runtime monitor (content+id fingerprints)"),
        ("V", "every concrete class: the recorded value of every operator (single-site on every node, two-site on an edge) in column j "
              "equals the dense <psi|O|psi> of the state of an independent instance stepped j*k times by hand; the same when the "
              "operators are asked after every hand-made step, and asking does not disturb the evolution; the same for observables "
              "given in TTNO form on trees with a wide root (validated, not a theorem)"),
        ("V", "every concrete class with the Hamiltonian object itself among the operators: for every evaluation interval of {1, 2, 3, 'inf'} "
              "the record (first run, and second run after a rejected call and a reset) equals the dense values on the states of an "
              "independent, never-asked instance after exactly 0, k, 2k, ... hand-made steps, the evolved state does not depend on the "
              "interval or on when operators were asked, the records of different intervals agree on common steps (validated, not a theorem)"),
    ]
    trusted_base = ["float quotient final_time/time_step_size enters the model as its exact rational value; threshold is the exact value of the double 0.1",
                    "times are compared as the single float product (j*k)*dt computed the same way in the harness"]
    assumptions = ["evaluation interval is a positive int or 'inf' (the documented domain)"]

    # -------------------------------------------------------------------------------
    def generate(self, ctx, stream, budget_scale=1):
        rng = ctx.rng(stream)
        cases = []
        dts = [1.0, 0.5, 0.25, 0.1, 0.3, 0.01, 0.125, 2.0]
        Ts_rel = [0.05, 0.099, 0.1, 0.11, 0.5, 0.9, 1.0, 1.05, 1.1, 2.0, 2.0999, 3.1, 3.5, 5.0, 7.3, 10.0, 12.09, 12.1]
        if stream != "main":
            dts = [rng.choice(dts) * rng.choice([1, 3, 0.7]) for _ in range(8)]
            Ts_rel = [rng.uniform(0.01, 15) for _ in range(18 * budget_scale)]
        ks = [1, 2, 3, 4, 5, 7, "inf", "n", "n+1"]
        containers = ["single", "list", "dict"]
        i = 0
        for dt in dts:
            for tr in Ts_rel:
                T = tr * dt
                for k in ks:
                    i += 1
                    if not ctx.thorough() and stream == "main" and (i % 3 != ctx.seed % 3):
                        continue
                    cont = containers[i % 3]
                    cases.append({"kind": "grid", "T": T, "dt": dt, "k": k, "cont": cont, "nops": 1 if cont == "single" else 1 + i % 3})
        # concrete classes
        kinds = ["exact"] + util.EVOLUTION_KINDS
        nrep = ctx.scale(1, 4) * budget_scale
        for rep in range(nrep):
            for kind in kinds:
                # every class with a non-canonical caller state, with a caller state canonical at the
                # first node of the TDVP sweep (the gauge an earlier TDVP run leaves behind) and at a
                # random node / the root
                for gauge in ["none", "start", rng.choice(["random", "root"])]:
                    cases.append({"kind": "class", "cls": kind, "tree": rng.choice([[None, 0], [None, 0, 0], [None, 0, 1], [None, 0, 0, 1]]),
                                  "nsteps": rng.choice([2, 3, 4]), "k": rng.choice([1, 2, "inf"]), "cont": rng.choice(containers),
                                  "seed": rng.randrange(10 ** 6), "deep": rng.random() < 0.5, "gauge": gauge})
        # "sites" family: every concrete class on a random tree with 3..5 nodes, a nearest-neighbour Hamiltonian with
        # one two-site term on EVERY edge (+ single-site fields), a single-site observable on EVERY node (+ one
        # two-site observable), the caller's state not canonical or canonical at ANY node.  For TEBD the order of the
        # terms is the gate order of a step (a configuration only that class has), so it gets one case per
        # (order, orientation) pair.
        for rep in range(nrep):
            for kind in kinds:
                if kind == "tebd":
                    confs = [(o, d) for o in GATE_ORDERS for d in GATE_ORIENTS] * ctx.scale(2, 4)
                else:
                    confs = [(rng.choice(GATE_ORDERS), rng.choice(GATE_ORIENTS))]
                for order, orient in confs:
                    nn = rng.choice([3, 3, 4, 4, 5]) if kind in ("tebd", "exact") else rng.choice([3, 3, 4])
                    cases.append({"kind": "class", "family": "sites", "cls": kind, "tree": util.random_parents(rng, nn),
                                  "nsteps": rng.choice([2, 3, 4]), "k": rng.choice([1, 2, "inf"]),
                                  "cont": rng.choice(["list", "dict"] * 4 + ["single"]),
                                  "seed": rng.randrange(10 ** 6), "deep": rng.random() < 0.5,
                                  "gauge": rng.choice(["none"] + ["node"] * 7), "centre": rng.randrange(nn),
                                  "order": order, "orient": orient,
                                  "fields": rng.choice(["after", "before", "mixed", "no"])})
        # "ttnoobs" family: observables given in TTNO form (many-term sums, next to tensor products in the same
        # container) on trees whose root has 2..4 children; the TTNO is built from the caller's tree or from an equal
        # tree whose children were attached in another order (same identifiers, same edges).
        for rep in range(nrep):
            for kind in util.EVOLUTION_KINDS:
                for deg in [3, rng.choice([2, 2, 3, 4])]:
                    nn = rng.choice([deg + 1, deg + 1, deg + 2]) if kind != "tebd" else rng.choice([deg + 1, deg + 2, deg + 3])
                    nn = min(nn, 6)
                    cases.append({"kind": "class", "family": "ttnoobs", "cls": kind, "tree": wide_root_parents(rng, nn, deg),
                                  "nsteps": rng.choice([2, 3, 4]), "k": rng.choice([1, 2, "inf"]),
                                  "cont": rng.choice(["list", "dict", "dict", "single"]),
                                  "seed": rng.randrange(10 ** 6), "deep": rng.random() < 0.5,
                                  "gauge": rng.choice(["none", "node"]), "centre": rng.randrange(nn),
                                  "order": rng.choice(GATE_ORDERS), "orient": rng.choice(GATE_ORIENTS),
                                  "fields": rng.choice(["after", "before", "mixed", "no"]),
                                  "nttno": rng.choice([1, 1, 2]), "ttno_first": rng.random() < 0.5,
                                  "obs_tree": rng.choice(["caller", "caller", "reattached"])})
        # "exactgen" family: the exact reference evolution on its whole input space: Hermitian (complex / real
        # symmetric), weakly to strongly non-Hermitian (effective Hamiltonian with a loss channel of relative strength
        # 1e-10 .. 1) and generic generators (also in the documented `open` mode on a vectorised density matrix);
        # the generator given in units spread over 18 orders of magnitude with the step scaled inversely (the
        # represented evolution is unchanged), short and long total times, states of tiny / huge norm, dimension 1,
        # memory layouts of the generator.
        for rep in range(ctx.scale(150, 1500) * budget_scale):
            cases.append(self._gen_exactgen(rng))
        # "hamobs" family: the operators to evaluate include the Hamiltonian object itself, on every concrete class,
        # every evaluation interval of {1, 2, 3, 'inf'} on a fresh instance followed by reset and a second run, on
        # trees in which a non-root node branches (bond dimension below the dimension of the subtrees), random trees
        # and trees with a wide root.  The fixed-rank / rank-adaptive BUG keep environment blocks across calls, so they
        # get more members.
        quick = not ctx.thorough()
        for rep in range(ctx.scale(2, 8) * budget_scale):
            for kind in kinds:
                cases.append(gen_hamobs(rng, kind, quick))
            for kind in ["fbug", "bug"]:
                cases.append(gen_hamobs(rng, kind, quick, shape="fork"))
        cases += c18x.generate(ctx, stream, budget_scale)      # [ext-C18X]
        return cases

    @staticmethod
    def _gen_exactgen(rng):
        gen = rng.choice(["herm", "realsym", "decay", "decay", "decay", "generic", "generic"])
        open_ = gen == "generic" and rng.random() < 0.35
        d = rng.choice([1, 4, 9]) if open_ else rng.choice([1, 2, 2, 3, 4, 4, 6])
        nsteps = rng.randrange(1, 9)
        eps10 = round(rng.uniform(-10, 0), 2) if gen == "decay" else 0.0
        scale10 = rng.choice([0.0, round(rng.uniform(-12, 6), 1), round(rng.uniform(-12, 6), 1)])
        regime = rng.choice(["short", "long"])
        if gen == "generic":
            total = rng.uniform(0.1, 4)
        elif regime == "short":
            total = 10 ** rng.uniform(-2, 1)
        elif gen == "decay":
            total = min(rng.uniform(0.1, 3) / 10 ** eps10, 3e5)
        else:
            total = 10 ** rng.uniform(1, 5.5)
        cont = rng.choice(["single", "list", "dict"])
        return {"kind": "exactgen", "gen": gen, "open": open_, "dim": d, "nsteps": nsteps,
                "frac": rng.choice([0.0, 0.0, 0.04, -0.5, 0.3]), "k": rng.choice([1, 1, 2, 3, "inf"]),
                "cont": cont, "nops": 1 if cont == "single" else rng.randrange(1, 5),
                "eps10": eps10, "scale10": scale10, "regime": regime, "tau": float(f"{total / nsteps:.4g}"),
                "psi": rng.choice(["complex", "complex", "real"]),
                "psi10": rng.choice([0.0, 0.0, round(rng.uniform(-6, 6), 1)]),
                "layout": rng.choice(["C", "C", "F", "view"]), "seed": rng.randrange(10 ** 6)}

    def nontrivial(self, case):
        if case["kind"] in ("grid", "xsm"):      # [ext-C18X] xsm
            return case["T"] / case["dt"] >= 0.5
        return True

    def distribution(self, cases):
        from collections import Counter
        c = Counter()
        for x in cases:
            c[x["kind"] + ":" + str(x.get("cls", x.get("cont")))] += 1
            if x["kind"] == "exactgen":
                c["exactgen:" + x["gen"] + (":open" if x["open"] else "")] += 1
                c["exactgen:dim:" + str(x["dim"])] += 1
                c["exactgen:regime:" + x["regime"]] += 1
                s10 = x["scale10"]
                c["exactgen:units:" + ("1" if s10 == 0 else "<1e-8" if s10 < -8 else "<1" if s10 < 0 else ">1")] += 1
                if x["gen"] == "decay":
                    c["exactgen:loss:" + ("<1e-5" if x["eps10"] < -5 else ">=1e-5")] += 1
            if x.get("family") == "ttnoobs":
                c["ttnoobs:" + x["cls"]] += 1
                c["ttnoobs:rootdeg:" + str(sum(1 for q in x["tree"] if q == 0))] += 1
                c["ttnoobs:obs_tree:" + x["obs_tree"]] += 1
            if x.get("family") == "sites":
                c["sites:" + x["cls"]] += 1
                c["sites:gauge:" + x["gauge"]] += 1
                c["sites:order:" + x["order"]] += 1
            if x["kind"] == "hamobs":
                c["hamobs:shape:" + x["shape"]] += 1
                c["hamobs:cont:" + x["cont"]] += 1
                c["hamobs:reject:" + x["reject"]] += 1
                c["hamobs:nodes:" + str(len(x["tree"]))] += 1
                continue
            c["k:" + str(x["k"])] += 1
        return dict(c)

    # -------------------------------------------------------------------------------
    def _grid_impl(self, case):
        from pytreenet.time_evolution.time_evolution import TimeEvolution

        class Counting(TimeEvolution):
            def run_one_time_step(self, **kw):
                self.state = self.state + 1

            def evaluate_operator(self, operator):
                return self.state + 1j * operator

        nops = case["nops"]
        if case["cont"] == "single":
            ops = 0
        elif case["cont"] == "list":
            ops = list(range(nops))
        else:
            ops = {KEYS[j]: j for j in range(nops)}
        ev = Counting(0, case["dt"], case["T"], ops)
        n = ev.num_time_steps
        k = case["k"]
        if k == "n":
            k = max(n, 1)
        elif k == "n+1":
            k = n + 1
        ev.run(evaluation_time=k, pgbar=False)
        res = ev.results
        ob = {"n": n, "k": k, "shape": list(res.shape), "re": np.real(res[:-1]).tolist(), "im": np.imag(res[:-1]).tolist(),
              "times": np.real(res[-1]).tolist(), "times_api": ev.times().tolist(), "final_state": ev.state,
              "initial_state": ev.initial_state}
        if case["cont"] == "dict":
            ob["bykey"] = {key: np.real(ev.operator_result(key)).tolist() for key in ops}
            ob["bykey_im"] = {key: np.imag(ev.operator_result(key)).tolist() for key in ops}
        ob["bypos"] = [np.imag(ev.operator_result(j)).tolist() for j in range(nops)]
        ev.reset_to_initial_state()
        ob["state_after_reset"] = ev.state
        ev.run(evaluation_time=k, pgbar=False)
        ob["rerun_equal"] = bool(np.array_equal(ev.results, res))
        return ob

    def _class_impl(self, case):
        import random
        from scipy.linalg import expm
        rng = random.Random(case["seed"])
        par = case["tree"]
        n = len(par)
        dt = 0.05
        nsteps = case["nsteps"]
        T = nsteps * dt
        k = case["k"]
        ttns = util.build_ttns(rng, par, phys=[2] * n, bond=2)
        ids = sorted(ttns.nodes)
        dims = util.phys_dims(ttns)
        ttnoobs = case.get("family") == "ttnoobs"
        sites = case.get("family") == "sites" or ttnoobs
        if sites:
            ham = edge_hamiltonian(rng, par, ids, dims, case["order"], case["orient"], case["fields"])
        else:
            ham = util.rand_ham(rng, ids, dims, 3, hermitian=True, max_support=2)
            # nearest-neighbour / single-site only so TEBD accepts it
            terms = []
            for fr, g, tp in ham.terms:
                keys = list(tp.keys())
                if len(keys) == 2 and keys[1] not in ttns.nodes[keys[0]].neighbouring_nodes():
                    continue
                terms.append((fr, g, tp))
            if not terms:
                terms = [(Fraction(1), "1", TensorProduct({ids[0]: f"A0_{dims[ids[0]]}"}))]
            ham = util.Hamiltonian(terms, ham.conversion_dictionary, ham.coeffs_mapping)
        H = util.dense_ham(ham, ids, dims)
        # gauge of the caller's state: not canonical, canonical at the first node of the TDVP sweep
        # (the gauge an earlier TDVP run leaves behind), at a random node, or at the root
        gauge = case.get("gauge", "none")
        if gauge == "node":
            ttns.canonical_form(f"n{case['centre']}", mode=rng.choice([util.ptn.SplitMode.REDUCED, util.ptn.SplitMode.KEEP]))
        elif gauge != "none":
            from pytreenet.time_evolution.time_evo_util.update_path import TDVPUpdatePathFinder
            centre = {"start": TDVPUpdatePathFinder(ttns).find_path()[0], "random": rng.choice(ids), "root": ttns.root_id}[gauge]
            ttns.canonical_form(centre, mode=rng.choice([util.ptn.SplitMode.REDUCED, util.ptn.SplitMode.KEEP]))
        nprs = np.random.RandomState(case["seed"])
        opm = {}    # key -> {node id: matrix}
        obs_hams = {}   # key -> many-term observable handed over in TTNO form
        if ttnoobs:
            # one or two observables in TTNO form, a single-site observable on the root and on one of its children,
            # a two-site and (if possible) a three-site tensor product, in a random order
            named = [("site_root", ["n0"]), ("site_child", [f"n{rng.choice([c for c in range(1, n) if par[c] == 0])}"]),
                     ("pair", [f"n{i}" for i in rng.sample(range(n), 2)])]
            if n >= 3:
                named.append(("triple", [f"n{i}" for i in rng.sample(range(n), 3)]))
            rng.shuffle(named)
            named = named[:rng.randrange(1, len(named) + 1)]
            for j in range(case["nttno"]):
                named.insert(0 if (case["ttno_first"] and j == 0) else rng.randrange(len(named) + 1), (f"ttno_{j}", None))
            if case["obs_tree"] == "reattached":
                # an equal tree (same identifiers, same edges) whose children were attached in another order
                obs_tree = util.build_ttns(random.Random(case["seed"] + 1), par, phys=[2] * n, bond=1)
            else:
                obs_tree = ttns
            for key, where in named:
                if where is None:
                    obs_hams[key] = observable_hamiltonian(rng, par, ids, dims)
                else:
                    opm[key] = {i: nprs.standard_normal((2, 2)) + 1j * nprs.standard_normal((2, 2)) for i in where}
            order_of_keys = [key for key, _ in named]
        elif sites:
            # a single-site observable on every node and a two-site observable on one edge, in a random order
            named = [(f"site_{i}", [i]) for i in ids]
            c = rng.randrange(1, n)
            named.append(("pair", [f"n{par[c]}", f"n{c}"]))
            rng.shuffle(named)
            for key, where in named:
                opm[key] = {i: nprs.standard_normal((2, 2)) + 1j * nprs.standard_normal((2, 2)) for i in where}
        else:
            for j in range(2):
                a = nprs.standard_normal((2, 2)) + 1j * nprs.standard_normal((2, 2))
                opm[["zz_first", "aa_second"][j]] = {ids[j % n]: a}
        ob = {"nsteps": nsteps, "k": k}
        if case["cls"] == "exact":
            from pytreenet.time_evolution.exact_time_evolution import ExactTimeEvolution
            psi0 = util.dense_vec(ttns, ids)
            dense_ops = {key: util.dense_tp(tp, ids, dims) for key, tp in opm.items()}
            ops = self._container(case["cont"], dense_ops)
            caller = psi0.copy()
            fp0 = state_fingerprint(caller)[:2]
            ev = ExactTimeEvolution(caller, H, dt, T, ops)
        else:
            ttno = util.TTNO.from_hamiltonian(copy.deepcopy(ham), ttns)
            tps = {key: TensorProduct(dict(tp)) for key, tp in opm.items()}
            if ttnoobs:
                for key, oh in obs_hams.items():
                    tps[key] = util.TTNO.from_hamiltonian(copy.deepcopy(oh), obs_tree)
                tps = {key: tps[key] for key in order_of_keys}
            ops = self._container(case["cont"], tps)
            caller = ttns
            fp0 = state_fingerprint(caller)[:3]
            bk = {"deep": case["deep"]} if case["cls"] in ("bug", "fbug") else None
            ev = util.make_evolution(case["cls"], caller, ham, ttno, dt, T, ops, bug_kwargs=bk)
            dense_ops = {key: util.dense_tp(tp, ids, dims) for key, tp in opm.items()}
            if ttnoobs:
                for key, oh in obs_hams.items():
                    dense_ops[key] = util.dense_ham(oh, ids, dims)
                dense_ops = {key: dense_ops[key] for key in order_of_keys}
                opm = dense_ops     # (only its key order is used below)
        ob["n"] = ev.num_time_steps
        ev.run(evaluation_time=k, pgbar=False)
        res1 = np.array(ev.results)
        ob["caller_unchanged_after_run"] = (state_fingerprint(caller)[:len(fp0)] == fp0)
        ob["state_is_caller"] = ev.state is caller
        ev.reset_to_initial_state()
        if isinstance(caller, np.ndarray):
            ob["reset_equals_initial"] = bool(np.array_equal(ev.state, psi0))
        else:
            ob["reset_equals_initial"] = bool(np.allclose(util.dense_vec(ev.state, ids), util.dense_vec(caller, ids)))
        ev.run(evaluation_time=k, pgbar=False)
        res2 = np.array(ev.results)
        ob["caller_unchanged_after_rerun"] = (state_fingerprint(caller)[:len(fp0)] == fp0)
        ob["rerun_maxdiff"] = float(np.max(np.abs(res1 - res2)))
        ob["shape"] = list(res1.shape)
        ob["times"] = np.real(res1[-1]).tolist()
        # evaluation on the state after exactly j*k steps: an independent instance stepped by hand
        nops = len(ev.operators)
        keys = list(opm)[:nops] if case["cont"] != "single" else [list(opm)[0]]
        if case["cls"] == "exact":
            ev2 = type(ev)(psi0.copy(), H, dt, T, ops)
        else:
            ev2 = util.make_evolution(case["cls"], caller, ham, ttno, dt, T, ops, bug_kwargs=bk)
        steps_at = [j * k for j in range(nsteps // k + 1)] if k != "inf" else [nsteps]
        manual = []
        done = 0
        exact_dev = 0.0
        for s in steps_at:
            while done < s:
                ev2.run_one_time_step()
                done += 1
            if case["cls"] == "exact":
                v = ev2.state
                ref = expm(-1j * H * (s * dt)) @ psi0
                exact_dev = max(exact_dev, float(np.max(np.abs(v - ref))))
            else:
                v = util.dense_vec(ev2.state, ids)
            manual.append([complex(np.vdot(v, dense_ops[key] @ v)) for key in keys])
        ob["exact_dev"] = exact_dev
        ob["manual"] = manual
        # history "measure between steps": a third instance, stepped by hand, is asked for every operator after EVERY
        # step (whatever the interval); each answer has to be <psi_s|O|psi_s> of its own state after s steps, and
        # asking must not disturb the evolution (same final state as the instance that was not asked).
        if case["cls"] == "exact":
            ev3 = type(ev)(psi0.copy(), H, dt, T, ops)
        else:
            ev3 = util.make_evolution(case["cls"], caller, ham, ttno, dt, T, ops, bug_kwargs=bk)
        between = None
        for s in range(steps_at[-1] + 1):
            if s:
                ev3.run_one_time_step()
            got = [complex(ev3.evaluate_operator(op)) for op in ev3.operators]
            v3 = ev3.state if case["cls"] == "exact" else util.dense_vec(ev3.state, ids)
            want = [complex(np.vdot(v3, dense_ops[key] @ v3)) for key in keys]
            for key, g, w in zip(keys, got, want):
                if between is None and not np.isclose(g, w, atol=1e-8, rtol=1e-5):
                    between = [s, key, g, w]
        ob["between"] = between
        vlast = ev2.state if case["cls"] == "exact" else util.dense_vec(ev2.state, ids)
        ob["between_disturbs"] = float(np.max(np.abs(v3 - vlast))) / max(1.0, float(np.max(np.abs(vlast))))
        ob["keys"] = list(keys)
        ob["steps_at"] = list(steps_at)
        ob["recorded"] = [[complex(res1[r, j]) for r in range(len(keys))] for j in range(res1.shape[1])]
        if case["cont"] == "dict":
            ob["bykey_ok"] = all(np.array_equal(ev.operator_result(key), res2[r]) for r, key in enumerate(ops))
        return ob

    def _hamobs_impl(self, case):
        """'hamobs' family: the operators to evaluate include the HAMILTONIAN OBJECT ITSELF (the very TTNO / matrix
        the evolution was constructed with; for TEBD, which has no such object, a TTNO of the generator), next to
        tensor products and possibly an equal, separately built copy.  For every evaluation interval in {1, 2, 3,
        'inf'} a fresh instance is run, a rejected call is attempted, the instance is reset and run again with another
        interval; a further instance is stepped by hand and asked at irregular steps.  Reference for everything: an
        independent instance that was constructed WITHOUT these operators, is stepped by hand only and is never asked
        anything; its states are contracted to dense vectors and <psi|O|psi> is taken with dense matrices."""
        import random
        rng = random.Random(case["seed"])
        par = case["tree"]
        n = len(par)
        dt = case["dt"]
        nsteps = case["nsteps"]
        T = nsteps * dt
        cls = case["cls"]
        bond = 2 if case["bond"] == "2" else {i: rng.choice([1, 2, 2]) for i in range(1, n)}
        ttns = util.build_ttns(rng, par, phys=[2] * n, bond=bond)
        ids = sorted(ttns.nodes)
        dims = util.phys_dims(ttns)
        ham = edge_hamiltonian(rng, par, ids, dims, case["order"], case["orient"], case["fields"])
        H = util.dense_ham(ham, ids, dims)
        if case["gauge"] == "node":
            ttns.canonical_form(f"n{case['centre']}", mode=rng.choice([util.ptn.SplitMode.REDUCED, util.ptn.SplitMode.KEEP]))
        nprs = np.random.RandomState(case["seed"])
        others = []
        for j in range(case["nother"]):
            where = [f"n{i}" for i in rng.sample(range(n), rng.choice([1, 1, 2]))]
            others.append((["zeta_op", "alpha_op"][j], {i: nprs.standard_normal((2, 2)) + 1j * nprs.standard_normal((2, 2)) for i in where}))
        psi0 = util.dense_vec(ttns, ids)
        bk = {"deep": case["deep"]} if cls in ("bug", "fbug") else None
        if cls == "exact":
            from pytreenet.time_evolution.exact_time_evolution import ExactTimeEvolution
            hobj = H
            twin = H.copy()
            named = [(key, util.dense_tp(tp, ids, dims)) for key, tp in others]
            ttno = None
        else:
            ttno = util.TTNO.from_hamiltonian(copy.deepcopy(ham), ttns)
            # TEBD is constructed from a Trotter splitting: the observable is a TTNO of the same generator
            hobj = ttno if cls != "tebd" else util.TTNO.from_hamiltonian(copy.deepcopy(ham), ttns)
            twin = util.TTNO.from_hamiltonian(copy.deepcopy(ham), ttns)
            named = [(key, TensorProduct(dict(tp))) for key, tp in others]
        dense = {key: util.dense_tp(tp, ids, dims) for key, tp in others}
        named.insert(min(case["hpos"], len(named)), ("energy", hobj))
        dense["energy"] = H
        if case["twin"]:
            named.insert(rng.randrange(len(named) + 1), ("energy_twin", twin))
            dense["energy_twin"] = H
        ops = self._container(case["cont"], dict(named)) if case["cont"] != "single" else hobj
        keys = [key for key, _ in named] if case["cont"] != "single" else ["energy"]
        caller = psi0.copy() if cls == "exact" else ttns
        fp0 = state_fingerprint(caller)[:2 if cls == "exact" else 3]

        def make(operators):
            if cls == "exact":
                return ExactTimeEvolution(caller, H, dt, T, operators)
            return util.make_evolution(cls, caller, ham, ttno, dt, T, operators, bug_kwargs=bk)

        def vec(ev):
            return np.array(ev.state) if cls == "exact" else util.dense_vec(ev.state, ids)

        # independent reference: constructed with one unrelated operator, stepped by hand, never asked
        ref = make(np.eye(len(psi0)) if cls == "exact" else TensorProduct({ids[0]: np.eye(2)}))
        vs = [vec(ref)]
        for _ in range(nsteps):
            ref.run_one_time_step()
            vs.append(vec(ref))
        vals = [[complex(np.vdot(v, dense[key] @ v)) for key in keys] for v in vs]
        nrm2 = max(1.0, float(np.vdot(psi0, psi0).real))
        ob = {"n_rule": nsteps, "keys": keys, "vals": vals,
              "scale": [max(1.0, float(np.linalg.norm(dense[key], 2))) * nrm2 for key in keys],
              "vscale": math.sqrt(nrm2), "ref_start_dev": float(np.max(np.abs(vs[0] - psi0))), "runs": []}
        for k in HAMOBS_KS:
            ev = make(ops)
            r = {"k": k, "k2": case["second"][str(k)], "n": int(ev.num_time_steps)}
            ev.run(evaluation_time=k, pgbar=False)
            res1 = np.array(ev.results)
            r["rec1"] = [[complex(x) for x in row] for row in res1[:-1]]
            r["times1"] = np.real(res1[-1]).tolist()
            r["times1_api"] = np.real(ev.times()).tolist()
            r["final1_dev"] = float(np.max(np.abs(vec(ev) - vs[-1])))
            # a call the library rejects must leave the record and the state as they were
            rej = None
            try:
                if case["reject"] == "run0":
                    ev.run(evaluation_time=0, pgbar=False)
                elif case["reject"] == "key":
                    ev.operator_result("no such operator")
            except Exception as e:  # noqa
                rej = type(e).__name__
            if rej is not None:
                r["rejected"] = rej
                r["rejected_keeps_record"] = bool(ev._results is not None and np.array_equal(ev._results, res1))
                r["rejected_state_dev"] = float(np.max(np.abs(vec(ev) - vs[-1])))
            if case["cont"] == "dict" and ev._results is not None:
                r["bykey_ok"] = all(np.array_equal(ev.operator_result(key), ev.results[j]) for j, key in enumerate(keys))
            ev.reset_to_initial_state()
            r["reset_dev"] = float(np.max(np.abs(vec(ev) - psi0)))
            ev.run(evaluation_time=r["k2"], pgbar=False)
            res2 = np.array(ev.results)
            r["rec2"] = [[complex(x) for x in row] for row in res2[:-1]]
            r["times2"] = np.real(res2[-1]).tolist()
            r["final2_dev"] = float(np.max(np.abs(vec(ev) - vs[-1])))
            r["caller_unchanged"] = (state_fingerprint(caller)[:len(fp0)] == fp0)
            r["state_is_caller"] = ev.state is caller
            ob["runs"].append(r)
        # stepped by hand, asked for all operators at an irregular subset of the steps
        ev3 = make(ops)
        asked = None
        for s in range(nsteps + 1):
            if s:
                ev3.run_one_time_step()
            if s in case["ask_at"]:
                got = [complex(x) for x in ev3.evaluate_operators()]
                v3 = vec(ev3)
                want = [complex(np.vdot(v3, dense[key] @ v3)) for key in keys]
                for j, key in enumerate(keys):
                    if asked is None and abs(got[j] - want[j]) > 1e-8 * ob["scale"][j]:
                        asked = [s, key, got[j], want[j]]
        ob["asked"] = asked
        ob["asked_final_dev"] = float(np.max(np.abs(vec(ev3) - vs[-1])))
        return ob

    def _hamobs_oracle(self, case, ob):
        cls = case["cls"]
        what = f"{cls} with the Hamiltonian object among the operators ({case['cont']})"
        n = ob["n_rule"]
        keys, vals, scale = ob["keys"], ob["vals"], ob["scale"]
        vtol = 1e-8 * ob["vscale"]
        if ob["ref_start_dev"] > vtol:
            return f"{what}: a freshly constructed instance does not start in the caller's state"
        records = {}
        for r in ob["runs"]:
            if r["n"] != n:
                return f"{what}: number of steps {r['n']} != {n}"
            if not r["caller_unchanged"]:
                return f"{what}: the caller's state object was modified by run()"
            if r["state_is_caller"]:
                return f"{what}: evolves the caller's object in place"
            for tag, k in (("1", r["k"]), ("2", r["k2"])):
                hist = f"run(evaluation_time={r['k']!r})" + ("" if tag == "1" else f"; reset; run(evaluation_time={k!r})")
                steps = [n] if k == "inf" else list(range(0, n + 1, k))
                rec, times = r["rec" + tag], r["times" + tag]
                if len(rec) != len(keys) or any(len(row) != len(steps) for row in rec) or len(times) != len(steps):
                    return f"{what}: {hist}: record of shape {[len(rec) + 1, len(times)]}, expected {[len(keys) + 1, len(steps)]}"
                if not np.allclose(times, [s * case["dt"] for s in steps], rtol=1e-12, atol=0.0):
                    return f"{what}: {hist}: times {times}, expected {[s * case['dt'] for s in steps]}"
                for j, key in enumerate(keys):
                    for col, s in enumerate(steps):
                        if not abs(rec[j][col] - vals[s][j]) <= 1e-8 * scale[j]:
                            return (f"{what}: {hist}: '{key}' recorded in column {col} (t={times[col]:.6g}) is {rec[j][col]:.9g}, "
                                    f"<psi|O|psi> of the state of an independent instance after {s} hand-made steps is {vals[s][j]:.9g}")
                if not r["final" + tag + "_dev"] <= vtol:
                    return (f"{what}: {hist}: the state after the run differs from the state of an independent instance after "
                            f"{n} hand-made steps by {r['final' + tag + '_dev']:.3g} (the evolution depends on the evaluation interval / history)")
                if tag == "1":
                    records[str(k)] = (steps, rec)
                    if r["times1_api"] != times:
                        return f"{what}: times() {r['times1_api']} is not the times row {times}"
                    if "rejected" in r:
                        if not r["rejected_keeps_record"] or not r["rejected_state_dev"] <= vtol:
                            return f"{what}: a rejected call ({case['reject']}: {r['rejected']}) changed the record / the state"
                    if not r.get("bykey_ok", True):
                        return f"{what}: dict keys do not address their rows"
                    if not r["reset_dev"] <= vtol:
                        return f"{what}: {hist}: reset does not restore the initial state ({r['reset_dev']:.3g})"
        # the records of the intervals compared with one another: column j of interval k = column j*k of interval 1
        if "1" in records:
            s1, rec1 = records["1"]
            for kk, (steps, rec) in records.items():
                for j in range(len(keys)):
                    for col, s in enumerate(steps):
                        if not abs(rec[j][col] - rec1[j][s1.index(s)]) <= 2e-8 * scale[j]:
                            return (f"{what}: '{keys[j]}' after {s} steps is {rec[j][col]:.9g} in the record of interval {kk} "
                                    f"and {rec1[j][s1.index(s)]:.9g} in the record of interval 1")
        if ob["asked"]:
            s, key, g, w = ob["asked"]
            return (f"{what}: stepped by hand and asked at the steps {case['ask_at']}: after {s} steps '{key}' is evaluated to {g:.9g}, "
                    f"<psi|O|psi> of its state is {w:.9g}")
        if not ob["asked_final_dev"] <= vtol:
            return (f"{what}: stepped by hand and asked at the steps {case['ask_at']}: the final state differs from the one of an "
                    f"instance that was never asked by {ob['asked_final_dev']:.3g}")
        return None

    def _exactgen_impl(self, case):
        from pytreenet.time_evolution.exact_time_evolution import ExactTimeEvolution, ExactTimeEvolutionConfig
        ham, dt, T, psi, named = exactgen_input(case)
        cont = case["cont"]
        ops = self._container(cont, named)
        keys = list(named) if cont != "single" else [list(named)[0]]
        caller = psi.copy()
        ham0 = np.array(ham)
        ops0 = {key: o.copy() for key, o in named.items()}
        if case["open"]:
            ev = ExactTimeEvolution(caller, ham, dt, T, ops, ExactTimeEvolutionConfig(open=True))
        else:
            ev = ExactTimeEvolution(caller, ham, dt, T, ops)
        k = case["k"]
        ob = {"n": ev.num_time_steps, "k": k, "dt": dt, "T": T}
        ev.run(evaluation_time=k, pgbar=False)
        res1 = np.array(ev.results)
        final = np.array(ev.state)
        ob["inputs_unchanged"] = bool(np.array_equal(caller, psi) and np.array_equal(ham, ham0)
                                      and all(np.array_equal(named[key], ops0[key]) for key in named))
        ob["state_is_caller"] = ev.state is caller
        ev.reset_to_initial_state()
        ob["reset_equals_initial"] = bool(np.array_equal(ev.state, psi))
        ev.run(evaluation_time=k, pgbar=False)
        res2 = np.array(ev.results)
        ob["inputs_unchanged_rerun"] = bool(np.array_equal(caller, psi) and np.array_equal(ham, ham0))
        big = float(np.max(np.abs(res1[:-1]))) if res1.size else 0.0
        ob["rerun_reldiff"] = (float(np.max(np.abs(res1 - res2))) / big) if (big > 0 and res1.shape == res2.shape) else (0.0 if res1.shape == res2.shape else 1.0)
        ob["shape"] = list(res1.shape)
        ob["times"] = np.real(res1[-1]).tolist()
        ob["times_api"] = np.real(ev.times()).tolist()
        # reference: exp(-i H (j dt)) psi in extended precision at the TOTAL time j*dt, for the number of steps the
        # property's rule gives
        q = T / dt
        fl = math.floor(q)
        n = fl if (q - fl) < 0.1 else fl + 1
        steps = [n] if k == "inf" else list(range(0, n + 1, k))
        ob["n_rule"] = n
        ob["steps_at"] = steps
        hl = ham0.astype(np.clongdouble)
        od = int(round(math.sqrt(case["dim"])))
        worst = None     # [relative error, column, key, recorded, reference]
        refs = {}
        for col, st in enumerate(steps):
            ref = ref_expm(np.clongdouble(-1j) * hl * (np.longdouble(st) * np.longdouble(dt))) @ psi.astype(np.clongdouble)
            refs[st] = ref
            nr = float(np.sqrt(np.sum(np.abs(ref) ** 2)))
            for r, key in enumerate(keys):
                o = ops0[key].astype(np.clongdouble)
                if case["open"]:
                    want = complex(np.trace(o @ ref.reshape(od, od)))
                    sc = float(np.linalg.norm(ops0[key])) * nr
                else:
                    want = complex(np.conj(ref) @ (o @ ref))
                    sc = float(np.linalg.norm(ops0[key], 2)) * nr ** 2
                if r < res1.shape[0] - 1 and col < res1.shape[1]:
                    got = complex(res1[r, col])
                    err = abs(got - want) / sc if sc > 0 else abs(got - want)
                    if worst is None or err > worst[0]:
                        worst = [float(err), col, key, got, want]
        ob["worst"] = worst
        if n not in refs:
            refs[n] = ref_expm(np.clongdouble(-1j) * hl * (np.longdouble(n) * np.longdouble(dt))) @ psi.astype(np.clongdouble)
        ref = refs[n]
        nr = float(np.sqrt(np.sum(np.abs(ref) ** 2)))
        ob["final_state_relerr"] = (float(np.max(np.abs(final - ref))) / nr) if final.shape == ref.shape else 1.0
        ob["ham_norm_total"] = float(np.linalg.norm(ham0, 2)) * abs(n * dt)
        if cont == "dict":
            ob["bykey_ok"] = all(np.array_equal(ev.operator_result(key), res2[r]) for r, key in enumerate(ops))
        return ob

    @staticmethod
    def _container(cont, named):
        if cont == "single":
            return list(named.values())[0]
        if cont == "list":
            return list(named.values())
        return dict(named)

    def impl(self, ctx, cases):
        out = []
        for c in cases:
            try:
                out.append(self._grid_impl(c) if c["kind"] == "grid" else
                           c18x.impl(c) if c["kind"] == "xsm" else      # [ext-C18X]
                           self._exactgen_impl(c) if c["kind"] == "exactgen" else
                           self._hamobs_impl(c) if c["kind"] == "hamobs" else self._class_impl(c))
            except Exception as e:  # noqa
                import traceback
                out.append({"exception": f"{type(e).__name__}: {e}", "tb": traceback.format_exc()[-1500:]})
        return out

    # -------------------------------------------------------------------------------
    def model(self, ctx, cases, obs):
        exprs = []
        idx = []
        for i, (c, ob) in enumerate(zip(cases, obs)):
            # [ext-C18X] state-machine cases: evaluated in the same coqc runs as the grid cases
            if c["kind"] == "xsm":
                if "n" in ob:
                    exprs.append(c18x.model_expr(c, ob["n"]))
                    idx.append(i)
                continue
            # [/ext-C18X]
            if c["kind"] != "grid":
                continue
            q = Fraction(c["T"] / c["dt"])  # exact value of the float quotient
            k = c["k"]
            kq = f"(let n := Z.to_nat (num_steps {coq_q(q)}) in "
            if k == "inf":
                e = "Inf"
            elif k == "n":
                e = "(Every (Nat.max n 1))"
            elif k == "n+1":
                e = "(Every (n + 1)%nat)"
            else:
                e = f"(Every {coq_nat(k)})"
            exprs.append(kq + f"(num_steps {coq_q(q)}, run_counting n {e}))")
            idx.append(i)
        vals = coq_eval(ctx, "From Coq Require Import ZArith QArith List. From PTN Require Import Driver.Run." + c18x.IMPORTS + " Import ListNotations.", exprs, shard=150)      # [ext-C18X] imports
        out = [None] * len(cases)
        for i, v in zip(idx, vals):
            out[i] = v
        return out

    def compare(self, case, ob, mo):
        if case["kind"] == "xsm":      # [ext-C18X]
            return c18x.compare(case, ob, mo)
        if "exception" in ob:
            return f"implementation raised {ob['exception']} where the model runs"
        n_m, (final, cols, err) = mo
        if err:
            return "model reports an out-of-range write"
        if ob["n"] != n_m:
            return f"num_time_steps: impl {ob['n']} model {n_m}"
        if ob["shape"][1] != len(cols):
            return f"result width: impl {ob['shape'][1]} model {len(cols)}"
        if ob["final_state"] != final:
            return f"steps performed: impl {ob['final_state']} model {final}"
        for j, (meas, tidx) in enumerate(cols):
            for r in range(len(ob["re"])):
                if ob["re"][r][j] != meas:
                    return f"column {j}: measured after {ob['re'][r][j]} steps, model {meas}"
            if ob["times"][j] != tidx * case["dt"]:
                return f"column {j}: time {ob['times'][j]} model index {tidx}"
        return None

    # -------------------------------------------------------------------------------
    def oracle(self, case, ob):
        if case["kind"] == "xsm":      # [ext-C18X]
            return c18x.oracle(case, ob)
        if "exception" in ob:
            return f"raised {ob['exception']}"
        if case["kind"] == "grid":
            q = case["T"] / case["dt"]
            fl = math.floor(q)
            n = fl if (q - fl) < 0.1 else fl + 1
            if ob["n"] != n:
                return f"number of steps {ob['n']} != {n} for T/dt={q!r}"
            k = ob["k"]
            steps = [n] if k == "inf" else list(range(0, n + 1, k))
            if ob["shape"] != [case["nops"] + 1, len(steps)]:
                return f"result shape {ob['shape']} expected {[case['nops'] + 1, len(steps)]}"
            for r in range(case["nops"]):
                if ob["re"][r] != [float(s) for s in steps]:
                    return f"operator {r} evaluated after steps {ob['re'][r]} expected {steps}"
                if ob["im"][r] != [float(r)] * len(steps):
                    return f"row {r} does not hold operator {r}"
                if ob["bypos"][r] != [float(r)] * len(steps):
                    return f"operator_result({r}) returns another operator's row"
            if ob["times"] != [s * case["dt"] for s in steps] or ob["times_api"] != ob["times"]:
                return f"times {ob['times']} expected {[s * case['dt'] for s in steps]}"
            if case["cont"] == "dict":
                for j in range(case["nops"]):
                    if ob["bykey_im"][KEYS[j]] != [float(j)] * len(steps) or ob["bykey"][KEYS[j]] != [float(s) for s in steps]:
                        return f"key {KEYS[j]} does not address its operator's results"
            if ob["final_state"] != n:
                return f"{ob['final_state']} steps performed, expected {n}"
            if ob["initial_state"] != 0 or ob["state_after_reset"] != 0:
                return "initial state modified / reset does not restore it"
            if not ob["rerun_equal"]:
                return "second run after reset differs from the first"
            return None
        if case["kind"] == "exactgen":
            return self._exactgen_oracle(case, ob)
        if case["kind"] == "hamobs":
            return self._hamobs_oracle(case, ob)
        # class cases
        if ob["n"] != ob["nsteps"]:
            return f"num steps {ob['n']} != {ob['nsteps']}"
        if not ob["caller_unchanged_after_run"] or not ob["caller_unchanged_after_rerun"]:
            return f"{case['cls']}: the caller's state object was modified by run()"
        if ob["state_is_caller"]:
            return f"{case['cls']}: evolves the caller's object in place"
        if not ob["reset_equals_initial"]:
            return f"{case['cls']}: reset does not restore the initial state"
        if ob["rerun_maxdiff"] > 1e-9:
            return f"{case['cls']}: run/reset/run differs by {ob['rerun_maxdiff']}"
        k = ob["k"]
        steps = [ob["nsteps"]] if k == "inf" else list(range(0, ob["nsteps"] + 1, k))
        if ob["shape"][1] != len(steps):
            return f"{case['cls']}: {ob['shape'][1]} columns expected {len(steps)}"
        if not np.allclose(ob["times"], [s * 0.05 for s in steps], atol=1e-12):
            return f"{case['cls']}: times {ob['times']}"
        rec = np.array(ob["recorded"])
        man = np.array(ob["manual"])
        if rec.shape != man.shape:
            return f"{case['cls']}: record of shape {rec.shape}, expected {man.shape}"
        if not np.allclose(rec, man, atol=1e-8):
            j, r = [int(x) for x in np.argwhere(~np.isclose(rec, man, atol=1e-8, rtol=1e-5))[0]]
            name = ob["keys"][r] if "keys" in ob else f"operator {r}"
            after = ob["steps_at"][j] if "steps_at" in ob else "j*k"
            return (f"{case['cls']}: recorded values differ from the state after exactly j*k steps: '{name}' in column {j} "
                    f"is {rec[j, r]:.9g}, <psi|O|psi> of the state after {after} steps is {man[j, r]:.9g}")
        if ob.get("between"):
            s, key, g, w = ob["between"]
            return (f"{case['cls']}: asked after {s} hand-made steps, the driver evaluates '{key}' to {g:.9g}, "
                    f"<psi|O|psi> of its state is {w:.9g}")
        if ob.get("between_disturbs", 0.0) > 1e-8:
            return f"{case['cls']}: evaluating the operators between the steps changes the evolved state ({ob['between_disturbs']:.3g})"
        if ob["exact_dev"] > 1e-9:
            return f"exact evolution deviates from expm(-iH j dt) psi by {ob['exact_dev']}"
        if case["cont"] == "dict" and not ob.get("bykey_ok", True):
            return "dict keys do not address their rows"
        return None

    # relative tolerance of the exact-evolution family: the scale of a value is |O| |psi_j|^2 of the REFERENCE state
    # (|O| |rho_j| in the open mode); the allowance grows with |H| j dt because a double-precision propagator of a
    # generator of that size cannot be more accurate than about 1e-16 |H| j dt
    EXACT_RTOL = 1e-9
    EXACT_RTOL_PER_NORM = 1e-13

    def _exactgen_oracle(self, case, ob):
        what = f"exact evolution ({case['gen']}{', open' if case['open'] else ''}, dim {case['dim']}, H in units of 1e{case['scale10']:g}, dt={ob['dt']:.6g})"
        if ob["n"] != ob["n_rule"]:
            return f"{what}: number of steps {ob['n']} != {ob['n_rule']} for T/dt={ob['T'] / ob['dt']!r}"
        if not ob["inputs_unchanged"] or not ob["inputs_unchanged_rerun"]:
            return f"{what}: the caller's state vector / Hamiltonian / operators were modified by run()"
        if ob["state_is_caller"]:
            return f"{what}: evolves the caller's array in place"
        if not ob["reset_equals_initial"]:
            return f"{what}: reset does not restore the initial state"
        steps = ob["steps_at"]
        nops = 1 if case["cont"] == "single" else case["nops"]
        if ob["shape"] != [nops + 1, len(steps)]:
            return f"{what}: result shape {ob['shape']} expected {[nops + 1, len(steps)]}"
        want_t = [s * ob["dt"] for s in steps]
        if not np.allclose(ob["times"], want_t, rtol=1e-12, atol=0.0) or ob["times_api"] != ob["times"]:
            return f"{what}: times {ob['times']} expected {want_t}"
        tol = self.EXACT_RTOL + self.EXACT_RTOL_PER_NORM * ob["ham_norm_total"]
        if ob["worst"] is not None and not ob["worst"][0] <= tol:
            err, col, key, got, want = ob["worst"]
            return (f"{what}: '{key}' recorded in column {col} (after {steps[col]} steps, t={ob['times'][col]:.6g}) is {got:.9g}, "
                    f"the value on exp(-iH j dt) psi is {want:.9g} (error {err:.3g} of the scale |O||psi_j|^2, allowed {tol:.3g})")
        if not ob["final_state_relerr"] <= tol:
            return (f"{what}: the state after {ob['n_rule']} steps deviates from exp(-iH j dt) psi by {ob['final_state_relerr']:.3g} "
                    f"of its norm (allowed {tol:.3g})")
        if ob["rerun_reldiff"] > 1e-12:
            return f"{what}: run/reset/run differs by {ob['rerun_reldiff']:.3g} (relative)"
        if case["cont"] == "dict" and not ob.get("bykey_ok", True):
            return f"{what}: dict keys do not address their rows"
        return None

    def classify(self, case, what, known):
        return None

    def sample_repr(self, case):
        return case
