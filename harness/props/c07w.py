"""C07 at the store level (Layer W): the STRUCTURE of the state after the constructor and after every two-site TDVP time step
against the Gallina model Evo/TDVPStore.v (`tdvp_init`, `tdvp2s_step_t`: the trace2s events interpreted as store operations;
TwoSite a b = legs_before_combination, contract_nodes(a, b, "TwoSite_a_contr_b"), read + raw replacement of the contracted
tensor, split_node_svd(new, u_legs, v_legs, a, b), centre := b).

The SVD is truncated, so its bond dimension is data: the real run is observed at the kernel boundary
(`contr_truncated_svd_splitting` in the namespace of pytreenet.core.ttn, as wmodel.Driver does) and the bond dimensions, in
call order, are handed to the model step.  Everything else is compared EXACTLY as in c06w (node dict order, parents, children
order, leg permutations, recorded raw shapes, tensor dict order, raw tensor shapes, root, orthogonality centre).
Per-instance obligations: build programme accepted, tree_of = live tree, every model stage defined, every bond dimension
consumed, `iso_check2` (every non-centre node is the first factor of a QR or truncated-SVD call with its bond toward the
centre) after the constructor and after every step.
"""
from __future__ import annotations

import copy

from lib import coq_eval, coq_nat, coq_list
import wmodel
from props import c06w

IMPORTS = c06w.IMPORTS
TW = "(fun a b => 200 + 10 * a + b)"     # TwoSite_a_contr_b
MAX_STEPS = 2


def sampled(case, j):
    return case.get("kind") == "tdvp2s" and len(case["par"]) <= 7 and case.get("sub") in ("run", "trunc", "twonode") \
        and case.get("mode", "expm") in ("expm", "default")


def real_side(case, sysd, mode, svd, make_algo, rtree_json):
    """runs in the worker; returns a JSON-able record"""
    import pytreenet.core.ttn as ttn_mod
    try:
        st = copy.deepcopy(sysd["ttns"])
        for x in list(st.nodes):
            _ = st.tensors[x]
        ops = c06w.ops_in_dict_order(copy.deepcopy(st))
        if ops is None:
            return {"skip": "node dict order is not parents-first"}
        rec = {"ops": ops, "t0": rtree_json(st), "n": len(st.nodes), "kind": "tdvp2s", "stages": [], "bonds": []}
        nsteps = min(MAX_STEPS, case.get("nsteps", 1))
        algo = make_algo("tdvp2s", dict(sysd, ttns=st), mode=mode, svd=svd, nsteps=nsteps)
        rec["update_path"] = list(algo.update_path)
        rec["stages"].append(c06w._snap(algo.state))
        name = "contr_truncated_svd_splitting"
        orig = getattr(ttn_mod, name)
        bonds = []

        def wrapped(*a, **kw):
            q, r = orig(*a, **kw)
            bonds.append(int(q.shape[-1]))
            return q, r
        setattr(ttn_mod, name, wrapped)
        try:
            for _k in range(nsteps):
                del bonds[:]
                algo.run_one_time_step()
                rec["bonds"].append(list(bonds))
                rec["stages"].append(c06w._snap(algo.state))
        finally:
            setattr(ttn_mod, name, orig)
        return rec
    except Exception as e:  # noqa
        return {"error": f"{type(e).__name__}: {e}"}


def _expr(r):
    idm = c06w._idmap(r["n"])
    ops = coq_list([("(" + wmodel.coq_op(o, idm) + ")") for o in r["ops"]])
    bss = coq_list([coq_list(b, coq_nat) for b in r["bonds"]])
    return f"tdvp2s_case {c06w.LK} {TW} {coq_nat(c06w.TMP)} {ops} {c06w._rtree(r['t0'])} {bss}"


def check_one(r, val):
    if isinstance(val, BaseException):
        return [("model evaluation", False)], f"model evaluation failed: {val}"
    idm = c06w._idmap(r["n"])
    tree_ok, built, (init, steps), first = val
    obl = [("tree_of the model store is the tree of the live state", tree_ok is True),
           ("build programme accepted", built is True)]
    first = c06w._unsome(first)
    if first is None or first == "None" or idm.r[first] != r["update_path"][0]:
        return obl, f"first node of the sweep: model {first}, implementation {r['update_path'][0]}"
    stages = [init] + list(steps)
    names = ["constructor"] + [f"step {k}" for k in range(1, len(r["stages"]))]
    if len(stages) != len(r["stages"]):
        obl.append(("model stages defined", False))
        return obl, f"model produced {len(stages)} stages, implementation {len(r['stages'])}"
    for j, (name, mv, snap) in enumerate(zip(names, stages, r["stages"])):
        left = 0
        if j > 0 and mv is not None and mv != "None":
            mv = c06w._unsome(mv)
            *core, left = mv
            mv = tuple(core)
        st = c06w._stage(mv, idm)
        obl.append((f"model {name} defined", st is not None))
        if st is None:
            return obl, f"{name}: the model step fails (None) where the implementation succeeds"
        if j > 0:
            obl.append((f"{name}: every SVD bond dimension consumed", left == 0))
            if left != 0:
                return obl, f"{name}: the implementation called the SVD kernel {len(r['bonds'][j - 1])} times, the model has {left} TwoSite events fewer"
        mo, centre, iso = st
        obl.append((f"iso_check2 after {name}", iso is True))
        msg = wmodel.compare_snapshot(snap, mo)
        if msg:
            return obl, f"{name}: {msg}"
        if centre != snap["centre"]:
            return obl, f"{name}: orthogonality centre: implementation {snap['centre']}, model {centre}"
    return obl, None


def run(ctx, cases, obs):
    recs, owner = [], []
    for ob in obs:
        if isinstance(ob, dict) and isinstance(ob.get("w"), dict):
            r = ob["w"]
            if "error" in r:
                ob["w_tie"] = f"store-level tie: the private run of the implementation raised {r['error']}"
            elif "skip" not in r:
                recs.append(r)
                owner.append(ob)
    n = ok = 0
    fails = []
    if recs:
        vals = coq_eval(ctx, IMPORTS, [_expr(r) for r in recs], shard=max(2, len(recs) // 14 + 1), scope="nat_scope", timeout=600)
        for r, ob, v in zip(recs, owner, vals):
            try:
                obl, tie = check_one(r, v)
            except Exception as e:  # noqa
                obl, tie = [("model output shape", False)], f"cannot interpret the model output: {type(e).__name__}: {e}"
            if tie:
                ob["w_tie"] = "store-level tie: " + tie
            ob["w_checked"] = len(r["stages"])
            for name, good in obl:
                n += 1
                if good:
                    ok += 1
                elif len(fails) < 5:
                    fails.append(f"{name} is not true (tdvp2s, tree {r['t0']})")
    for ob in obs:
        if isinstance(ob, dict) and "w" in ob:
            del ob["w"]
    return n, ok, fails
