"""C05 — every TDVP local update uses the projected Hamiltonian E^dagger H E and the right duration.

This module also holds the machinery shared with C06 and C07 (they use the same schedule
model Sched/TDVP.v): system construction, the event recorder around the real classes, the
dense embedding used by the E^dagger H E oracle, and the Coq-side trace evaluation."""
from __future__ import annotations

import copy
import os
import random
import string
import traceback
from collections import Counter

import numpy as np

from lib import Prop, coq_eval, SkipCase
import util

IMPORTS = ("From Coq Require Import List Arith Bool ZArith. "
           "From PTN Require Import Tree.RTree Tree.Nav Tree.UpdatePath Tree.CachePath Sched.TDVP. Import ListNotations.")

class _Skip(Exception):
    pass


TRACE_FN = {"tdvp1": "trace1", "tdvp2": "trace2", "tdvp2s": "trace2s"}
DT = 0.0625          # a power of two: factor * dt is exact


def nid(s):
    return int(s[1:])


# ---- trees ---------------------------------------------------------------------------------
SPECIAL_TREES = [
    [None, 0],                       # two nodes
    [None, 0, 1],                    # root with a single child (chain rooted at an end)
    [None, 0, 0],                    # chain rooted in the middle / star
    [None, 0, 1, 2],                 # chain
    [None, 0, 1, 1],                 # root with one child that branches
    [None, 0, 0, 0],                 # star
    [None, 0, 0, 1, 2],              # chain rooted in the middle
    [None, 0, 0, 0, 0],              # star
    [None, 0, 1, 1, 1],              # a node with a parent and three leaf children
    [None, 0, 1, 2, 3],              # chain
    [None, 0, 1, 1, 3, 3],           # single-child root, nested branching
    [None, 0, 0, 1, 1, 2, 2],        # binary
    [None, 0, 0, 0, 0, 0, 0],        # star with 7 nodes
    [None, 0, 1, 2, 3, 4, 5],        # chain with 7 nodes
    [None, 0, 1, 2, 0, 4, 5],        # ties in depth
    [None, 0, 1, 2, 1, 4],           # chain with a side branch of length two (consecutive sweep sites 3 edges apart)
    [None, 0, 1, 1, 2, 3],           # r-a, a-{a1,a2}, a1-a11, a2-a21: multi-hop centre moves in the BACKWARD sweep
    [None, 0, 1, 0, 3, 0, 5],        # three arms of length two, rooted at the centre
    [None, 0, 1, 2, 3, 2, 5],        # three arms of length two, rooted at the end of an arm
]


def random_tree(rng, n):
    shape = rng.choice(["uniform", "uniform", "deep", "bushy", "chainroot"])
    par = [None]
    for i in range(1, n):
        if shape == "deep":
            p = i - 1 if rng.random() < 0.7 else rng.randrange(0, i)
        elif shape == "bushy":
            p = min(rng.randrange(0, i), rng.randrange(0, i))
        elif shape == "chainroot":
            p = 0 if i == 1 else rng.randrange(1, i)
        else:
            p = rng.randrange(0, i)
        par.append(p)
    return par


def degrees(par):
    d = [0] * len(par)
    for i, p in enumerate(par):
        if p is not None:
            d[i] += 1
            d[p] += 1
    return d


def choose_dims(rng, par, big=True):
    """physical and bond dimensions such that the dense space and every local (two-site) tensor
    stay small enough for the dense E^dagger H E reference."""
    n = len(par)
    deg = degrees(par)
    phys = [rng.choice([2, 3]) if n <= 5 else 2 for _ in range(n)]
    bond = {}
    for i in range(1, n):
        choices = [1, 2, 3] if (big and max(deg[i], deg[par[i]]) <= 3) else [1, 2]
        bond[i] = rng.choice(choices)
    return phys, bond


# ---- systems -------------------------------------------------------------------------------
def build_system(case):
    """state, Hamiltonian, TTNO (optionally built on a reference tree whose children are in a
    different order than the state's) and the dense operator."""
    rng = random.Random(case["seed"])
    par = case["par"]
    n = len(par)
    phys = case.get("phys")
    bond = case.get("bond")
    if phys is None:
        phys, bond = choose_dims(rng, par)
    if isinstance(bond, dict):
        bond = {int(k): v for k, v in bond.items()}
    if case.get("hubdims"):
        bond = hub_bonds(case, rng, par, phys, bond)      # LARGE family: bond dimensions given in the TTNO's neighbour order
    # every fourth system (by seed) starts from an all-REAL state (float64 tensors, as the product-state
    # constructors produce): the evolved tensors are complex, so the dtype has to change on the first update
    real_state = case.get("real", case["seed"] % 4 == 1)
    ttns = util.build_ttns(rng, par, phys=phys, bond=bond, complex_=not real_state)
    if case.get("ghz"):
        make_ghz(ttns, case)          # SYMMETRIC states: GHZ-type, exactly degenerate Schmidt spectra (see make_ghz)
    ids = sorted(ttns.nodes)
    dims = util.phys_dims(ttns)
    nterms = case.get("nterms", 3)
    ham = util.rand_ham(rng, ids, dims, nterms, hermitian=case.get("herm", True), coeffs=case.get("coeffs", False),
                        max_support=case.get("max_support"))
    if not ham.terms:
        raise _Skip("empty Hamiltonian")
    if case.get("hamkind") == "diag":
        # every site operator replaced by its (real) diagonal part: a Hermitian Hamiltonian that is diagonal in the product basis
        conv = ham.conversion_dictionary
        for lab in list(conv):
            conv[lab] = np.diag(np.real(np.diag(np.asarray(conv[lab])))).astype(complex)
    # ---- SCALE families (units): the same physical system written in other units, see gen_scaled_cases ----
    hexp = case.get("hexp")
    if case.get("loss") is not None:
        add_weak_loss(ham, rng, ids, dims, case["loss"], case.get("loss_sites", 2))
    if hexp:
        rescale_hamiltonian(ham, 2.0 ** hexp)
    if case.get("sexp"):
        r = ttns.root_id
        ttns.replace_tensor(r, ttns.tensors[r] * (2.0 ** case["sexp"]))
    if case.get("ttno_shuffle"):
        ref = util.build_ttns(random.Random(case["seed"] + 17), par, phys=phys, bond=1, shuffle=False)
    else:
        ref = ttns
    ttno = util.TTNO.from_hamiltonian(copy.deepcopy(ham), ref)
    H = util.dense_ham(ham, ids, dims)
    # time step: a power of two (factor * dt exact) with ||H|| dt in (1/2, 1] * dtscale, so that the expm kernels
    # work at their nominal accuracy (the conservation/reversal tolerances are about the schedule, not about expm)
    import math
    nrm = float(np.linalg.norm(H, 2))
    # (a Hamiltonian rescaled by 2^hexp gets the time step 2^-hexp times the one of the unscaled system: H dt is unchanged)
    unit = 2.0 ** hexp if hexp else 1.0
    nrm = nrm / unit
    dt = 2.0 ** math.floor(math.log2(1.0 / nrm)) if nrm > 0 else DT
    dt = min(max(dt, 2.0 ** -24), 0.25) * case.get("dtscale", 1) / unit
    return {"dt": dt, "ttns": ttns, "ham": ham, "ttno": ttno, "ids": ids, "dims": dims, "H": H, "ref": ref, "phys": phys,
            "builder": bool(case.get("builder"))}


def hub_bonds(case, rng, par, phys, bond):
    """LARGE family: the bond dimensions around the node case["hub"] are given as the list case["hubdims"] in the order in
    which the TTNO lists the neighbours of that node (parent first, then its children in the TTNO's child order): the k-th
    neighbour's bond gets hubdims[k].  The TTNO's tree is either the reference tree of `ttno_shuffle` or the state's own
    tree; the latter's child order is found by a probe construction from the same generator state (the attach order of
    util.build_ttns does not depend on the dimensions)."""
    h = case["hub"]
    if case.get("ttno_shuffle"):
        probe = util.build_ttns(random.Random(case["seed"] + 17), par, phys=phys, bond=1, shuffle=False)
    else:
        st = rng.getstate()
        probe = util.build_ttns(rng, par, phys=phys, bond=1)
        rng.setstate(st)
    node = probe.nodes[f"n{h}"]
    nbs = ([] if node.is_root() else [nid(node.parent)]) + [nid(c) for c in node.children]
    bond = dict(bond)
    for nb, d in zip(nbs, case["hubdims"]):
        bond[nb if par[nb] == h else h] = int(d)
    return bond


def make_ghz(ttns, case):
    """SYMMETRIC initial states: sum_k c_k |k k ... k> with |c_k| = case["ghz"][k] (random phases), written with copy tensors
    (every bond has dimension d = len(case["ghz"]) <= every physical dimension; the weights sit on the root).  The Schmidt
    spectrum across EVERY edge is the list |c_k|: equal magnitudes are exactly degenerate singular values (Bell / GHZ states:
    1/sqrt2, 1/sqrt2).  A Hamiltonian that is diagonal in the product basis (hamkind "diag") or a sum of single-site terms
    (max_support 1) only changes phases / local bases, so the degeneracy persists during the evolution.  With case["rotate"]
    a random unitary is applied to every physical leg (the same spectra in a generic local basis)."""
    mags = [float(x) for x in case["ghz"]]
    d = len(mags)
    nprs = np.random.RandomState((case["seed"] + 5) % (2 ** 31))
    for node_id in list(ttns.nodes):
        node = ttns.nodes[node_id]
        shape = tuple(ttns.tensors[node_id].shape)          # parent, children, open leg
        t = np.zeros(shape, dtype=complex)
        for k in range(d):
            t[(k,) * len(shape)] = mags[k] * np.exp(2j * np.pi * nprs.random_sample()) if node.is_root() else 1.0
        if case.get("rotate"):
            pdim = shape[-1]
            q, _ = np.linalg.qr(nprs.standard_normal((pdim, pdim)) + 1j * nprs.standard_normal((pdim, pdim)))
            t = np.tensordot(t, q, axes=(-1, 1))
        ttns.replace_tensor(node_id, t)


GHZ_SPECTRA = {2: [[1, 1], [1, 1], [1, 1], [1, 0.5]],
               3: [[1, 1, 1], [1, 1, 0.5], [1, 0.5, 0.5], [1, 1, 1], [1, 0.5, 0.25]],
               4: [[1, 1, 1, 1], [1, 1, 0.5, 0.5], [1, 0.5, 0.5, 0.5], [1, 1, 1, 0.5], [1, 0.5, 0.5, 0.25]]}


def gen_ghz_fields(rng, j):
    """tree, dimensions, spectrum and Hamiltonian kind of a GHZ-type case (dense space <= 300 dimensions)"""
    d = rng.choice([2, 2, 3, 4])
    pool = [p for p in SPECIAL_TREES if d ** len(p) <= 300]
    par = rng.choice(pool) if j % 3 else random_tree(rng, rng.choice([n for n in (2, 3, 4, 5, 6) if d ** n <= 300]))
    n = len(par)
    phys = [d] * n
    if d ** (n - 1) * (d + 1) <= 300 and rng.random() < 0.3:
        phys[rng.randrange(n)] = d + 1                   # one physical leg larger than the bonds
    local = j % 2 == 1
    return {"par": par, "phys": phys, "bond": d, "ghz": rng.choice(GHZ_SPECTRA[d]), "hamkind": "local" if local else "diag",
            "max_support": 1 if local else None, "rotate": local, "herm": True, "coeffs": False, "real": False,
            "nterms": rng.choice([2, 3, 4]) if not local else rng.randint(1, n)}


def rescale_hamiltonian(ham, factor):
    """the same Hamiltonian in other units: in every term ONE operator (first site in identifier order) is replaced by
    `factor` times itself under a new label of the conversion dictionary (what a user does who enters the operators in his
    units).  factor is a power of two: nothing is rounded, the represented operator is exactly factor * H."""
    conv = ham.conversion_dictionary
    terms = []
    for fr, g, tp in ham.terms:
        site = sorted(tp)[0]
        lab = tp[site]
        new = f"{lab}@x{factor!r}"
        if new not in conv:
            conv[new] = factor * np.asarray(conv[lab])
        d = dict(tp)
        d[site] = new
        terms.append((fr, g, util.TensorProduct(d)))
    ham.terms[:] = terms


def add_weak_loss(ham, rng, ids, dims, eps, nsites=2):
    """adds -i * eps * P_j on up to `nsites` sites j (P_j positive semi-definite with spectral norm 1: a loss channel of
    relative strength eps); the TTNO becomes (weakly) non-Hermitian"""
    nprs = np.random.RandomState(rng.randrange(2 ** 31))
    for j in rng.sample(list(ids), min(nsites, len(ids))):
        d = dims[j]
        m = nprs.standard_normal((d, d)) + 1j * nprs.standard_normal((d, d))
        if rng.random() < 0.5:
            m = np.diag(np.arange(d) + 1.0)          # a number operator (diagonal loss)
        pj = m @ m.conj().T
        pj = pj / np.linalg.norm(pj, 2)
        lab = f"loss_{j}"
        ham.conversion_dictionary[lab] = -1j * eps * pj
        from fractions import Fraction
        ham.terms.append((Fraction(1), "1", util.TensorProduct({j: lab})))


def rtree_json(ttn):
    """nested [id, [children]] lists of a live tree, identifiers as ints."""
    def rec(x):
        return [nid(x), [rec(c) for c in ttn.nodes[x].children]]
    return rec(ttn.root_id)


def coq_rtree(t):
    return f"(RNode {int(t[0])}%nat [" + "; ".join(coq_rtree(c) for c in t[1]) + "])"


def parent_map(t, out=None, par=None):
    if out is None:
        out = {}
    out[t[0]] = par
    for c in t[1]:
        parent_map(c, out, t[0])
    return out


# ---- dense embedding -------------------------------------------------------------------------
def phys_sites(node_id):
    """the physical sites carried by a node of the (temporarily modified) state"""
    if node_id.startswith("TwoSite_"):
        a, b = node_id[len("TwoSite_"):].split("_contr_")
        return [a, b]                 # contract_nodes(a, b): the open legs of a come first
    if node_id.startswith("link_"):
        return []
    return [node_id]


def embedding(cp, target, order):
    """E : (vectorised tensor of `target`, legs in node order parent/children/open, C order) ->
    dense state over the sites `order`.  Built by contracting all OTHER tensors of `cp` with a
    delta tensor in place of the target (the derivative of the multilinear map), with einsum."""
    letters = iter(string.ascii_letters)
    phys = {s: next(letters) for s in order}
    bond = {}
    ops, subs = [], []
    tgt_sub, tgt_shape = None, None
    for node_id, node in cp.nodes.items():
        t = cp.tensors[node_id]
        s = ""
        nbs = ([node.parent] if not node.is_root() else []) + list(node.children)
        for nb in nbs:
            key = frozenset((node_id, nb))
            if key not in bond:
                bond[key] = next(letters)
            s += bond[key]
        sites = phys_sites(node_id)
        if node.nopen_legs() != len(sites):
            raise RuntimeError(f"node {node_id} has {node.nopen_legs()} open legs, expected {len(sites)}")
        s += "".join(phys[x] for x in sites)
        if len(s) != t.ndim:
            raise RuntimeError(f"leg count of {node_id}")
        if node_id == target:
            tgt_sub, tgt_shape = s, tuple(t.shape)
        else:
            ops.append(t)
            subs.append(s)
    new = "".join(next(letters) for _ in tgt_sub)
    nloc = int(np.prod(tgt_shape)) if tgt_shape else 1
    ops.append(np.eye(nloc).reshape(tgt_shape + tgt_shape))
    subs.append(new + tgt_sub)
    out = new + "".join(phys[s] for s in order)
    e = np.einsum(",".join(subs) + "->" + out, *ops, optimize=True)
    return e.reshape(nloc, -1).T


def dense_state(ttn, order):
    """dense vector of a (possibly temporarily modified) state, sites in `order`."""
    letters = iter(string.ascii_letters)
    phys = {s: next(letters) for s in order}
    bond = {}
    ops, subs = [], []
    for node_id, node in ttn.nodes.items():
        t = ttn.tensors[node_id]
        s = ""
        nbs = ([node.parent] if not node.is_root() else []) + list(node.children)
        for nb in nbs:
            key = frozenset((node_id, nb))
            if key not in bond:
                bond[key] = next(letters)
            s += bond[key]
        s += "".join(phys[x] for x in phys_sites(node_id))
        ops.append(t)
        subs.append(s)
    out = "".join(phys[s] for s in order)
    return np.einsum(",".join(subs) + "->" + out, *ops, optimize=True).reshape(-1)


# ---- recorder ---------------------------------------------------------------------------------
class Recorder:
    """Logs, while active, the schedule-level events of a TDVP object:
    every time_evolve call (through the verification hook of the library), centre moves to a
    neighbour, cache blocks stored, cache re-initialisation, QR splits that create a link node
    and the contraction that absorbs it.  Optionally evaluates the E^dagger H E oracle at every
    time_evolve call."""

    def __init__(self, order=None, H=None, check_heff=False, capture_w=0, wseed=0, dt=None):
        self.dt = dt                    # the time step the CALLER asked for (durations are judged against it, not against
        #                                 what the object reports afterwards)
        self.capture_w = capture_w      # C05W: number of site calls to snapshot for the diagram-level tie (c05w.py)
        self.wseed = wseed
        self.wrecs = []
        self.log = []
        self.algo = None
        self.order = order
        self.H = H
        self.check_heff = check_heff
        self.max_err = 0.0
        self.worst = None
        self.problems = []
        self.reinit_trees = []
        self._undo = []

    # -- the time_evolve observer
    def _obs(self, psi, heff, td, forward, mode):
        algo = self.algo
        if algo is None:
            self.problems.append("time_evolve called before the algorithm object exists")
            return
        dt = self.dt if self.dt is not None else algo.time_step_size
        f2 = 2 * td / dt
        if f2 != round(f2):
            self.problems.append(f"duration {td!r} of a local update is not a multiple of half the requested time step dt = {dt!r}")
        f = int(round(f2)) * (1 if forward else -1)
        cp = copy.deepcopy(algo.state)
        psi = np.asarray(psi)
        cands = [i for i, nd in cp.nodes.items()
                 if tuple(nd.shape) == tuple(psi.shape) and np.array_equal(cp.tensors[i], psi)]
        special = [i for i in cands if i.startswith("link_") or i.startswith("TwoSite_")]
        if special:
            cands = special
        if len(cands) > 1:
            # several nodes hold tensors EQUAL in value (product states after a truncation to bond 1, GHZ copy tensors): the
            # tensor handed over is the stored OBJECT of the updated node (raw dictionary read: no lazy transposition is
            # triggered on the live state); value equality alone would name the first such node in dictionary order
            raw = getattr(algo.state.tensors, "data", {})
            same = [i for i in cands if raw.get(i) is psi]
            if same:
                cands = same
        if not cands:
            self.log.append(("unknown", list(psi.shape), f))
            self.problems.append("the tensor handed to time_evolve is not a tensor of the current state")
            return
        x = cands[0]
        if x.startswith("link_"):
            a, b = x[len("link_"):].split("_with_")
            self.log.append(("link", nid(a), nid(b), f))
        elif x.startswith("TwoSite_"):
            a, b = x[len("TwoSite_"):].split("_contr_")
            self.log.append(("two", nid(a), nid(b), f))
        else:
            self.log.append(("site", nid(x), f))
        # ---- C05W hook: sampled snapshots of (state, TTNO, H_eff) for the diagram-level tie of Contr/Heff.v / Heff2.v (site, link, two-site) ----
        if self.capture_w:
            from props import c05w
            c05w.capture(self, algo, cp, x, heff)
        # ---- end of C05W hook ----
        if self.check_heff:
            try:
                E = embedding(cp, x, self.order)
                K = E.conj().T @ self.H @ E
                heff = np.asarray(heff)
                if heff.shape != K.shape:
                    err = float("inf")
                else:
                    dev = float(np.max(np.abs(K - heff)))
                    err = dev / max(1.0, float(np.max(np.abs(K))))
                    # RELATIVE to the scale of the reference (the property is invariant under a change of units): the
                    # deviation against the largest element of E^dagger H E; floor 1e-3 * max|H| * mean squared column
                    # norm of E (an effective Hamiltonian that vanishes by cancellation is not judged relative to itself)
                    floor = 1e-3 * float(np.max(np.abs(self.H))) * float(np.sum(np.abs(E) ** 2)) / max(1, E.shape[1])
                    scale = max(float(np.max(np.abs(K))), floor)
                    if scale > 0:
                        err = max(err, dev / scale)
                # sanity of the reference itself: E applied to the current tensor is the current state
                full = dense_state(cp, self.order)
                ref_err = float(np.max(np.abs(E @ psi.reshape(-1) - full)))
                if ref_err > 1e-9 * max(1.0, float(np.max(np.abs(full)))):      # (states of any norm: relative to the amplitudes)
                    self.problems.append(f"embedding self-check failed ({ref_err:.2e})")
            except Exception as e:  # noqa
                err = float("inf")
                self.problems.append(f"reference construction failed: {type(e).__name__}: {e}")
            if err > self.max_err:
                self.max_err = err
                self.worst = {"event": list(self.log[-1]), "index": len(self.log) - 1, "err": err}

    def __enter__(self):
        import importlib
        te = importlib.import_module("pytreenet.time_evolution.time_evolution")
        from pytreenet.core.ttn import TreeTensorNetwork as TTN
        from pytreenet.contractions.tree_cach_dict import PartialTreeCachDict
        from pytreenet.contractions.sandwich_caching import SandwichCache
        rec = self
        os.environ["PYTREENET_VERIF"] = "1"
        te._verif_register_observer(self._obs)
        self._undo.append(lambda: te._verif_register_observer(None))

        o_move = TTN._move_orth_center_to_neighbour

        def move(self_, new_center_id, *a, **k):
            rec.log.append(("move", nid(self_.orthogonality_center_id), nid(new_center_id)))
            return o_move(self_, new_center_id, *a, **k)
        TTN._move_orth_center_to_neighbour = move
        self._undo.append(lambda: setattr(TTN, "_move_orth_center_to_neighbour", o_move))

        o_split = TTN.split_node_qr

        def split(self_, node_id, q_legs, r_legs, q_identifier="", r_identifier="", **k):
            if isinstance(r_identifier, str) and r_identifier.startswith("link_"):
                a, b = r_identifier[len("link_"):].split("_with_")
                rec.log.append(("split", nid(a), nid(b)))
                if a != node_id:
                    rec.problems.append(f"link {r_identifier} split off node {node_id}")
            return o_split(self_, node_id, q_legs, r_legs, q_identifier=q_identifier, r_identifier=r_identifier, **k)
        TTN.split_node_qr = split
        self._undo.append(lambda: setattr(TTN, "split_node_qr", o_split))

        o_contr = TTN.contract_nodes

        def contr(self_, node_id1, node_id2, new_identifier=""):
            if node_id1.startswith("link_") or node_id2.startswith("link_"):
                lk, other = (node_id1, node_id2) if node_id1.startswith("link_") else (node_id2, node_id1)
                a, b = lk[len("link_"):].split("_with_")
                rec.log.append(("absorb", nid(a), nid(b)))
                if other != b or new_identifier != b:
                    rec.problems.append(f"link {lk} contracted with {other} as {new_identifier}")
            return o_contr(self_, node_id1, node_id2, new_identifier=new_identifier)
        TTN.contract_nodes = contr
        self._undo.append(lambda: setattr(TTN, "contract_nodes", o_contr))

        o_add = PartialTreeCachDict.add_entry

        def add(self_, node_id, next_node_id, tensor):
            if isinstance(self_, SandwichCache):
                rec.log.append(("cache", nid(node_id), nid(next_node_id)))
            return o_add(self_, node_id, next_node_id, tensor)
        PartialTreeCachDict.add_entry = add
        self._undo.append(lambda: setattr(PartialTreeCachDict, "add_entry", o_add))

        o_init = SandwichCache.__dict__["init_cache_but_one"]

        def init(cls, state, hamiltonian, left_out_id):
            rec.log.append(("reinit",))
            rec.reinit_trees.append(rtree_json(state))
            return o_init.__func__(cls, state, hamiltonian, left_out_id)
        SandwichCache.init_cache_but_one = classmethod(init)
        self._undo.append(lambda: setattr(SandwichCache, "init_cache_but_one", o_init))
        return self

    def __exit__(self, *a):
        for u in reversed(self._undo):
            u()
        self._undo = []
        return False

    def take(self):
        out, self.log = self.log, []
        return out


def make_ops(sysd, spec):
    """operators to be recorded during a run: spec = list of [[node index, ...], seed]; each entry is a tensor product of
    random matrices on the named nodes (one node: the single-site observable of the usual applications)."""
    if not spec:
        return []
    out = []
    for sites, seed in spec:
        nprs = np.random.RandomState(seed)
        tp = {}
        for k in sites:
            d = sysd["dims"][f"n{k}"]
            a = nprs.standard_normal((d, d)) + 1j * nprs.standard_normal((d, d))
            tp[f"n{k}"] = a + a.conj().T
        out.append(util.TensorProduct(tp))
    return out


def make_algo(kind, sysd, mode=None, svd=None, dt=None, nsteps=1, final=None, ops=None):
    dt = sysd.get("dt", DT) if dt is None else dt
    return util.make_evolution(kind, sysd["ttns"], sysd["ham"], sysd["ttno"], dt, dt * nsteps if final is None else final,
                               ops or [], mode=mode, svd=svd, builder=bool(sysd.get("builder")))


def state_query(algo, sysd, act):
    """One public READ-ONLY query of the live state of a time-evolution object, act = "query:<what>:<nodes>:<seed>" with nodes =
    node indices joined by '.', or a call that the library has to reject, act = "badquery:<what>:<nodes>:<seed>".
    what: ss  state.single_site_operator_expectation_value(node, A)        tp  state.tensor_product_expectation_value({nodes: A})
          op  state.operator_expectation_value(TensorProduct)               ttno  state.operator_expectation_value(the TTNO)
          norm / scal  state.norm() / state.scalar_product()                canon  state.is_in_canonical_form([node])
          vec  state.completely_contract_tree(to_copy=True)                 cstate  copy.deepcopy(state), contracted
    badquery: nonode (ss on an identifier that is not in the tree), shape (ss with an operator of the wrong dimension),
          type (operator_expectation_value of something that is no operator).
    Returns a JSON-able description of the outcome (value or the exception raised); never raises for a rejected call."""
    head, what, nodes, seed = act.split(":")
    ks = [int(x) for x in nodes.split(".") if x != ""]
    nprs = np.random.RandomState(int(seed))
    st = algo.state

    def herm(k, extra=0):
        d = sysd["dims"][f"n{k}"] + extra
        a = nprs.standard_normal((d, d)) + 1j * nprs.standard_normal((d, d))
        return a + a.conj().T
    try:
        if head == "badquery":
            if what == "nonode":
                v = st.single_site_operator_expectation_value("n%d_x" % (len(sysd["ids"]) + 3), herm(ks[0]))
            elif what == "shape":
                v = st.single_site_operator_expectation_value(f"n{ks[0]}", herm(ks[0], extra=1))
            elif what == "type":
                v = st.operator_expectation_value([f"n{ks[0]}"])
            else:
                raise ValueError(act)
            return {"raised": None, "value": repr(v)[:60]}
        if what == "ss":
            v = st.single_site_operator_expectation_value(f"n{ks[0]}", herm(ks[0]))
        elif what == "tp":
            v = st.tensor_product_expectation_value(util.TensorProduct({f"n{k}": herm(k) for k in ks}))
        elif what == "op":
            v = st.operator_expectation_value(util.TensorProduct({f"n{k}": herm(k) for k in ks}))
        elif what == "ttno":
            v = st.operator_expectation_value(algo.hamiltonian)
        elif what == "norm":
            v = st.norm()
        elif what == "scal":
            v = st.scalar_product()
        elif what == "canon":
            v = bool(st.is_in_canonical_form(f"n{ks[0]}") if ks else st.is_in_canonical_form())
        elif what == "vec":
            v = float(np.linalg.norm(st.completely_contract_tree(to_copy=True)[0]))
        elif what == "cstate":
            v = float(np.linalg.norm(copy.deepcopy(st).completely_contract_tree()[0]))
        else:
            raise ValueError(act)
        v = complex(v)
        return {"value": [v.real, v.imag]}
    except ValueError as e:
        if head == "badquery" and not str(e).startswith(act):
            return {"raised": f"{type(e).__name__}"}
        raise
    except Exception as e:  # noqa
        if head == "badquery":
            return {"raised": f"{type(e).__name__}"}
        raise


def history_steps(history):
    return sum(1 for a in history if a == "step") if history else None


def record_run(kind, sysd, nsteps, check_heff=False, mode=None, svd=None, after_step=None, capture_w=0, wseed=0,
               history=None, ops=None, tratio=None):
    """Construct the class and drive it through a HISTORY of public calls; returns the observation dict (JSON-able).
    history: list of "step" (run_one_time_step), "reset" (reset_to_initial_state), "eval" (evaluate_operators), "run"
    (the public run(): evaluate, then num_time_steps times step + evaluate); default: nsteps times "step".
    ops: operator specification (make_ops) recorded by eval / run.  tratio: final_time / time_step_size handed to the
    constructor (default: the number of steps), e.g. 2.5 or 0.66: the time step does not divide the final time.
    after_step(algo, k) may add measurements (returned under 'measure': one after the constructor and one after every
    action, labelled 'at'; 't' = number of steps since the constructor / the last reset)."""
    ob = {"kind": kind}
    dt = sysd.get("dt", DT)
    rec = Recorder(order=sysd["ids"], H=sysd["H"], check_heff=check_heff, capture_w=capture_w, wseed=wseed, dt=dt)
    history = list(history) if history else ["step"] * nsteps
    with rec:
        t0 = rtree_json(sysd["ttns"])
        ob["t0"] = t0
        ob["dt"] = dt
        final = None if tratio is None else dt * tratio
        algo = make_algo(kind, sysd, mode=mode, svd=svd, nsteps=nsteps, final=final, ops=make_ops(sysd, ops))
        rec.algo = algo
        ob["init_log"] = [list(e) for e in rec.take()]
        ob["ti"] = rec.reinit_trees[-1] if rec.reinit_trees else None
        rec.reinit_trees = []
        ob["update_path"] = [nid(x) for x in algo.update_path]
        ob["steps"] = []
        ob["reset_trees"] = []
        ob["centres"] = []
        ob["measure"] = []
        ob["between"] = []          # [action, events] of every action that is not a time step
        ob["reported_dt"] = algo.time_step_size
        ob["num_time_steps"] = algo.num_time_steps
        tcount = [0]

        def meas(label):
            if after_step is not None:
                m = after_step(algo, len(ob["steps"]))
                if isinstance(m, dict):
                    m["at"] = label
                    m["t"] = tcount[0]
                ob["measure"].append(m)

        def one_step(step_fn):
            """returns False when the step raised"""
            try:
                step_fn()
            except Exception as e:  # noqa
                ob["exception"] = f"{type(e).__name__}: {e}"
                ob["tb"] = traceback.format_exc()[-1200:]
                ob["steps"].append([list(e) for e in rec.take()])
                return False
            ob["steps"].append([list(e) for e in rec.take()])
            ob["reset_trees"].append(rec.reinit_trees[-1] if rec.reinit_trees else None)
            rec.reinit_trees = []
            c = algo.state.orthogonality_center_id
            ob["centres"].append(None if c is None else nid(c))
            tcount[0] += 1
            meas(f"step {len(ob['steps'])}")
            return True

        def other(label, fn):
            try:
                fn()
            except Exception as e:  # noqa
                if "exception" not in ob:
                    ob["exception"] = f"{label}: {type(e).__name__}: {e}"
                    ob["tb"] = traceback.format_exc()[-1200:]
                ob["between"].append([label, [list(e) for e in rec.take()]])
                return False
            ob["between"].append([label, [list(e) for e in rec.take()]])
            rec.reinit_trees = []
            meas(f"{label} after step {len(ob['steps'])}")
            return True

        if after_step is not None:
            ob["measure"].append(after_step(algo, 0))
        others = []          # objects set aside by "copy" / "pickle" (most recent last); "back" returns to the last one
        ob["queries"] = []
        for act in history:
            if act == "step":
                ok = one_step(algo.run_one_time_step)
            elif act in ("copy", "pickle"):
                # OBJECTS PRODUCED BY THE LIBRARY / PYTHON PROTOCOLS: the evolution continues on a duplicate of the whole
                # algorithm object (copy.deepcopy, or a pickle round trip); the object duplicated is kept for "back"
                def do_dup(act=act):
                    nonlocal algo
                    if act == "copy":
                        new = copy.deepcopy(algo)
                    else:
                        import pickle
                        new = pickle.loads(pickle.dumps(algo))
                    others.append(algo)
                    algo = new
                    rec.algo = new
                ok = other(act, do_dup)
            elif act == "back":
                def do_back():
                    nonlocal algo
                    others.append(algo)
                    algo = others.pop(-2)
                    rec.algo = algo
                ok = other("back", do_back)
            elif act.startswith("query:") or act.startswith("badquery:"):
                # READ-ONLY public queries of the LIVE state between two steps (what a hand-written stepping loop does);
                # badquery: a call the library rejects (it must raise, the caller catches it and keeps using the object)
                def do_query(act=act):
                    r = state_query(algo, sysd, act)
                    ob["queries"].append([act, r])
                ok = other(act.split(":")[0], do_query)
            elif act == "reset":
                def do_reset():
                    algo.reset_to_initial_state()
                    tcount[0] = 0
                ok = other("reset", do_reset)
            elif act == "eval":
                ok = other("eval", algo.evaluate_operators)
            elif act == "run":
                # the public entry point: cut the log at the step boundaries with an instance-level wrapper that only logs
                orig = algo.run_one_time_step
                state = {"ok": True}

                def wrapped(**kw):
                    ob["between"].append(["eval", [list(e) for e in rec.take()]])
                    if not one_step(lambda: orig(**kw)):
                        state["ok"] = False
                        raise RuntimeError("step failed")
                algo.run_one_time_step = wrapped
                try:
                    ok = other("eval", lambda: algo.run(pgbar=False)) and state["ok"]
                finally:
                    del algo.run_one_time_step
            else:
                raise ValueError(act)
            if not ok:
                break
    ob["max_err"] = rec.max_err
    ob["worst"] = rec.worst
    ob["problems"] = rec.problems[:5]
    if capture_w:
        ob["wrecs"] = rec.wrecs          # C05W snapshots (numpy arrays; consumed and dropped by c05w.run in C05.model)
    return ob, algo


# ---- model side --------------------------------------------------------------------------------
def model_exprs(case, ob):
    """Coq expression: (init trace, [trace of step 1; ...], schedule checker verdict, duration verdict)"""
    kind = case["kind"]
    t0 = coq_rtree(ob["t0"])
    ti = coq_rtree(ob["ti"]) if ob.get("ti") else t0
    nst = max(1, len(ob["steps"]))
    if kind == "tdvp1":
        trs = []
        for k in range(nst):
            tr = ob["reset_trees"][k] if k < len(ob["reset_trees"]) and ob["reset_trees"][k] else ob["t0"]
            trs.append(f"trace1_gen T0 {coq_rtree(tr)}")
        dur = "dur_check_one"
    else:
        trs = [f"{TRACE_FN[kind]} T0"] * nst
        dur = "dur_check_two" if kind == "tdvp2s" else "dur_check_one"
    first = trs[0]
    return (f"(let T0 := {t0} in (init_trace_gen T0 {ti}, [{'; '.join(trs)}], "
            f"sched_check_gen T0 (init_trace_gen T0 {ti}) ({first}), opt_check ({dur} T0) ({first}), update_path T0))")


def norm_model_trace(tr):
    """Coq event list -> the tuples the recorder produces (assertions are not observable)."""
    out = []
    for e in tr:
        if e == "Reinit":
            out.append(["reinit"])
            continue
        k = e[0]
        if k == "Site":
            out.append(["site", e[1], e[2]])
        elif k == "SiteBack":
            out.append(["site", e[1], -e[2]])
        elif k == "Link":
            out.append(["link", e[1], e[2], -e[3]])
        elif k == "TwoSite":
            out.append(["two", e[1], e[2], e[3]])
        elif k in ("Split", "Absorb", "Move", "Cache"):
            out.append([k.lower(), e[1], e[2]])
        elif k in ("AssertCentre", "AssertLeaf", "AssertEnd"):
            continue
        else:
            raise ValueError(f"unknown model event {e!r}")
    return out


def first_diff(a, b):
    for i, (x, y) in enumerate(zip(a, b)):
        if list(x) != list(y):
            return f"event {i}: impl {x} model {y}"
    if len(a) != len(b):
        return f"length: impl {len(a)} model {len(b)} (first extra: {(a[len(b):] or b[len(a):])[0]})"
    return None


def compare_traces(case, ob, mo):
    """exact comparison of the recorded events with the model's traces"""
    if isinstance(mo, BaseException):
        return f"model error {mo}"
    ini, traces, sched_ok, dur_ok, up = mo
    if ini is None or any(t is None for t in traces) or up is None:
        if "exception" in ob:
            return None if len(case["par"]) < 2 else f"model undefined, implementation raised {ob['exception']}"
        return "model trace undefined (None) where the implementation runs"
    if "exception" in ob:
        return f"implementation raised {ob['exception']} where the model trace is defined"
    from lib import unsome
    ini, up = unsome(ini), unsome(up)
    if [int(x) for x in up] != ob["update_path"]:
        return f"update path: impl {ob['update_path']} model {up}"
    init_obs = ob["init_log"]
    # the constructor may canonicalise first (moves/QR not part of the schedule): keep what follows the last reinit
    idx = max([i for i, e in enumerate(init_obs) if e[0] == "reinit"], default=-1)
    d = first_diff(init_obs[idx + 1:], norm_model_trace(ini))
    if d:
        return "initial cache: " + d
    for k, st in enumerate(ob["steps"]):
        tr = unsome(traces[min(k, len(traces) - 1)])
        d = first_diff(st, norm_model_trace(tr))
        if d:
            return f"step {k + 1}: " + d
    if sched_ok is not True:
        return "schedule checker (centre / assertions / freshness) rejects the model trace of this tree"
    if dur_ok is not True:
        return "duration checker rejects the model trace of this tree"
    for k, tr in enumerate(ob.get("reset_trees", [])):
        if tr and parent_map(tr) != parent_map(ob["t0"]):
            return f"step {k + 1}: parent relation changed"
    # histories: recording observables is not part of the schedule (no event), a reset repeats the constructor's preparation
    for k, (label, events) in enumerate(ob.get("between", [])):
        if label == "eval" and events:
            return f"action {k + 1} (evaluate_operators): schedule-level events {events[:3]} where the model has none"
        if label in ("copy", "pickle", "back", "query", "badquery") and events:
            # duplicating the object, returning to the one set aside, a read-only query of the live state and a rejected call
            # are no part of the schedule: no centre move, no cache write, no local update
            return f"action {k + 1} ({label}): schedule-level events {events[:3]} where the model has none"
        if label == "reset":
            idx = max([i for i, e in enumerate(events) if e[0] == "reinit"], default=-1)
            d = first_diff(events[idx + 1:], norm_model_trace(ini))
            if idx < 0:
                return "reset_to_initial_state: the environment cache is not re-initialised"
            if d:
                return "reset_to_initial_state, cache: " + d
    return None


def tally_instance(prop, mo):
    """per-instance kernel-evaluated obligations: schedule checker and duration checker verdicts"""
    t = prop.__dict__.setdefault("_inst", [0, 0, []])
    if isinstance(mo, BaseException) or mo is None:
        return
    for name, v in (("sched_check", mo[2]), ("dur_check", mo[3])):
        t[0] += 1
        if v is True:
            t[1] += 1
        elif len(t[2]) < 5:
            t[2].append(f"{name} = {v} on an explored tree")


def observed_durations(par, kind, step_events):
    """oracle part: per-step signed duration sums from the observed time_evolve calls"""
    n = len(par)
    deg = degrees(par)
    node = Counter()
    edge = Counter()
    total = 0
    for e in step_events:
        if e[0] == "site":
            node[e[1]] += e[2]
            total += e[2]
        elif e[0] in ("link", "two"):
            edge[frozenset((e[1], e[2]))] += e[3]
            total += e[3]
        elif e[0] == "unknown":
            return "a time_evolve call on an unidentified tensor"
    tree_edges = {frozenset((i, p)) for i, p in enumerate(par) if p is not None}
    if set(edge) - tree_edges:
        return f"update on a non-edge {sorted(map(sorted, set(edge) - tree_edges))}"
    for i in range(n):
        want = 2 if kind != "tdvp2s" else -2 * (deg[i] - 1)
        if node[i] != want:
            return f"node {i}: total duration {node[i]}/2 dt, expected {want}/2 dt"
    for ed in tree_edges:
        want = -2 if kind != "tdvp2s" else 2
        if edge[ed] != want:
            return f"edge {sorted(ed)}: total duration {edge[ed]}/2 dt, expected {want}/2 dt"
    if total != 2:
        return f"durations sum to {total}/2 dt, expected dt"
    return None


def _pool_map(fn, cases, min_parallel=12):
    if len(cases) < min_parallel:
        return [fn(c) for c in cases]
    import multiprocessing as mp
    nproc = min(14, os.cpu_count() or 1)
    with mp.get_context("fork").Pool(nproc) as pool:
        return pool.map(fn, cases, chunksize=1)


def eval_models(ctx, cases, obs):
    exprs, idx = [], []
    for i, (c, ob) in enumerate(zip(cases, obs)):
        if isinstance(ob, SkipCase) or not isinstance(ob, dict) or "t0" not in ob:
            continue
        exprs.append(model_exprs(c, ob))
        idx.append(i)
    vals = coq_eval(ctx, IMPORTS, exprs, shard=max(4, len(exprs) // 14 + 1))
    out = [None] * len(cases)
    for i, v in zip(idx, vals):
        out[i] = v
    return out


def gen_tree_cases(rng, count, kinds, thorough, extra=None):
    """trees: the special list first, then random ones with 2..7 nodes"""
    cases = []
    trees = list(SPECIAL_TREES)
    while len(trees) < count:
        n = rng.choice([2, 3, 3, 4, 4, 5, 5, 6, 6, 7] if thorough else [2, 3, 3, 4, 4, 5, 5, 6, 7])
        trees.append(random_tree(rng, n))
    rng.shuffle(trees)
    trees = trees[:count]
    for j, par in enumerate(trees):
        c = {"par": par, "kind": kinds[j % len(kinds)], "seed": rng.randrange(10 ** 9)}
        if extra:
            c.update(extra(rng, j, par))
        cases.append(c)
    return cases


# trees with 8..9 nodes for the history families (an observable several edges away from the sweep's first node, several side
# branches below one node): kept apart from SPECIAL_TREES, whose members every case family of C05-C07 iterates over
DEEP_TREES = [
    [None, 0, 0, 2, 2, 2, 3, 4, 5],     # root with a leaf and a node carrying three arms of length two
    [None, 0, 1, 2, 3, 4, 5, 6],        # chain with 8 nodes rooted at an end
    [None, 0, 0, 1, 1, 2, 2, 3],        # binary with one deeper leaf
    [None, 0, 1, 1, 2, 3, 4, 5],        # single-child root, two arms of length three
]
TRATIOS = [0.66, 1.37, 2.5, 3.33, 7.14]      # final_time / time_step_size that is not an integer (and one below 1)


def gen_history_cases(rng, count, kinds, base):
    """HISTORIES of public calls on one object (the property quantifies over histories): time steps, then
    reset_to_initial_state() and time steps again; observables recorded between the steps (evaluate_operators() by hand or
    the public run()).  Trees with 4..9 nodes; two thirds of the states have every bond >= 2 (entangled across every edge:
    a stale or re-gauged environment block is then visible).  Observables: single-site operators on up to three leaves
    (one of them a leaf furthest from node n0's first leaf) and one two-site product.  A third of the cases is constructed
    with a final time that is not a multiple of the time step.  `base(rng, j, par)` supplies the property-specific fields."""
    pool = [p for p in SPECIAL_TREES if len(p) >= 4] + DEEP_TREES
    cases = []
    for j in range(count):
        r = rng.random()
        par = rng.choice(DEEP_TREES) if r < 0.25 else (random_tree(rng, rng.choice([5, 6, 7, 8, 9])) if r < 0.5 else rng.choice(pool))
        n = len(par)
        c = {"par": par, "kind": kinds[j % len(kinds)], "seed": rng.randrange(10 ** 9)}
        c.update(base(rng, j, par))
        if j % 3 != 2:
            c["phys"] = [2] * n if n > 5 else [rng.choice([2, 3]) for _ in range(n)]
            c["bond"] = rng.choice([2, 2, 3]) if max(degrees(par)) <= 3 or n <= 6 else 2
        hk = ["reset", "eval", "run"][(j // len(kinds)) % 3]
        if hk == "reset":
            a, b = rng.choice([(1, 1), (1, 2), (2, 1)]) if n <= 7 else (1, 1)
            c["history"] = ["step"] * a + ["reset"] + ["step"] * b
            if j % 2 == 0:
                c["tratio"] = rng.choice(TRATIOS)
        else:
            leaves = [i for i in range(n) if i not in par]
            far, _ = far_node(par, leaves[0])
            sites = sorted(set([far] + rng.sample(leaves, min(2, len(leaves)))))
            c["ops"] = [[[k], rng.randrange(10 ** 6)] for k in sites] + [[sorted(rng.sample(range(n), 2)), rng.randrange(10 ** 6)]]
            if hk == "eval":
                c["history"] = ["eval", "step", "eval", "step"] if n <= 7 else ["eval", "step", "eval"]
                if j % 2 == 0:
                    c["tratio"] = rng.choice(TRATIOS)
            else:
                c["history"] = ["run"]
                c["tratio"] = rng.choice([1, 2, 1.37, 2.0625]) if n <= 7 else 1      # run() makes ceil-like(tratio) steps
        c["nsteps"] = max(1, sum(1 for a in c["history"] if a == "step"))
        # C05W: one sampled call per kind of update is enough here (the base families carry the diagram tie); none on the trees
        # with more than 6 nodes, where the einsum of the whole <psi|H|psi> diagram of the value tie gets expensive
        c["wcap"] = 1 if n <= 6 else 0
        c["hist"] = hk
        cases.append(c)
    return cases


QUERY_KINDS = ["ss", "ss", "ss", "tp", "tp", "op", "ttno", "norm", "scal", "canon", "vec", "cstate"]
BAD_QUERIES = ["nonode", "shape", "type"]


def gen_object_cases(rng, count, kinds, base):
    """HISTORIES that mix the time steps with OTHER public operations on the evolving objects (the property quantifies over
    histories; every local update of every step of such a history has to use E^dagger H E of the tensors the object holds
    at that moment):
      dup    the whole algorithm object is duplicated between / before steps - copy.deepcopy(algo) or a pickle round trip -
             and the steps continue ON THE DUPLICATE (an object produced by Python's copy protocol from the library's
             classes: its cache, state and Hamiltonian have to belong together as in the original), later also on the
             object set aside ("back"), and through reset_to_initial_state() of the duplicate;
      query  between two steps the LIVE state algo.state is asked read-only questions the way a hand-written stepping loop
             does: single_site_operator_expectation_value / tensor_product_expectation_value / operator_expectation_value
             (TensorProduct on one or two nodes, the TTNO itself), norm, scalar_product, is_in_canonical_form,
             completely_contract_tree(to_copy=True), a deepcopy of the state; the queried node is a leaf furthest from
             the sweep's first node, the sweep's first node itself, or a random node;
      error  a call the library rejects (identifier that is not in the tree, operator of the wrong dimension, something
             that is no operator): the caller catches the exception and goes on stepping.
    Trees with 3..9 nodes, three quarters with a node of degree >= 3 (multi-hop centre moves inside the sweeps), the rest
    chains; two thirds of the states have every bond >= 2.  2..3 time steps per history, always at least one after the
    last other operation.  `base(rng, j, par)` supplies the property-specific fields."""
    branching = [p for p in SPECIAL_TREES + DEEP_TREES + HUB_TREES if max(degrees(p)) >= 3]
    chains = [p for p in SPECIAL_TREES if len(p) >= 3 and max(degrees(p)) <= 2]
    cases = []
    for j in range(count):
        r = rng.random()
        if r < 0.2:
            par = rng.choice(chains)
        elif r < 0.45:
            par = random_tree(rng, rng.choice([4, 5, 6, 7, 8]))
        else:
            par = rng.choice(branching)
        n = len(par)
        c = {"par": par, "kind": kinds[j % len(kinds)], "seed": rng.randrange(10 ** 9)}
        c.update(base(rng, j, par))
        if j % 3 != 2:
            c["phys"] = [2] * n if n > 5 else [rng.choice([2, 3]) for _ in range(n)]
            c["bond"] = rng.choice([2, 2, 3]) if max(degrees(par)) <= 3 or n <= 6 else 2
        leaves = [i for i in range(n) if i not in par[1:]] or [0]
        far, _ = far_node(par, leaves[0])

        def query():
            what = rng.choice(QUERY_KINDS)
            k = rng.choice([far, far, rng.choice(leaves), rng.randrange(n), rng.randrange(n)])
            ks = [k]
            if what == "op" and n >= 2 and rng.random() < 0.6:
                ks = sorted(rng.sample(range(n), 2))
            if what == "canon" and rng.random() < 0.5:
                ks = []
            return "query:%s:%s:%d" % (what, ".".join(map(str, ks)), rng.randrange(10 ** 6))

        def bad():
            return "badquery:%s:%d:%d" % (rng.choice(BAD_QUERIES), rng.randrange(n), rng.randrange(10 ** 6))

        fam = ["dup", "query", "dup", "query", "error", "mixed"][(j // len(kinds)) % 6]
        dup = "pickle" if (fam == "dup" and rng.random() < 0.25) else "copy"
        if fam == "dup":
            h = rng.choice([["step", dup, "step", "step"], [dup, "step", "step"], ["step", dup, "step", "back", "step"],
                            [dup, "step", "back", "step"], ["step", dup, "reset", "step"], ["step", dup, dup, "step"],
                            ["step", dup, "step", "back", "step", "back", "step"]])
        elif fam == "query":
            h = rng.choice([["step", query(), "step"], [query(), "step", query(), "step"], ["step", query(), query(), "step"],
                            ["step", "step", query(), "step"], ["step", query(), "step", query(), "step"]])
        elif fam == "error":
            h = rng.choice([["step", bad(), "step"], [bad(), "step", bad(), query(), "step"], ["step", bad(), query(), "step"]])
        else:
            h = rng.choice([["step", "copy", query(), "step", "back", "step"], ["step", query(), "copy", "step", "step"],
                            ["copy", "step", bad(), "back", query(), "step"], ["step", "copy", "step", query(), "step"]])
        if n >= 8:
            # (dense reference over 256..512 dimensions at every call: at most two steps)
            while sum(1 for a in h if a == "step") > 2:
                h.remove("step")
        c["history"] = h
        c["nsteps"] = max(1, sum(1 for a in h if a == "step"))
        c["wcap"] = 1 if n <= 6 else 0
        c["hist"] = "obj-" + fam + ("-pickle" if dup == "pickle" else "")
        cases.append(c)
    return cases


# trees with a node of degree >= 3 and few nodes (the dense space stays small: all physical dimensions 2)
HUB_TREES = [
    [None, 0, 0, 0],                 # star: the root has three neighbours
    [None, 0, 1, 1],                 # a node with a parent and two children
    [None, 0, 0, 0, 0],              # star: four neighbours
    [None, 0, 1, 1, 1],              # parent and three children
    [None, 0, 0, 1, 1],              # root with two children, one of which has two children
    [None, 0, 1, 1, 2],              # hub below a single-child root, one arm of length two
    [None, 0, 0, 0, 1, 1],           # two adjacent hubs
    [None, 0, 1, 2, 2, 1],           # hub two levels below the root, next to a second hub
]


def gen_large_cases(rng, count, kinds, base):
    """LARGE LOCAL TENSORS ("any bond dimensions, zero-padded bonds"; the property text puts no bound on the size of a local
    tensor): trees with 4..6 nodes and a node of degree 3 or 4 (the hub) whose bonds have pairwise DIFFERENT dimensions
    d_1 .. d_k (4..14 for three neighbours, 2..9 for four) with a local dimension d_1 * ... * d_k * 2 in [512, 1536]; every
    other bond 1..2, physical dimension 2 everywhere (the leaves' bonds exceed the space behind them: zero-padded; the
    dense space has 16..64 dimensions, so E^dagger H E is as cheap as in the small cases although it is a matrix of 512..1536
    rows).  The hub's dimensions are laid out along the TTNO's neighbour order of the hub by every permutation of their
    sorted order in turn (increasing, decreasing, single swaps, cyclic shifts; the state's own leg order is shuffled as
    always, and the TTNO is built on the state's tree or on a reference tree with another child order).  Evolution in the
    default / Chebyshev / RK45 modes (action of the exponential on the vector: no 1000 x 1000 matrix exponential).  The
    diagram-level tie (C05W) is not sampled on these cases."""
    import itertools
    cases = []
    perms = {}
    for j in range(count):
        par = rng.choice(HUB_TREES) if j % 4 != 3 else None
        while par is None:
            cand = random_tree(rng, rng.choice([4, 5, 6]))
            if max(degrees(cand)) in (3, 4):
                par = cand
        deg = degrees(par)
        hubs = [i for i in range(len(par)) if deg[i] >= 3]
        h = rng.choice(hubs)
        k = deg[h]
        while True:
            dims = sorted(rng.sample(range(4, 15) if k == 3 else range(2, 10), k))
            if 512 <= 2 * int(np.prod(dims)) <= 1536:
                break
        if k not in perms or not perms[k]:
            perms[k] = list(itertools.permutations(range(k)))
            rng.shuffle(perms[k])
        pm = perms[k].pop()
        c = {"par": par, "kind": kinds[j % len(kinds)], "seed": rng.randrange(10 ** 9)}
        c.update(base(rng, j, par))
        c.update({"phys": [2] * len(par), "bond": {i: rng.choice([1, 2, 2]) for i in range(1, len(par))},
                  "hub": h, "hubdims": [dims[i] for i in pm], "mode": ["default", "chebyshev", "RK45"][(j // len(kinds)) % 3],
                  "nsteps": 1, "wcap": 0, "large": True, "real": False})
        cases.append(c)
    return cases


HEXP_BANDS = [(-44, -24), (-23, -8), (8, 24), (-7, 7)]      # exponents of two: 6e-14 .. 1.7e7, four bands visited in turn
SEXPS = [-30, -16, -6, 6, 16]                                # state rescaled by 2^sexp (norm 1e-9 .. 6e4 times the random one)


def gen_scaled_cases(rng, count, kinds, base, lossy=False, saturated=None):
    """UNITS and SCALES.  The property texts quantify over all Hamiltonians, states and step sizes, and every statement
    in them is invariant under a change of units (H -> s H, dt -> dt / s) and under rescaling the state: the same
    physical system is entered with the Hamiltonian multiplied by s = 2^hexp, hexp in [-44, 24] (energies of order 1e-13 ..
    1e7, time steps 1e13 .. 1e-7: H dt is what it is for the unscaled system, and powers of two round nothing), in every
    fifth case also the state multiplied by 2^sexp.  With `lossy` two thirds of the cases carry, on top of a HERMITIAN
    Hamiltonian, loss terms -i eps P_j with eps = 10^u, u uniform in [-9.5, -1] (weakly non-Hermitian TTNO: weak decay
    next to large energies); the last third is Hermitian / generic non-Hermitian as `base` says.  The oracles judge RELATIVE
    to the scale of their reference.  Small trees (2..6 nodes); every seventh case has physical legs of dimension 1.  saturated(rng, j) may supply the fields of an exactness
    case (two nodes) for every third case."""
    pool = [p for p in SPECIAL_TREES if len(p) <= 6]
    cases = []
    for j in range(count):
        par = rng.choice(pool) if j % 3 else random_tree(rng, rng.choice([2, 3, 4, 5, 6]))
        c = {"par": par, "kind": kinds[j % len(kinds)], "seed": rng.randrange(10 ** 9)}
        c.update(base(rng, j, par))
        if saturated is not None and j % 3 == 0:
            c.update(saturated(rng, j))
        lo, hi = HEXP_BANDS[(j // len(kinds)) % len(HEXP_BANDS)]
        c["hexp"] = rng.randint(lo, hi)
        if lossy and j % 3 != 2:
            c["herm"] = True
            c["loss"] = 10.0 ** rng.uniform(-9.5, -1.0)
            c["loss_sites"] = rng.choice([1, 2, len(c["par"])])
        elif lossy:
            c["herm"] = j % 6 == 5           # generic non-Hermitian / Hermitian in turn
        if j % 5 == 4:
            c["sexp"] = rng.choice(SEXPS)
        if j % 7 == 6 and "phys" not in c:
            # physical legs of dimension ONE next to 2 and 3, bonds 1..2 (dimension-1 legs are members of "all initial states")
            n = len(c["par"])
            c["phys"] = [rng.choice([1, 1, 2, 3]) for _ in range(n)]
            c["bond"] = {i: rng.choice([1, 1, 2]) for i in range(1, n)}
            c["dim1"] = True
        c.setdefault("nsteps", 1)
        c["wcap"] = 1
        c["scaled"] = True
        cases.append(c)
    return cases


def scale_distribution(c, x):
    """distribution counters of the scale families (shared by C05-C07)"""
    if x.get("hexp") is not None:
        h = x["hexp"]
        c["H-scale=2^" + ("[-44,-24]" if h <= -24 else "[-23,-8]" if h <= -8 else "[-7,7]" if h <= 7 else "[8,24]")] += 1
    if x.get("loss") is not None:
        c["weak-loss=1e%d" % int(np.floor(np.log10(x["loss"])))] += 1
    if x.get("sexp"):
        c["state-scale=2^%d" % x["sexp"]] += 1
    if x.get("dtscale", 1) != 1:
        c["H*dt-scale=%g" % x["dtscale"]] += 1
    if x.get("dim1"):
        c["physical-dimension-1-legs"] += 1


def mode_of(name):
    from pytreenet.time_evolution.time_evolution import TimeEvoMode
    return {"expm": TimeEvoMode.EXPM, "default": TimeEvoMode.FASTEST, "RK45": TimeEvoMode.RK45, "RK23": TimeEvoMode.RK23,
            "DOP853": TimeEvoMode.DOP853, "BDF": TimeEvoMode.BDF, "chebyshev": TimeEvoMode.CHEBYSHEV}[name]


def hist_kwargs(case):
    """the history / configuration fields of a case understood by record_run"""
    return {"history": case.get("history"), "ops": case.get("ops"), "tratio": case.get("tratio")}


def far_node(par, start):
    """index of a node at maximal distance from `start` (ties: smallest index)"""
    n = len(par)
    adj = {i: [] for i in range(n)}
    for i, p in enumerate(par):
        if p is not None:
            adj[i].append(p)
            adj[p].append(i)
    dist = {start: 0}
    todo = [start]
    while todo:
        x = todo.pop(0)
        for y in adj[x]:
            if y not in dist:
                dist[y] = dist[x] + 1
                todo.append(y)
    m = max(dist.values())
    return min(i for i in dist if dist[i] == m), dist


# =================================================================================================
def _run_case(case):
    try:
        sysd = build_system(case)
        ob, _ = record_run(case["kind"], sysd, case.get("nsteps", 1), check_heff=True,
                           mode=mode_of(case["mode"]) if case.get("mode") else None,
                           capture_w=case.get("wcap", 3), wseed=case["seed"], **hist_kwargs(case))
        ob["dims"] = [sysd["dims"][i] for i in sysd["ids"]]
        ob["ttno_children_differ"] = any(list(sysd["ttno"].nodes[i].children) != list(sysd["ttns"].nodes[i].children)
                                         for i in sysd["ids"])
        return ob
    except _Skip as s:
        return {"skip": str(s)}
    except Exception as e:  # noqa
        return {"exception": f"{type(e).__name__}: {e}", "tb": traceback.format_exc()[-1500:], "construct": True}


class C05(Prop):
    id = "C05"
    title = "TDVP local updates: projected Hamiltonian and durations"
    design_ref = "DESIGN.md section 5 / C05"
    rule = ("trees with 2..7 nodes (fixed list: two nodes, single-child roots, stars, chains rooted at an end / in the middle, binary, "
            "depth ties; then random shapes), random states with shuffled legs and bond dimensions 1..3 (bonds larger than the space "
            "behind them => zero-padded after KEEP-mode QR), Hermitian and non-Hermitian random Hamiltonians, TTNO built on the "
            "state's tree or on a reference tree with another child order, each of the three classes, 1 or 2 steps. "
            "Configurations: every seventh case is constructed with a final time the time step does not divide (0.66 .. 7.14 dt; durations are "
            "judged against the REQUESTED time step); a mode family runs each class in the ODE-solver modes RK45/RK23/DOP853/BDF and the "
            "default / Chebyshev modes (two-site class: negative duration with forward=True). Histories on one object (trees 4..9 nodes, two "
            "thirds with every bond >= 2): steps / reset_to_initial_state() / steps; evaluate_operators() between steps and the public run() "
            "with single-site observables on leaves (one furthest from the sweep start) and a two-site product - H_eff against E^dagger H E "
            "at every call of every step of the history, the reset's cache rebuild and the absence of schedule events while measuring are "
            "part of the model tie. Units / scales (trees 2..6 nodes): the Hamiltonian multiplied by 2^hexp, hexp in [-44, 24] in four bands "
            "(energies 1e-13 .. 1e7) with the time step divided by the same power of two (H dt as for the unscaled system, nothing rounded); "
            "two thirds of these cases are a Hermitian Hamiltonian plus loss terms -i eps P_j on 1, 2 or all sites, eps = 10^u, u uniform in "
            "[-9.5, -1] (weakly non-Hermitian TTNO, weak decay next to large energies), the rest Hermitian / generic non-Hermitian; every fifth "
            "state rescaled by 2^-30 .. 2^16, every seventh with physical legs of dimension 1; H_eff is judged RELATIVE to max|E^dagger H E| (floor 1e-3 max|H| mean column norm^2 of E). "
            "Large local tensors (trees 4..6 nodes, physical dimension 2, dense space 16..64): a hub of degree 3 or 4 whose bonds have pairwise different "
            "dimensions (4..14 resp. 2..9) with local dimension 512..1536 (leaf bonds far above the space behind them: zero-padded), every other "
            "bond 1..2; the hub's dimensions are laid out along the TTNO's neighbour order of the hub by every permutation of their sorted order "
            "in turn (sorted, single swaps, cyclic shifts, reversed), TTNO on the state's tree or on a reference tree with another child order, all "
            "three classes (one-site twice as often), default / Chebyshev / RK45 modes, dense E^dagger H E oracle at every call (no diagram tie). "
            "Histories mixing the steps with other public operations on the evolving objects (trees 3..9 nodes, three quarters with a node of "
            "degree >= 3, two thirds with every bond >= 2; 2..3 steps, at least one after the last other operation): the whole algorithm object "
            "duplicated by copy.deepcopy or a pickle round trip before / between steps and stepped ON THE DUPLICATE, then again on the object set "
            "aside, duplicate of a duplicate, reset_to_initial_state() of the duplicate; read-only queries of the LIVE state algo.state between steps "
            "(single_site_operator_expectation_value / tensor_product_expectation_value / operator_expectation_value with a TensorProduct on one or "
            "two nodes or the TTNO, norm, scalar_product, is_in_canonical_form, completely_contract_tree(to_copy=True), deepcopy of the state; queried "
            "node = leaf furthest from the sweep start / random node); calls the library rejects (unknown identifier, operator of the wrong dimension, "
            "non-operator: the exception is caught and the stepping goes on) - E^dagger H E of the tensors the stepped object holds at every call "
            "of every step, and none of these operations may produce a schedule event (centre move, cache write) in the model tie. "
            "non-trivial = at least one link/two-site update (always, >= 2 nodes); distinct by content")
    clauses = [
        ("F", "for every tree with unique ids and >= 2 nodes the three traces are defined (C05_trace*_defined); one-site schemes: the signed Site "
              "factors of every node sum to 1 (C05_site_durations_first_order / _second_order); the total signed duration of a step is 1 for all "
              "three schemes (C05_total_duration_*); first order: every Link event sits on a tree edge with factor 1, applied backward "
              "(C05_link_events_first_order)"),
        ("F", "for every tree (>= 2 nodes): Link factors of every tree edge sum to 1 (applied backward) in both one-site schemes; two-site: +1 per edge and "
              "-(degree-1) per node; every Link/TwoSite event lies on a tree edge (C05_durations, C05_link_durations_*, C05_two_site_durations, "
              "C05_site_durations_two_site; the bounded companions over all trees <= 10 nodes are kept)"),
        ("F", "for every tree (>= 2 nodes) (C05_cache_fresh; bounded companion <= 9 nodes kept): cache_fresh — over constructor + two consecutive steps every environment block read by a "
              "Site/Link/TwoSite event or used to build another block is stamped with the current versions of everything behind it; the centre "
              "is on the updated object; all assertions of the classes hold; each step ends with the centre on update_path[0] (C05_cache_fresh_bounded_9)"),
        ("I", "per explored instance: the schedule checker and the duration checker are evaluated by vm_compute on the model trace that is "
              "compared exactly with the implementation (incl. the tree with the children order the state had at cache re-initialisation)"),
        ("F", "SITE updates, diagram level (Contr/Heff.v, C05_heff_site_diagram / C05_heff_site_checked / C05_env_block_closed): for every tree, every "
              "updated node and independent neighbour orders of state and TTNO (wf_heff), the sandwich-cache recursion over the tree re-rooted at the "
              "target (children AND parent directions, leaf / subtree branches of contract_any) followed by contract_all_except_node + "
              "find_tensor_leg_permutation succeeds and yields exactly the <psi|H|psi> network with the target's ket tensor and its conjugate twin "
              "removed: atoms = all operator atoms + all other ket atoms and conjugate copies; every edge wire not incident to the target bound; at the "
              "target the operator's wires bound, the ket's and the conjugate copy's open; glued pairs (ket open, operator input) / (operator output, "
              "conjugate open) at every other node; rows = conjugate-side legs, columns = ket-side legs, both in the leg order of the updated tensor "
              "= E^dagger H E as a diagram.  The blocks of the model are the FRESH ones (freshness of the real cache: clause cache_fresh above + value tie)"),
        ("F", "LINK updates, diagram level (C05_heff_link_diagram / C05_heff_link_checked): the state holds the link node between a and b (not the "
              "root, one child, two legs, no open leg), the TTNO does not (heterogeneous neighbour lists at a and b, wf_link); for every tree, every edge "
              "and independent neighbour orders _get_effective_link_hamiltonian built from fresh blocks is the complete network of both sides of the "
              "edge, the operator wire of the edge bound, rows = conjugate copies of the link tensor's legs, columns = the link tensor's legs, in the "
              "link tensor's own leg order (parent side first), whichever end is the parent"),
        ("F", "TWO-SITE updates, diagram level (Contr/Heff2.v, C05_heff_two_diagram / C05_heff_two_checked / C05_heff_two_legs): the state AFTER "
              "contract_nodes(target a, next b) holds the two-site node l (what _determine_two_site_leg_permutation reads), the TTNO still has a and b "
              "(wf_twosite: heterogeneous neighbour lists at every neighbour of the pair, independent neighbour orders, ANY order of l's neighbours); "
              "for every tree, every adjacent pair and either parentage, contract_all_but_one_neighbour_block_to_hamiltonian on both TTNO tensors with "
              "fresh blocks + tensordot over the TTNO bond + the leg permutation succeeds and yields exactly the <psi|H|psi> network with the two ket "
              "atoms of the pair and their conjugate twins removed: the operator bond a-b and the operator wires to the pair's neighbours bound, every "
              "edge not incident to the pair bound in all three layers, ket / conjugate wires to the pair's neighbours open; rows = (conjugate legs to "
              "l's neighbours in l's own order, output leg of a, output leg of b), columns = (ket legs in the same order, input leg of a, input leg of "
              "b) = the leg order of the two-site tensor (its open legs are a's then b's: C02_contract_open_rule)"),
        ("I", "per sampled TWO-SITE call (about 3 per tdvp2s case): state (with the two-site node) and TTNO rebuilt as store programmes, all build "
              "operations accepted, hypothesis checker wf_twositeb (C05_heff_two_checked) and result checker heff_two_ok (C05_heff_two_ok_sound) by "
              "vm_compute"),
        ("I", "per sampled SITE call (about 3 per case) and LINK call (1-2 per case): the state and the TTNO are rebuilt as store programmes from "
              "their current structure; all build operations accepted; hypothesis checkers wf_heffb / wf_linkb (C05_heff_site_checked, "
              "C05_heff_link_checked) and, as a cross-check, result checkers heff_ok / link_ok (C05_heff_ok_sound, C05_link_ok_sound) by vm_compute"),
        ("V", "value tie of the diagram level: einsum of the model diagram (fresh blocks) on the captured tensors equals the matrix handed to "
              "time_evolve, 1e-9 relative (to max(1, |value|) and to the value's own largest element), for the sampled site, link and two-site calls (detects stale cache blocks, wrong leg permutations, "
              "swapped sides / swapped physical legs of the pair)"),
        ("V", "H_eff handed to time_evolve equals E^dagger H E (dense operator, embedding by differentiating the current dense state): "
              "numerical oracle, tolerance 1e-9 relative to max(1, max|E^dagger H E|) AND relative to max|E^dagger H E| itself (Hamiltonians "
              "in any units), at every call of every step (site, link and two-site), also after "
              "reset_to_initial_state(), after observables were recorded on the live state, on a deepcopy / pickle duplicate of the algorithm "
              "object, after read-only queries of algo.state and after rejected calls; observed signed durations per node / edge "
              "in units of the requested dt/2 in every evolution mode"),
    ]
    trusted_base = ["NumPy einsum/kron for the dense reference E^dagger H E (independent of the library's contraction code)",
                    "diagram level: NumPy tensordot/transpose implement g_tensordot/g_transpose of Contr/Heff.v (validated by the value tie); "
                    "equal diagrams denote equal tensors (Wire/Sem*.v, C02)",
                    "the verification hook at the top of time_evolve reports (psi, H_eff, duration, direction) faithfully",
                    "monkey-patched wrappers (move to neighbour, cache add_entry, cache re-initialisation, link split/absorb) only log; "
                    "the instance-level wrapper of run_one_time_step used to cut the log of the public run() at step boundaries only logs",
                    "the observer identifies the stepped object's state as the one of the object the history currently drives (original or duplicate)"]
    assumptions = ["trees with at least two nodes (second-order classes raise IndexError on a single node, as the model says)",
                   "state and TTNO have the same node identifiers and parent relation (children order may differ)"]

    def generate(self, ctx, stream, budget_scale=1):
        rng = ctx.rng(stream)
        count = ctx.scale(150, 4000) * budget_scale

        def extra(rng, j, par):
            return {"herm": j % 3 != 0, "coeffs": j % 4 == 1, "ttno_shuffle": j % 2 == 1,
                    "nsteps": 2 if (j % 5 == 0 and len(par) <= 6) else 1, "nterms": rng.choice([1, 2, 3, 4])}
        cases = gen_tree_cases(rng, count, ["tdvp1", "tdvp2", "tdvp2s"], ctx.thorough(), extra)
        kinds = ["tdvp1", "tdvp2", "tdvp2s"]
        # CONFIGURATIONS: a final time that the time step does not divide (every seventh case); the durations are judged
        # against the time step the caller asked for
        for j, c in enumerate(cases):
            if j % 7 == 3:
                c["tratio"] = rng.choice(TRATIOS)
        # CONFIGURATIONS: the ODE-solver evolution modes and the default (Chebyshev) mode for every class; in the two-site class
        # the backward site updates are expressed as a NEGATIVE duration with forward=True.  H_eff and the signed durations
        # do not depend on the accuracy of the solver
        modes = ["RK45", "RK23", "DOP853", "BDF", "default", "chebyshev"]
        mtrees = [p for p in SPECIAL_TREES if 3 <= len(p) <= 6]
        for j in range(ctx.scale(18, 360) * budget_scale):
            par = rng.choice(mtrees) if j % 3 else random_tree(rng, rng.choice([3, 4, 5, 6]))
            c = {"par": par, "kind": kinds[j % 3], "seed": rng.randrange(10 ** 9), "mode": modes[(j // 3) % len(modes)],
                 "nsteps": 2 if j % 4 == 0 else 1}
            c.update(extra(rng, j, par))
            c["nsteps"] = 2 if j % 4 == 0 else 1
            cases.append(c)
        # HISTORIES: run / reset / run and observables recorded between the steps, H_eff checked at every call of every step
        cases += gen_history_cases(rng, ctx.scale(27, 540) * budget_scale, kinds, lambda rng, j, par: extra(rng, j, par))
        # UNITS / SCALES: Hamiltonian in units 2^-44 .. 2^24 with H dt unchanged, weak loss on top of a Hermitian Hamiltonian,
        # rescaled states; H_eff is judged relative to the size of E^dagger H E
        cases += gen_scaled_cases(rng, ctx.scale(24, 600) * budget_scale, kinds, lambda rng, j, par: extra(rng, j, par), lossy=True)
        # LARGE LOCAL TENSORS: a hub of degree 3..4 with pairwise different bond dimensions and local dimension 512..1536, the
        # dimensions laid out along the TTNO's neighbour order by every permutation in turn (one-site schemes twice as often as the
        # two-site scheme, whose untruncated SVDs shrink the zero-padded bonds before the hub's backward site update)
        cases += gen_large_cases(rng, ctx.scale(12, 120) * budget_scale, ["tdvp1", "tdvp2", "tdvp2s", "tdvp2", "tdvp1"],
                                 lambda rng, j, par: extra(rng, j, par))
        # HISTORIES mixing the steps with other public operations on the evolving objects: the algorithm object duplicated
        # (deepcopy / pickle round trip) and stepped on the duplicate and on the original, read-only queries of the live state
        # between steps, calls the library rejects (see gen_object_cases)
        cases += gen_object_cases(rng, ctx.scale(36, 720) * budget_scale, kinds, lambda rng, j, par: extra(rng, j, par))
        return cases

    def nontrivial(self, case):
        return len(case["par"]) >= 2

    def distribution(self, cases):
        c = Counter()
        for x in cases:
            c[f"nodes={len(x['par'])}"] += 1
            c[x["kind"]] += 1
            c["hermitian" if x.get("herm", True) and x.get("loss") is None else "non-hermitian"] += 1
            c["ttno-other-child-order" if x.get("ttno_shuffle") else "ttno-same-tree"] += 1
            if x["par"][1:].count(0) == 1:
                c["single-child-root"] += 1
            c["mode=" + x.get("mode", "expm")] += 1
            c["history=" + x.get("hist", "steps")] += 1
            if x.get("tratio") is not None and x["tratio"] != int(x["tratio"]):
                c["final-time-not-multiple-of-dt"] += 1
            scale_distribution(c, x)
            if x.get("hubdims"):
                c["large-hub-local-dim>=512"] += 1
                c["large-hub-degree=%d" % len(x["hubdims"])] += 1
                hd = x["hubdims"]
                pm = tuple(sorted(range(len(hd)), key=lambda i: hd[i]))
                inv = tuple(sorted(range(len(pm)), key=lambda i: pm[i]))
                c["large-hub-dims-vs-ttno-order=" + ("sorted" if list(hd) == sorted(hd) else "involution" if pm == inv else "non-involutive")] += 1
        return dict(c)

    def impl(self, ctx, cases):
        obs = _pool_map(_run_case, cases)
        return [SkipCase(o["skip"]) if "skip" in o else o for o in obs]

    def model(self, ctx, cases, obs):
        # ---- C05W hook: diagram-level obligations and value tie on the sampled site / link / two-site calls ----
        from props import c05w
        try:
            self._w = c05w.run(ctx, cases, obs)
        except Exception as e:  # noqa
            self._w = (1, 0, [f"C05W evaluation failed: {type(e).__name__}: {e}"])
        # ---- end of C05W hook ----
        return eval_models(ctx, cases, obs)

    def compare(self, case, ob, mo):
        tally_instance(self, mo)
        if ob.get("construct"):
            return f"implementation raised in the constructor: {ob['exception']}"
        return compare_traces(case, ob, mo) or ob.get("w_tie")      # w_tie: set by c05w.run

    def extra_obligations(self, ctx):
        n, ok, fails = self.__dict__.get("_inst", [0, 0, []])
        wn, wok, wfails = self.__dict__.get("_w", (0, 0, []))
        return n + wn, ok + wok, list(fails) + list(wfails)

    def oracle(self, case, ob):
        if "exception" in ob:
            return f"{case['kind']} raised {ob['exception']}"
        if ob["problems"]:
            return f"{case['kind']}: {ob['problems'][0]}"
        if not (ob["max_err"] <= 1e-9):
            return (f"{case['kind']}: effective Hamiltonian differs from E^dagger H E by {ob['max_err']:.3e} (relative) at "
                    f"call {ob['worst']['index']} {ob['worst']['event']}")
        for k, st in enumerate(ob["steps"]):
            d = observed_durations(case["par"], case["kind"], st)
            if d:
                return f"{case['kind']} step {k + 1}: {d}"
        return None

    def classify(self, case, what, known):
        for kid, k in known.items():
            m = k.get("match")
            if m and m in what:
                return kid
        return None

    def sample_repr(self, case):
        return case
