"""[ext-C01S] C01, pipeline model of the SGE method: tie of coq/theories/SD/PipelineSGE.v to
`StateDiagram.from_hamiltonian_modified(..., TTNOFinder.SGE)` of pytreenet/ttno/state_diagram.py.

Same run-time recorder approach as props/c01d.py (BIPARTITE): `get_state_diagram_compound`, `combine_subtrees` and
`cut_and_optimise` are wrapped for the duration of one `TTNO.from_hamiltonian` call (/repo untouched); after EVERY call
the diagram is exported through its public attributes and reduced to the canonical form (per node the ORDERED list of
(label, lambda, gamma, bond indices), per edge the number of vertices).  The model's `pipeline_sge_trace` is compared
with it step by step INSIDE Coq (`Pipeline.trace_verdicts`), exactly; the model's states must also satisfy `sd_wf`.
Where the implementation raises in a step (e.g. the IndexError of _remove_reduntant_v_hyperedges of the known findings
C01-sge-symbolic-regroup / C12-sge-symbolic-crash) or leaves a diagram that is not well-indexed, the model must return
None at that step.  The model is LITERAL: for Hamiltonians with several coefficient symbols it reproduces the code's
inexact regrouping (the tie stays green there, the oracle reports the known finding).

The model's cut step uses `SGE/Model.v`'s `gaussian_elimination` (the function props/c13.py ties to
symbolic_gaussian_elimination_fraction.py) on the Gamma matrix of `Pipeline.gamma`, the verified vertex cover of
Bip/Model.v on Gamma_u and on Gamma, the revert test of `_apply_bipartite_to_gamma_u`, the virtual u / v nodes of
`_create_combined_u_v_lists` and `_reconnect_hyperedges` on them.

Per instance (I): `pipeline_sge_checks` (before every combine the decidable form of the merge preconditions; before every
cut that reverts to the BIPARTITE path `cut_pre`; for every cut that uses the elimination result the direct comparison of
the normal forms of the denotation before and after) -- hypothesis of C01_pipeline_sge_exact_checked_partial.
"""
from __future__ import annotations

import contextlib

from lib import coq_list
from props import c01d

IMPORTS = ("From Coq Require Import List Arith Bool QArith ZArith. "
           "From PTN Require Import Tree.RTree SD.Model SD.Core SD.Pipeline SD.PipelineSGE. Import ListNotations.")


def applies(case):
    return case.get("kind") == "ham" and case.get("method") == "SGE" and not case.get("notie")


@contextlib.contextmanager
def recorder(case, ob):
    """as c01d.recorder, for method SGE; stores ob['c01s_steps'] = [[kind, parent, current, canon | None, malformed | None], ...]"""
    if not applies(case):
        yield
        return
    from pytreenet.ttno.state_diagram import StateDiagram
    from props import c01
    steps = []
    o_comb = StateDiagram.combine_subtrees
    o_cut = StateDiagram.cut_and_optimise
    o_comp = StateDiagram.__dict__["get_state_diagram_compound"]

    def snap(kind, parent, current, sdg):
        try:
            ex = c01.export_sd(sdg, case)
            if ex["malformed"]:
                steps.append([kind, parent, current, None, ex["malformed"]])
            else:
                steps.append([kind, parent, current, c01.C01._impl_canon(case, ex), None])
        except Exception as e:  # noqa  (a diagram the exporter cannot even walk)
            steps.append([kind, parent, current, None, f"export failed: {type(e).__name__}: {e}"])

    def comp(cls, sds):
        r = o_comp.__func__(cls, sds)
        if r is not None:
            snap("base", None, None, r)
        return r

    def comb(self, local_hyperedges, parent):
        cur = local_hyperedges[0].corr_node_id if local_hyperedges else None
        o_comb(self, local_hyperedges, parent)
        snap("combine", parent, cur, self)

    def cut(self, local_vs, current_node, parent):
        o_cut(self, local_vs, current_node, parent)
        snap("cut", parent, current_node, self)
    StateDiagram.combine_subtrees = comb
    StateDiagram.cut_and_optimise = cut
    StateDiagram.get_state_diagram_compound = classmethod(comp)
    try:
        yield
    finally:
        StateDiagram.combine_subtrees = o_comb
        StateDiagram.cut_and_optimise = o_cut
        StateDiagram.get_state_diagram_compound = o_comp
        ob["c01s_steps"] = steps


def observed_canons(ob, ncalls):
    out = []
    for _k, _p, _c, cn, _bad in ob.get("c01s_steps", []):
        out.append(cn)
        if cn is None:
            return out
    if "exception" in ob and len(out) < ncalls:
        out.append(None)          # the call that did not return
    return out


def run_model(ctx, cases, obs):
    """evaluates the model's trace against the recorded steps; stores ob['c01s_model'] = (padded?, verdicts, trace length,
    step checks, which cuts used the elimination result, final sd_check) for every SGE case"""
    from props import c01
    idx, exprs = [], []
    for i, (c, ob) in enumerate(zip(cases, obs)):
        if not applies(c) or not isinstance(ob, dict) or "c01s_steps" not in ob:
            continue
        cans = observed_canons(ob, len(c01d.expected_calls(c)))
        os_ = coq_list(cans, lambda cn: "(@None canon)" if cn is None else f"Some {c01d.coq_canon(cn)}")
        exprs.append(
            f"(let t := {c01.coq_tree(c)} in "
            f"match pad_ham idlab_std {c01.coq_dims(c)} t {c01.coq_uterms(c)} with "
            f"| Some H => let tr := pipeline_sge_trace t H in "
            f"(true, trace_verdicts t tr {os_}, length tr, pipeline_sge_checks t H, pipeline_sge_ge_flags t H, "
            f"match pipeline_sge t H with Some d => Some (sd_check t H d) | None => None end) "
            f"| None => (false, [], 0, [], [], None) end)")
        idx.append(i)
    vals = c01d.eval_spread(ctx, IMPORTS, exprs, shard=25, scope="nat_scope")
    for i, v in zip(idx, vals):
        obs[i]["c01s_model"] = v if not isinstance(v, BaseException) else {"error": str(v)[:800]}
    return len(idx)


def compare(case, ob):
    """None or the first difference between the model's trace and the recorded run"""
    if not applies(case) or "harness_error" in ob:
        return None
    if "c01s_steps" not in ob:
        return "[pipeline-sge] the recorder did not run"
    mo = ob.get("c01s_model")
    if mo is None:
        return "[pipeline-sge] no model value"
    if isinstance(mo, dict):
        return f"[pipeline-sge] model evaluation failed: {mo['error']}"
    padok, verdicts, tlen, _checks, _flags, _final = mo
    if not padok:
        return None          # padding mismatch is reported by the main tie
    steps = ob["c01s_steps"]
    calls = c01d.expected_calls(case)
    for k, (kind, p, c, _cn, _bad) in enumerate(steps):
        if k >= len(calls) or (kind, p, c) != calls[k] and not (kind == "combine" and c is None and calls[k][0] == "combine"):
            return f"[pipeline-sge] call {k} of the implementation is {kind}({p},{c}), the BFS driver should call {calls[k] if k < len(calls) else None}"
    if tlen != len(calls):
        return f"[pipeline-sge] model trace has {tlen} states for {len(calls)} driver calls"
    cans = observed_canons(ob, len(calls))
    if len(verdicts) != len(cans):
        return f"[pipeline-sge] {len(cans)} recorded states but {len(verdicts)} verdicts (model trace length {tlen})"
    for k, v in enumerate(verdicts):
        if v != 3:
            kind, p, c = calls[k] if k < len(calls) else ("?", None, None)
            why = {0: "the model fails (None) where the implementation returns a well-indexed diagram",
                   1: ("the diagrams differ (canonical form)" if cans[k] is not None else
                       "the model returns a diagram where the implementation raises / leaves a diagram that is not well-indexed"),
                   2: "canonical forms agree but the model's state is not sd_wf"}.get(v, f"verdict {v}")
            bad = steps[k][4] if k < len(steps) else ob.get("exception")
            return f"[pipeline-sge] after call {k} = {kind}({p},{c}): {why}" + (f" [{bad}]" if bad else "")
    complete = len(cans) == len(calls) and all(cn is not None for cn in cans)
    if complete and "exception" not in ob:
        final = steps[-1][3]
        from props import c01
        if c01.C01._impl_canon(case, ob["sd"]) != final and not ob["sd"].get("malformed"):
            return "[pipeline-sge] the returned diagram differs from the diagram after the last driver call"
    return None


def instance_obligation(case, ob, known_refuted=False):
    """(counts?, ok?, message): pipeline_sge_checks hold before every step of the model's run and the model's final diagram
    is certified (hypothesis and conclusion of C01_pipeline_sge_exact_checked_partial).  `known_refuted`: the case reproduces
    a recorded finding (inexact diagram): not an obligation."""
    mo = ob.get("c01s_model")
    if not applies(case) or mo is None or isinstance(mo, dict) or not mo[0]:
        return False, False, None
    _padok, verdicts, tlen, checks, _flags, final = mo
    if len(verdicts) != tlen or any(v != 3 for v in verdicts) or final is None:
        return False, False, None          # run incomplete (raised / not well-indexed): nothing to certify
    fin = final[1] if isinstance(final, tuple) else final
    if all(checks) and fin is True:
        return True, True, None
    if known_refuted:
        return False, False, None
    return True, False, f"SGE pipeline step checks {checks}, sd_check of the model's diagram {fin}"


def ge_cuts(ob):
    """(number of cuts of the model's run, number of them that used the elimination result) or None"""
    mo = ob.get("c01s_model") if isinstance(ob, dict) else None
    if mo is None or isinstance(mo, dict) or not mo[0]:
        return None
    return len(mo[4]), sum(1 for b in mo[4] if b)
