"""C09 — BUG / fixed-rank BUG: the step the scheme defines, conservation, canonical root, shapes.

Three independent parts:
* `ref_bug_step` / `ref_truncate`: a dense NumPy reference of one step of the rank-adaptive and of the
  fixed-rank basis-update-and-Galerkin scheme on a tree state, written from the property text (bases as
  orthonormal column sets of subtree spaces, embeddings by einsum, exponentials by eigendecomposition);
* `Tracer`: instruments the functions of `time_evo_util/common_bug.py` *in the harness process* (wrapping
  module globals / methods, nothing in /repo is edited) and records the event trace, with a provenance
  stamp for every environment block obtained by following array identities through the caches;
* the Coq model `Sched/BUG.v` evaluated on the same tree and shapes.
"""
from __future__ import annotations

import copy
import importlib
import random
import string
import traceback
from collections import Counter

import numpy as np

from lib import Prop, coq_eval, SkipCase
import util
from util import TTNS, TTNO, children_of

FINDING_PULL_SHAPE = "C09-redundant-parent-bond-raises"
FINDING_TRUNC_NONCANON = "C09-truncation-leaves-noncanonical"

IMPORTS = ("From Coq Require Import List Arith Bool. "
           "From PTN Require Import Tree.RTree Sched.BUG. Import ListNotations.")

NEG_INF = float("-inf")
INF = float("inf")


# =============================================================================================
# 1. dense reference (independent of the library's contraction / evolution code)
# =============================================================================================
def subtree_sites(parents):
    ch = children_of(parents)
    out = {}

    def rec(n):
        s = [n]
        for c in ch[n]:
            s += rec(c)
        out[n] = sorted(s)
        return s
    rec(0)
    return out


def outer_embed(factors, sites, dims):
    """factors: list of (array with axes (its sites in increasing order ..., one auxiliary index), its sites);
    the site sets are disjoint with union `sites`.  Returns the matrix (prod dims[sites], prod aux dims) of the
    tensor-product map, auxiliary indices in factor order."""
    letters = string.ascii_letters
    site_letter = {s: letters[k] for k, s in enumerate(sites)}
    subs, aux = [], []
    for k, (arr, fs) in enumerate(factors):
        a = letters[len(sites) + k]
        aux.append(a)
        subs.append("".join(site_letter[s] for s in fs) + a)
    out = "".join(site_letter[s] for s in sites) + "".join(aux)
    t = np.einsum(",".join(subs) + "->" + out, *[f[0] for f in factors])
    d = int(np.prod([dims[s] for s in sites]))
    return t.reshape(d, -1)


def expm_herm_apply(h, t, v):
    """exp(-i t h) v for Hermitian h through the eigendecomposition."""
    h = (h + h.conj().T) / 2
    w, q = np.linalg.eigh(h)
    return q @ (np.exp(-1j * t * w) * (q.conj().T @ v))


def orth_span(cols, tol=1e-10):
    u, s, _ = np.linalg.svd(cols, full_matrices=False)
    if s.size == 0 or s[0] == 0:
        return u[:, :0], s
    r = int(np.sum(s > tol * s[0]))
    return u[:, :r], s


def schmidt(psi, sites, allsites):
    rest = [s for s in allsites if s not in sites]
    m = np.transpose(psi, list(sites) + rest).reshape(int(np.prod([psi.shape[s] for s in sites])), -1)
    return np.linalg.svd(m, full_matrices=False)


def ref_bug_step(parents, dims, psi, H, dt, fixed, bonds, rank_tol=1e-7):
    """One step of the (rank-adaptive | fixed-rank) BUG scheme on the dense state `psi` (one axis per site,
    site 0 = root).  `bonds[n]`: bond dimension of node n towards its parent; the step is only defined
    uniquely when it equals the Schmidt rank (`generic`).  Returns psi1 (before any truncation), the new
    ranks, per node the spectrum of the projected Hamiltonian and the norm of the initial value."""
    N = len(parents)
    allsites = list(range(N))
    ch = children_of(parents)
    S = subtree_sites(parents)
    vec = psi.reshape(-1)
    info = {"nodes": {}, "generic": True, "rank": {}, "newrank": {}, "relsmin": 1.0}
    old_U, old_E = {}, {}
    for n in range(1, N):
        a, s, bh = schmidt(psi, S[n], allsites)
        r = int(np.sum(s > rank_tol * s[0])) if (s.size and s[0] > 0) else 0
        info["rank"][n] = r
        if bonds[n] != r:
            info["generic"] = False
            return info
        rest = [x for x in allsites if x not in S[n]]
        old_U[n] = a[:, :r].reshape([dims[x] for x in S[n]] + [r])
        # psi = sum_a s_a U_a (x) E_a with E_a = row a of bh: an orthonormal basis of the parent side
        old_E[n] = bh[:r, :].T.reshape([dims[x] for x in rest] + [r])
    new_U = {}

    def embed_full(factors):
        sites = sorted(s for _, fs in factors for s in fs)
        return outer_embed(factors, sites, dims)

    def process(n):
        for c in ch[n]:
            process(c)
        rest = [x for x in allsites if x not in S[n]]
        # projection: OLD parent-side basis, NEW child-side bases, identity on the node's own site
        P = embed_full([(old_E[n], rest)] + [(new_U[c], S[c]) for c in ch[n]] + [(np.eye(dims[n]), [n])])
        heff = P.conj().T @ H @ P
        k0 = P.conj().T @ vec
        k1 = expm_herm_apply(heff, dt, k0)
        r = old_E[n].shape[-1]
        Q = outer_embed([(new_U[c], S[c]) for c in ch[n]] + [(np.eye(dims[n]), [n])], sorted(S[n]), dims)
        W = Q @ k1.reshape(r, -1).T          # evolved basis vectors in the subtree space, one per parent index
        Uold = old_U[n].reshape(-1, r)
        if fixed:
            B, sv = orth_span(W)
            if B.shape[1] != r:
                info["generic"] = False
        else:
            B, sv = orth_span(np.concatenate([Uold, W], axis=1))
            if B.shape[1] != min(2 * r, Q.shape[1]):
                info["generic"] = False
        if B.shape[1]:
            # conditioning of the new basis: its least determined direction is known up to (rounding / this number)
            info["relsmin"] = min(info["relsmin"], float(sv[B.shape[1] - 1] / sv[0]))
        new_U[n] = B.reshape([dims[x] for x in S[n]] + [B.shape[1]])
        info["newrank"][n] = B.shape[1]
        info["nodes"][n] = {"eig": np.linalg.eigvalsh((heff + heff.conj().T) / 2), "k0norm": float(np.linalg.norm(k0))}

    for c in ch[0]:
        process(c)
    P = embed_full([(new_U[c], S[c]) for c in ch[0]] + [(np.eye(dims[0]), [0])])
    heff = P.conj().T @ H @ P
    k0 = P.conj().T @ vec
    k1 = expm_herm_apply(heff, dt, k0)
    info["nodes"][0] = {"eig": np.linalg.eigvalsh((heff + heff.conj().T) / 2), "k0norm": float(np.linalg.norm(k0))}
    info["psi1"] = (P @ k1).reshape(psi.shape)
    return info


def n_keep(s, trunc):
    """number of singular values kept, from the documentation of SVDParameters (value mode: values below
    total_tol or below rel_tol * largest are discarded; sum mode: the longest tail whose squared weight - relative to
    the squared norm of all values unless `sum_renorm` is switched off - stays below total_tol^2); at most
    max_bond_dim, at least one.  The tail is accumulated from the smallest value upwards (no cancellation).
    trunc = (max_bond_dim, rel_tol, total_tol, sum_trunc[, sum_renorm])."""
    mb, rel, tot, sum_trunc = trunc[:4]
    norming = trunc[4] if len(trunc) > 4 else True
    if sum_trunc:
        nrm = float(np.sum(s ** 2))
        k = len(s)
        if nrm > 0:
            den = nrm if norming else 1.0
            acc = 0.0
            while k > 0 and (acc + s[k - 1] ** 2) / den < tot ** 2:
                acc += s[k - 1] ** 2
                k -= 1
        else:
            k = 0
    else:
        k = int(np.sum(s > max(rel * s[0], tot)))
    if mb != INF:
        k = min(k, mb)
    return max(k, 1)


# accuracy of the singular values of a dense matrix built from the library's tensors, relative to the largest one:
# rounding of the contraction and of LAPACK is ~1e-16 .. 1e-15; a decision of the truncation rule that flips when the
# values move by this much is a tie (both outcomes are correct)
SV_NOISE = 3e-14
SV_PROP = 1e-15       # honest size of that noise, used to propagate the uncertainty of a kept subspace one level down


def keep_is_robust(s, trunc, d):
    """does the truncation rule select the same number of values when every singular value moves by at most `d`
    (absolute) and the tolerance by a relative 1e-6?"""
    k = n_keep(s, trunc)
    lo = np.maximum(s - d, 0.0)
    hi = s + d
    t_lo = tuple(trunc[:2]) + (trunc[2] * (1 + 1e-6) if trunc[2] not in (NEG_INF, INF) else trunc[2],) + tuple(trunc[3:])
    t_hi = tuple(trunc[:2]) + (trunc[2] * (1 - 1e-6) if trunc[2] not in (NEG_INF, INF) else trunc[2],) + tuple(trunc[3:])
    return n_keep(lo, t_lo) == k and n_keep(hi, t_hi) == k


def ref_truncate(parents, dims, psi, trunc, bonds=None):
    """root-to-leaves truncation of a tree state given densely: at every node all child projectors are computed
    from the node's (not yet projected) connecting tensor; below the root the connecting tensor is the orthonormal
    basis kept one level up.  Returns (state, ranks, discarded weights per bond, near_tie)."""
    N = len(parents)
    allsites = list(range(N))
    ch = children_of(parents)
    S = subtree_sites(parents)
    ranks, disc = {}, {}
    near = [False]
    cur = [psi.copy()]
    psinorm = float(np.linalg.norm(psi))

    def apply_proj(c, Pc):
        order = S[c]
        rest = [x for x in allsites if x not in order]
        m = np.transpose(cur[0], order + rest).reshape(Pc.shape[0], -1)
        m = Pc @ (Pc.conj().T @ m)
        t = m.reshape([dims[x] for x in order] + [dims[x] for x in rest])
        cur[0] = np.transpose(t, np.argsort(order + rest))

    def walk(n, phi, phi_sites, unc):
        # unc: bound on the error (spectral norm) of the orthonormal connecting tensor `phi` of this level caused by
        # the rounding noise one level up (0 at the root, where phi is the state itself)
        projs = {}
        uncs = {}
        top = float(np.linalg.norm(phi)) if n == 0 else 1.0
        for c in ch[n]:
            cap = None
            if bonds is not None:
                # the connecting tensor of n has legs (kept parent index, children bonds, site): that many values at most
                oth = dims[n] * (ranks[n] if n != 0 else 1)
                for x in ch[n]:
                    if x != c:
                        oth *= bonds[x]
                cap = min(bonds[c], oth)
            order = [phi_sites.index(x) for x in S[c]]
            oth = [k for k in range(phi.ndim) if k not in order]
            m = np.transpose(phi, order + oth).reshape(int(np.prod([dims[x] for x in S[c]])), -1)
            u, s_full, _ = np.linalg.svd(m, full_matrices=False)
            s = s_full
            if cap is not None:
                s = s[:cap]
            k = n_keep(s, trunc)
            thr = max(trunc[1] * s[0], trunc[2])
            if not trunc[3] and np.any(np.abs(s - thr) < 1e-7 * max(1e-300, s[0])):
                near[0] = True
            if k < len(s) and abs(s[k - 1] - s[k]) < 1e-7 * s[0] and s[k] > 1e-9 * s[0]:
                near[0] = True
            # the selection must not depend on the rounding noise of the singular values (a value at the noise level
            # next to the tolerance, an exactly redundant direction under a tolerance of 0, a tail sum on the
            # threshold, ...): both outcomes are then correct
            d = max(unc, SV_NOISE * top)
            if not keep_is_robust(s, trunc, d):
                near[0] = True
            gap_out = float(s[k - 1] - (s_full[k] if k < len(s_full) else 0.0))
            # the kept subspace is known up to (noise / gap to the first value outside of it); one level down the
            # connecting tensor is an orthonormal basis of that subspace in which every direction counts alike
            uncs[c] = min(1.0, 2.0 * max(unc, SV_PROP * top) / gap_out) if gap_out > 0 else 1.0
            tail0 = float(s_full[k]) if k < len(s_full) else 0.0      # first value that is not kept (cap or rule)
            if unc > 0 and tail0 > 1e-9 * top:
                # something of significant size is cut off at a level whose connecting tensor is only known up to `unc`
                # (a smaller tail is harmless: every column of the connecting tensor is reproduced up to tail0)
                if k < len(s):
                    gap_in = float(s[k - 1] - s[k])
                    if gap_in <= 0 or unc / gap_in > 1e-8:
                        near[0] = True      # the projector of this level inherits an ambiguity above the comparison tolerance
                elif tail0 <= 10.0 * unc:
                    # cut off only because the library's tensor cannot have more than `cap` values here: the surplus is the
                    # pollution of this reference's connecting tensor by an undetermined direction (a numerically zero
                    # value kept one level up; in the library that direction lies inside its augmented basis)
                    near[0] = True
            ranks[c] = k
            # below the root the values are those of an orthonormal connecting tensor: the state error is at most
            # (discarded weight) x (norm of the state)
            disc[c] = float(np.sqrt(np.sum(s[k:] ** 2))) * (1.0 if n == 0 else psinorm)
            projs[c] = u[:, :k]
        for c in ch[n]:
            apply_proj(c, projs[c])
        for c in ch[n]:
            Pc = projs[c]
            walk(c, Pc.reshape([dims[x] for x in S[c]] + [Pc.shape[1]]), S[c], uncs[c])

    walk(0, psi.reshape(list(psi.shape) + [1]), allsites, 0.0)
    return cur[0], ranks, disc, near[0]


# =============================================================================================
# 2. instrumentation of the real code
# =============================================================================================
BCS = "_basis_change_tensor"


def nnum(s):
    return int(s[1:])


def ident_of(s):
    if s.endswith(BCS):
        return ("BC", nnum(s[:-len(BCS)]))
    return ("Orig", nnum(s))


def logical_fingerprint(state):
    """content of a state without touching its lazy leg permutations."""
    out = []
    for nid in sorted(state.nodes):
        node = state.nodes[nid]
        raw = state._tensors.data[nid]
        perm = node.leg_permutation
        t = np.transpose(raw, perm) if perm is not None else raw
        out.append((nid, node.parent, tuple(node.children), t.shape, np.ascontiguousarray(t).tobytes()))
    return (tuple(out), state.orthogonality_center_id)


class Tracer:
    """records what update_node & co. do during ONE recursive_update."""

    def __init__(self, alias_monitor=True):
        self.cb = importlib.import_module("pytreenet.time_evolution.time_evo_util.common_bug")
        self.ttn_mod = importlib.import_module("pytreenet.core.ttn")
        self.sc_mod = importlib.import_module("pytreenet.contractions.sandwich_caching")
        self.tcd_mod = importlib.import_module("pytreenet.contractions.tree_cach_dict")
        self.te_mod = importlib.import_module("pytreenet.time_evolution.time_evolution")
        self.alias_monitor = alias_monitor
        self.saved = []
        self.reset()

    def reset(self):
        self.events = []
        self.prov = {}
        self.keep = []
        self.new_state = None
        self.nver = {}
        self.depth = 0
        self.stack = []
        self.in_pull = False
        self.concat_seen = False
        self.alias = []
        self.numeric = []       # per evolution: (node, spectrum of the effective Hamiltonian, norm of the evolved tensor)
        self.qr = []            # (node, old parent dim(s), new parent dim)
        self.bcs = []           # C09W hook: (node, basis-change matrix) in the order they are computed
        self.active = False
        self.after_trunc = False
        self.pull_perms = Counter()

    # -- versions -----------------------------------------------------------------------------
    def old_version(self, state, x):
        c = state.orthogonality_center_id
        if x == c:
            return "OldCentre"
        # is x a proper ancestor of c ?
        cur = c
        while cur is not None:
            par = state.nodes[cur].parent if cur in state.nodes else None
            if par == x:
                return ("OldDown", nnum(cur))
            cur = par
        return "OldUp"

    def version(self, state, x):
        if state is self.new_state:
            if x in self.nver:
                return self.nver[x]
            return "OldCentre" if x == self.root_id else "OldUp"
        return self.old_version(state, x)

    def stamp_block(self, node_id, next_id, state, cache):
        subs = []
        for x in state.nodes[node_id].neighbouring_nodes():
            if x == next_id:
                continue
            if (x, node_id) in cache:
                subs.append(self.prov.get(id(cache[(x, node_id)]), ("Unknown", x, node_id)))
            else:
                subs.append(("Missing", nnum(x), nnum(node_id)))
        return ("St", nnum(node_id), self.version(state, node_id), subs)

    def tag(self, arr, stamp):
        self.prov[id(arr)] = stamp
        self.keep.append(arr)

    # -- patching -----------------------------------------------------------------------------
    def _patch(self, obj, name, new):
        had = name in obj.__dict__ if isinstance(obj, type) else True
        self.saved.append((obj, name, obj.__dict__.get(name) if isinstance(obj, type) else getattr(obj, name), had))
        setattr(obj, name, new)

    def __enter__(self):
        T = self
        cb = self.cb
        TTN = self.ttn_mod.TreeTensorNetwork
        SC = self.sc_mod.SandwichCache
        PD = self.tcd_mod.PartialTreeCachDict

        o_update_node = cb.update_node

        def update_node(node_id, new_state, parent_state, parent_cache, *a, **k):
            if not T.active:
                return o_update_node(node_id, new_state, parent_state, parent_cache, *a, **k)
            T.new_state = new_state
            T.events.append(("Enter", nnum(node_id)))
            T.stack.append(node_id)
            fp = logical_fingerprint(parent_state) if T.alias_monitor else None
            cfp = {kk: id(v) for kk, v in parent_cache.items()} if T.alias_monitor else None
            try:
                r = o_update_node(node_id, new_state, parent_state, parent_cache, *a, **k)
            finally:
                T.stack.pop()
            if T.alias_monitor:
                if logical_fingerprint(parent_state) != fp:
                    T.alias.append(f"update_node({node_id}) modified the parent's state")
                if {kk: id(v) for kk, v in parent_cache.items()} != cfp:
                    T.alias.append(f"update_node({node_id}) modified the parent's cache")
            T.events.append(("Leave", nnum(node_id)))
            return r
        self._patch(cb, "update_node", update_node)

        o_deepcopy = cb.deepcopy

        def deepcopy_(x, *a, **k):
            r = o_deepcopy(x, *a, **k)
            if T.active and not T.stack and T.new_state is None and isinstance(x, TTN):
                T.new_state = r          # root_update: new_state = deepcopy(current_state)
                T.root_id = x.root_id
            return r
        self._patch(cb, "deepcopy", deepcopy_)

        o_move = TTN.move_orthogonalization_center

        def move(self_, new_center_id, *a, **k):
            if T.active and T.stack:
                mode = k.get("mode", a[0] if a else None)
                T.events.append(("MoveCentre", nnum(self_.orthogonality_center_id), nnum(new_center_id)))
                T.move_modes.append(str(mode))
            return o_move(self_, new_center_id, *a, **k)
        self._patch(TTN, "move_orthogonalization_center", move)

        o_utc = SC.update_tree_cache

        def utc(self_, node_id, next_id):
            if not T.active:
                return o_utc(self_, node_id, next_id)
            st = T.stamp_block(node_id, next_id, self_.state, self_)
            r = o_utc(self_, node_id, next_id)
            T.tag(self_[(node_id, next_id)], st)
            T.events.append(("RefreshBlock" if T.stack else "InitBlock", nnum(node_id), nnum(next_id), st))
            return r
        self._patch(SC, "update_tree_cache", utc)

        o_del = PD.delete_entry

        def delete_entry(self_, a, b):
            if T.active:
                T.events.append(("DropBlock", nnum(a), nnum(b)))
            return o_del(self_, a, b)
        self._patch(PD, "delete_entry", delete_entry)

        def update(self_, other=(), **k):
            if T.active and isinstance(self_, SC):
                keys = list(other.keys())
                tgt = {b for _, b in keys}
                T.events.append(("InstallBlocks", nnum(T.stack[-1] if T.stack else T.root_id), sorted(nnum(a) for a, _ in keys)))
                if len(tgt) > 1:
                    T.alias.append(f"installed blocks point to several nodes {sorted(tgt)}")
            return dict.update(self_, other, **k)
        self._patch(PD, "update", update)

        o_pull = cb.pull_tensor_from_different_ttn

        def pull(old_ttn, new_ttn, node_id, *a, **k):
            if T.active:
                v = T.version(old_ttn, node_id)
                T.events.append(("Pull", nnum(node_id), v))
                try:        # how the children of the two states are ordered relative to each other
                    mod = a[0] if a else k.get("mod_fct")
                    oc = list(old_ttn.nodes[node_id].children)
                    pm = [oc.index(mod(c) if mod else c) for c in new_ttn.nodes[node_id].children]
                    T.pull_perms["in any order (calls)"] += 1
                    if pm != list(range(len(pm))):
                        T.pull_perms["permuted"] += 1
                    if pm != [pm.index(j) for j in range(len(pm))]:
                        T.pull_perms["not an involution (3-cycle or longer)"] += 1
                except Exception:  # noqa
                    T.pull_perms["unreadable"] += 1
                T.in_pull = True
                try:
                    r = o_pull(old_ttn, new_ttn, node_id, *a, **k)
                finally:
                    T.in_pull = False
                if new_ttn is T.new_state:
                    T.nver[node_id] = v
                return r
            return o_pull(old_ttn, new_ttn, node_id, *a, **k)
        self._patch(cb, "pull_tensor_from_different_ttn", pull)

        o_cac = TTN.contract_all_children

        def cac(self_, node_id, *a, **k):
            if T.active and self_ is T.new_state:
                chs = list(self_.nodes[node_id].children)
                T.events.append(("ContractChildren", nnum(node_id), [ident_of(c) for c in chs]))
                r = o_cac(self_, node_id, *a, **k)
                T.nver[node_id] = ("WithM", T.version(self_, node_id), [ident_of(c)[1] for c in chs])
                return r
            return o_cac(self_, node_id, *a, **k)
        self._patch(TTN, "contract_all_children", cac)

        o_sste = cb.single_site_time_evolution

        def sste(node_id, state, hamiltonian, dt, cache, *a, **k):
            if T.active:
                env = []
                for x in state.nodes[node_id].neighbouring_nodes():
                    if (x, node_id) in cache:
                        env.append(T.prov.get(id(cache[(x, node_id)]), ("Unknown", x, node_id)))
                    else:
                        env.append(("Missing", nnum(x), nnum(node_id)))
                T.events.append(("Evolve", nnum(node_id), T.version(state, node_id), env))
                T.cur_evolve = node_id
                T.concat_seen = False
                T.evolve_shape = tuple(state.nodes[node_id].shape)
            r = o_sste(node_id, state, hamiltonian, dt, cache, *a, **k)
            return r
        self._patch(cb, "single_site_time_evolution", sste)

        def observer(psi, ham, dt, forward, mode):
            if T.active:
                h = np.asarray(ham)
                T.numeric.append((getattr(T, "cur_evolve", None), np.linalg.eigvalsh((h + h.conj().T) / 2),
                                  float(np.linalg.norm(psi)), float(np.linalg.norm(h - h.conj().T)), float(dt), bool(forward)))
        self.te_mod._verif_register_observer(observer)

        # new basis: leaf path uses concat + tensor_qr_decomposition from the module namespace
        o_concat = cb.concat

        def concat_(*a, **k):
            if T.active:
                T.concat_seen = True
            return o_concat(*a, **k)
        self._patch(cb, "concat", concat_)

        o_qr = cb.tensor_qr_decomposition

        def qr_(tensor, *a, **k):
            r = o_qr(tensor, *a, **k)
            if T.active and T.stack:
                n = T.stack[-1]
                T.events.append(("NewBasis", nnum(n), bool(T.concat_seen)))
                T.qr.append((nnum(n), T.evolve_shape[0], int(r[0].shape[-1])))
            return r
        self._patch(cb, "tensor_qr_decomposition", qr_)

        o_cnb = cb.compute_new_basis_tensor

        def cnb(node, old_tensor, updated_tensor):
            r = o_cnb(node, old_tensor, updated_tensor)
            if T.active:
                T.events.append(("NewBasis", nnum(node.identifier), True))
                T.qr.append((nnum(node.identifier), int(old_tensor.shape[0]), int(r.shape[0])))
            return r
        self._patch(cb, "compute_new_basis_tensor", cnb)

        o_cfnb = cb.compute_fixed_size_new_basis_tensor

        def cfnb(node, updated_tensor):
            r = o_cfnb(node, updated_tensor)
            if T.active:
                T.events.append(("NewBasis", nnum(node.identifier), False))
                T.qr.append((nnum(node.identifier), int(updated_tensor.shape[0]), int(r.shape[0])))
            return r
        self._patch(cb, "compute_fixed_size_new_basis_tensor", cfnb)

        o_td = cb.tensordot

        def tensordot_(*a, **k):
            if T.active and T.stack:
                T.events.append(("BasisChange", nnum(T.stack[-1]), []))
                r = o_td(*a, **k)
                T.bcs.append((nnum(T.stack[-1]), np.array(r)))          # C09W hook
                return r
            return o_td(*a, **k)
        self._patch(cb, "tensordot", tensordot_)

        o_cbc = cb.compute_basis_change_tensor

        def cbc(node_old, node_new, tensor_old, tensor_new, bc_cache):
            if T.active:
                T.events.append(("BasisChange", nnum(node_old.identifier), sorted(nnum(a) for a, _ in bc_cache.keys())))
                r = o_cbc(node_old, node_new, tensor_old, tensor_new, bc_cache)
                T.bcs.append((nnum(node_old.identifier), np.array(r)))   # C09W hook
                return r
            return o_cbc(node_old, node_new, tensor_old, tensor_new, bc_cache)
        self._patch(cb, "compute_basis_change_tensor", cbc)

        o_snr = TTN.split_node_replace

        def snr(self_, node_id, ta, tb, ida, idb, la, lb):
            r = o_snr(self_, node_id, ta, tb, ida, idb, la, lb)
            if T.active and self_ is T.new_state:
                if ida == node_id + BCS and idb == node_id:
                    T.events.append(("Split", nnum(node_id)))
                else:
                    T.events.append(("SplitOther", node_id, ida, idb))
                T.nver[node_id] = "NewB"
            return r
        self._patch(TTN, "split_node_replace", snr)

        o_cl = cb.contract_leaf

        def cl(state_node, state_tensor, op_node, op_tensor, *a, **k):
            r = o_cl(state_node, state_tensor, op_node, op_tensor, *a, **k)
            if T.active and T.stack:
                nid = state_node.identifier
                st = ("St", nnum(nid), T.version(T.new_state, nid), [])
                T.tag(r, st)
                T.events.append(("Block", nnum(nid), nnum(T.parent_of[nid]), st))
            return r
        self._patch(cb, "contract_leaf", cl)

        o_ca = cb.contract_any

        def ca(node_id, next_id, state, operator, dictionary):
            if T.active:
                st = T.stamp_block(node_id, next_id, state, dictionary)
            r = o_ca(node_id, next_id, state, operator, dictionary)
            if T.active:
                T.tag(r, st)
                T.events.append(("Block", nnum(node_id), nnum(T.parent_of[node_id]), st))
                if next_id != node_id + BCS:
                    T.alias.append(f"block of {node_id} points to {next_id}")
            return r
        self._patch(cb, "contract_any", ca)

        o_rt = TTN.replace_tensor

        def rt(self_, node_id, *a, **k):
            if T.active and self_ is T.new_state and not T.in_pull and not T.stack:
                T.events.append(("ReplaceRoot", nnum(node_id)))
                T.nver[node_id] = "NewCentre"
            return o_rt(self_, node_id, *a, **k)
        self._patch(TTN, "replace_tensor", rt)

        o_cf = TTN.canonical_form

        def cf(self_, node_id, *a, **k):
            if T.after_trunc:
                T.after_trunc = False
                T.events.append(("Recanonicalise", nnum(node_id)))
            return o_cf(self_, node_id, *a, **k)
        self._patch(TTN, "canonical_form", cf)
        return self

    def __exit__(self, *exc):
        for obj, name, old, had in reversed(self.saved):
            if isinstance(obj, type) and not had:
                delattr(obj, name)
            else:
                setattr(obj, name, old)
        self.saved = []
        self.te_mod._verif_register_observer(None)
        return False

    def begin(self, state):
        self.reset()
        self.move_modes = []
        self.root_id = state.root_id
        self.parent_of = {k: v.parent for k, v in state.nodes.items()}
        self.active = True

    def end(self):
        self.active = False


# =============================================================================================
# 3. trace canonicalisation (sibling order is hash order in the code)
# =============================================================================================
def canon_ver(v):
    if isinstance(v, (tuple, list)) and v and v[0] == "WithM":
        return ("WithM", canon_ver(v[1]), tuple(sorted(int(x) for x in v[2])))
    if isinstance(v, (tuple, list)):
        return tuple(v)
    return v


def canon_stamp(s):
    if s[0] == "St":
        return ("St", int(s[1]), canon_ver(s[2]), tuple(sorted((canon_stamp(x) for x in s[3]), key=repr)))
    return tuple(s)


def canon_event(e):
    if isinstance(e, str):
        return (e,)
    k = e[0]
    if k in ("InitBlock", "RefreshBlock", "Block"):
        return (k, int(e[1]), int(e[2]), canon_stamp(e[3]))
    if k == "InstallBlocks" or k == "BasisChange":
        return (k, int(e[1]), tuple(sorted(int(x) for x in e[2])))
    if k == "ContractChildren":
        return (k, int(e[1]), tuple(sorted((str(x[0]), int(x[1])) for x in e[2])))
    if k == "Pull":
        return (k, int(e[1]), canon_ver(e[2]))
    if k == "Evolve":
        return (k, int(e[1]), canon_ver(e[2]), tuple(sorted((canon_stamp(x) for x in e[3]), key=repr)))
    if k == "NewBasis":
        return (k, int(e[1]), bool(e[2]))
    return tuple(e)


def canon_trace(events):
    """sort runs of sibling blocks (Enter n ... Leave n) by n, recursively."""
    evs = [canon_event(e) for e in events]
    pos = [0]

    def parse(until):
        items = []
        while pos[0] < len(evs):
            e = evs[pos[0]]
            if e[0] == "Enter":
                pos[0] += 1
                inner = parse(e[1])
                items.append(("block", e[1], inner))
            elif e[0] == "Leave":
                pos[0] += 1
                if e[1] != until:
                    items.append(("unbalanced", e[1]))
                return items
            else:
                pos[0] += 1
                items.append(e)
        return items
    top = parse(None)

    def flat(items):
        out = []
        j = 0
        while j < len(items):
            if items[j][0] == "block":
                run = []
                while j < len(items) and items[j][0] == "block":
                    run.append(items[j])
                    j += 1
                for b in sorted(run, key=lambda b: b[1]):
                    out.append(("Enter", b[1]))
                    out.extend(flat(b[2]))
                    out.append(("Leave", b[1]))
            else:
                out.append(items[j])
                j += 1
        return out
    return flat(top)


def model_val(v):
    """parsed Coq value -> python trace value (constructor tuples / strings)"""
    if isinstance(v, tuple) and len(v) == 2 and v[0] == "@":
        return v[1]
    if isinstance(v, tuple):
        return tuple(model_val(x) for x in v)
    if isinstance(v, list):
        return [model_val(x) for x in v]
    return v


# =============================================================================================
# 4. the check
# =============================================================================================
def feasible_bonds(rng, parents, phys, cap):
    """bond dimensions that a generic tensor network on this tree realises as Schmidt ranks."""
    n = len(parents)
    ch = children_of(parents)
    r = {i: cap for i in range(1, n)}
    for _ in range(2 * n + 2):
        changed = False
        for i in range(1, n):
            below = phys[i]
            for c in ch[i]:
                below *= r[c]
            p = parents[i]
            above = phys[p]
            for s in ch[p]:
                if s != i:
                    above *= r[s]
            if p != 0:
                above *= r[p]
            lim = min(cap, below, above)
            if r[i] > lim:
                r[i] = lim
                changed = True
        if not changed:
            break
    return r


def bonds_of(state, n):
    return {i: int(state.nodes[f"n{i}"].parent_leg_dim()) for i in range(1, n)}


def shapes_of(state):
    out = {}
    for nid, nd in state.nodes.items():
        sh = tuple(int(x) for x in state.tensors[nid].shape)
        nb = nd.neighbouring_nodes()
        out[nid] = ({b: sh[k] for k, b in enumerate(nb)}, sh[len(nb):])
    return out


def structure_of(state):
    return {nid: (nd.parent, tuple(sorted(nd.children))) for nid, nd in state.nodes.items()}


def coq_dtree(state, nid):
    nd = state.nodes[nid]
    sh = state.tensors[nid].shape
    r = 1 if nd.is_root() else int(sh[0])
    d = int(np.prod(sh[nd.nneighbours():])) if len(sh) > nd.nneighbours() else 1
    return (f"(DNode {nnum(nid)} {r} {d} [" + "; ".join(coq_dtree(state, c) for c in nd.children) + "])")


def py_dtree(state, nid):
    nd = state.nodes[nid]
    sh = state.tensors[nid].shape
    r = 1 if nd.is_root() else int(sh[0])
    d = int(np.prod(sh[nd.nneighbours():])) if len(sh) > nd.nneighbours() else 1
    return (nnum(nid), r, d, sorted((py_dtree(state, c) for c in nd.children)))


def model_dtree(v):
    # ("DNode", i, r, d, [children])
    return (int(v[1]), int(v[2]), int(v[3]), sorted(model_dtree(c) for c in v[4]))


def ntree_canon(v):
    # ("NNode", ("Orig", i), [children])
    return ((str(v[1][0]), int(v[1][1])), tuple(sorted(ntree_canon(c) for c in v[2])))


def state_ntree(state, nid):
    return (ident_of(nid), tuple(sorted(state_ntree(state, c) for c in state.nodes[nid].children)))


def isometry_defect_root(state, partial_ok):
    """every non-root tensor an isometry from its parent leg (toward the root)?  partial_ok: zero-padded partial
    isometries (Gram matrix a diagonal 0/1 projector) are accepted."""
    worst = 0.0
    for nid, nd in state.nodes.items():
        if nd.is_root():
            continue
        t = np.asarray(state.tensors[nid])
        m = t.reshape(t.shape[0], -1)
        g = m @ m.conj().T
        if partial_ok:
            off = g - np.diag(np.diag(g))
            dg = np.real(np.diag(g))
            d = max(float(np.max(np.abs(off))) if off.size else 0.0, float(np.max(np.minimum(np.abs(dg), np.abs(dg - 1)))))
        else:
            d = float(np.max(np.abs(g - np.eye(g.shape[0]))))
        worst = max(worst, d)
    return worst


def eff_bond_after_recentring(state):
    """first non-leaf non-root node whose parent leg exceeds the product of its parent's other legs (walking from the
    root with REDUCED re-centring), else None — the situation in which the rank-adaptive update raises."""
    def rec(nid, pothers):
        nd = state.nodes[nid]
        sh = state.tensors[nid].shape
        r = sh[0]
        r2 = min(r, pothers)
        if nd.children and r2 != r:
            return nid
        for c in nd.children:
            oth = r2
            for k, x in enumerate(sh):
                if k != 0 and k != nd.neighbour_index(c):
                    oth *= x
            bad = rec(c, oth)
            if bad:
                return bad
        return None
    root = state.nodes[state.root_id]
    sh = state.tensors[state.root_id].shape
    for c in root.children:
        oth = 1
        for k, x in enumerate(sh):
            if k != root.neighbour_index(c):
                oth *= x
        bad = rec(c, oth)
        if bad:
            return bad
    return None


def prepare_caller_state(ttns, case):
    """what a caller may have done with the state before handing it to the integrator (all optional keys of a case):
    `grade`   {node: a}: slice k of the parent leg of the node is multiplied by 10^(-a k): Schmidt spectra graded over many
              orders of magnitude (an ill-conditioned but valid state; the bond dimensions still are the Schmidt ranks);
    `gauge`   {node: e} and `norm10` E: the tensor of the node is multiplied by 10^e and its parent's by 10^-e (the state is
              unchanged, its tensors are badly scaled), the root by 10^E (a state of tiny / huge norm);
    `prep`    [[centre, mode], ...]: the caller brought the state into canonical form at `centre` (first entry) and moved the
              centre on (further entries), each with the split mode `mode` ("keep" | "reduced")."""
    from pytreenet.util.tensor_splitting import SplitMode
    grade = case.get("grade") or {}
    gauge = case.get("gauge") or {}
    for nid in list(ttns.nodes):
        i = nnum(nid)
        fac = None
        t = ttns.tensors[nid]
        nd = ttns.nodes[nid]
        a = grade.get(str(i), grade.get(i))
        if a and not nd.is_root():
            g = 10.0 ** (-float(a) * np.arange(t.shape[0]))
            t = t * g.reshape([-1] + [1] * (t.ndim - 1))
            fac = True
        e = 0.0
        if not nd.is_root():
            e += float(gauge.get(str(i), gauge.get(i, 0.0)) or 0.0)
        for c in nd.children:
            e -= float(gauge.get(str(nnum(c)), gauge.get(nnum(c), 0.0)) or 0.0)
        if nd.is_root():
            e += float(case.get("norm10") or 0.0)
        if e:
            t = t * 10.0 ** e
            fac = True
        if fac:
            ttns.tensors[nid] = t
    modes = {"keep": SplitMode.KEEP, "reduced": SplitMode.REDUCED}
    for j, (centre, mode) in enumerate(case.get("prep") or []):
        if j == 0:
            ttns.canonical_form(f"n{centre}", mode=modes[mode])
        else:
            ttns.move_orthogonalization_center(f"n{centre}", mode=modes[mode])


def trunc_settings(trunc, fixed):
    """case notation of the truncation settings -> (SVDParameters | None, keyword arguments of BUGConfig, the tuple the
    reference selection rule `n_keep` reads)."""
    svd = None
    bug_kwargs = {}
    if trunc and not fixed:
        from pytreenet.util.tensor_splitting import SVDParameters
        mb = INF if trunc[0] == "inf" else trunc[0]
        rel = NEG_INF if trunc[1] == "-inf" else trunc[1]
        tot = NEG_INF if trunc[2] == "-inf" else trunc[2]
        sum_renorm = bool(trunc[4]) if len(trunc) > 4 else True
        trunc_t = (mb, rel, tot, bool(trunc[3]), sum_renorm)
        svd = SVDParameters(max_bond_dim=mb, rel_tol=rel, total_tol=tot)
        bug_kwargs["sum_trunc"] = bool(trunc[3])
        if len(trunc) > 4:
            bug_kwargs["sum_renorm"] = sum_renorm
    else:
        trunc_t = (INF, NEG_INF, NEG_INF, False, True)
    return svd, bug_kwargs, trunc_t


def reconfigure(ev, ops, cur, case, ttns, ids, dims, fixed):
    """The caller reconfigures the evolution object between two steps through its PUBLIC attributes / setters; `cur` (the
    harness's own record: step size, final time, dense Hamiltonian, truncation settings) is updated alongside from the
    documentation of the operation, never read back from the object.  Operations:
      ["steps_const", k]   set_num_time_steps_constant_final_time(k): step size := final time / k; k <= 0 is rejected
                           (raises) and must leave the step size as it was
      ["steps", k]         set_num_time_steps(k): final time := k * step size, the step size stays
      ["ham_inplace", i, f]   the caller scales the tensor of node i of the TTNO it handed in IN PLACE (a quench): H := f H
      ["ham_replace", i, f]   the same through TTNO.replace_tensor on the TTNO the caller handed in
      ["ham_assign", seed]    ev.hamiltonian := a TTNO of another random Hermitian Hamiltonian
      ["ham_assign_copy", f]  ev.hamiltonian := a deep copy of the current TTNO with the root tensor scaled by f
      ["config", trunc, flip] ev.config := a new configuration object (rank-adaptive: truncation settings `trunc`;
                           `flip`: the other copy strategy)
      ["config_field", name, value]  a field of ev.config is assigned in place (max_bond_dim / deep)
    Returns a log of what happened (rejected calls)."""
    log = []
    for op in ops:
        kind = op[0]
        if kind == "steps_const":
            k = op[1]
            try:
                ev.set_num_time_steps_constant_final_time(k)
                raised = None
            except Exception as e:  # noqa   (a rejected call: the object has to stay usable, step size unchanged)
                raised = type(e).__name__
            if k > 0:
                if raised:
                    raise RuntimeError(f"set_num_time_steps_constant_final_time({k}) raised {raised}")
                cur["dt"] = cur["T"] / k
            log.append((kind, k, raised))
        elif kind == "steps":
            ev.set_num_time_steps(op[1])
            cur["T"] = op[1] * cur["dt"]
        elif kind in ("ham_inplace", "ham_replace"):
            nid = f"n{op[1]}"
            f = float(op[2])
            tt = cur["ttno"]
            if kind == "ham_inplace":
                t = tt.tensors[nid]
                t *= f
            else:
                tt.replace_tensor(nid, f * tt.tensors[nid])
            cur["H"] = f * cur["H"]
            cur["changed"] = True
        elif kind == "ham_assign":
            r2 = random.Random(op[1])
            ham2 = util.rand_ham(r2, ids, dims, case["nterms"], hermitian=True, max_support=case.get("support", 2),
                                 coeffs=case.get("coeffs", False))
            if not ham2.terms:
                log.append((kind, "empty"))
                continue
            cur["H"] = util.dense_ham(ham2, ids, dims)
            cur["ttno"] = TTNO.from_hamiltonian(copy.deepcopy(ham2), ttns)
            ev.hamiltonian = cur["ttno"]
            cur["changed"] = True
        elif kind == "ham_assign_copy":
            f = float(op[1])
            tt = copy.deepcopy(cur["ttno"])
            tt.replace_tensor("n0", f * tt.tensors["n0"])
            cur["ttno"] = tt
            ev.hamiltonian = tt
            cur["H"] = f * cur["H"]
            cur["changed"] = True
        elif kind == "config":
            from pytreenet.time_evolution.time_evolution import TimeEvoMode
            if op[2]:
                cur["deep"] = not cur["deep"]
            if fixed:
                from pytreenet.time_evolution.fixed_bug import FixedBUGConfig
                ev.config = FixedBUGConfig(time_evo_mode=TimeEvoMode.EXPM, deep=cur["deep"])
            else:
                from pytreenet.time_evolution.bug import BUGConfig
                from pytreenet.util.tensor_splitting import SVDParameters
                svd, kw, tt = trunc_settings(op[1], False)
                svd = svd or SVDParameters(max_bond_dim=INF, rel_tol=NEG_INF, total_tol=NEG_INF)
                ev.config = BUGConfig(max_bond_dim=svd.max_bond_dim, rel_tol=svd.rel_tol, total_tol=svd.total_tol,
                                      time_evo_mode=TimeEvoMode.EXPM, deep=cur["deep"], **kw)
                cur["trunc_t"] = tt
        elif kind == "config_field":
            name, val = op[1], op[2]
            if name == "max_bond_dim":
                if fixed:
                    continue
                setattr(ev.config, name, val)
                cur["trunc_t"] = (val,) + tuple(cur["trunc_t"][1:])
            elif name == "deep":
                ev.config.deep = bool(val)
                cur["deep"] = bool(val)
        else:
            raise ValueError(f"unknown reconfiguration {op}")
    cur["Hnorm"] = float(np.linalg.norm(cur["H"], 2))
    return log


def _run_case(case):
    """executed in a worker process: builds the inputs, runs the real classes, returns the observation."""
    rng = random.Random(case["seed"])
    par = case["parents"]
    n = len(par)
    phys = case["phys"]
    bond = case["bond"]
    if isinstance(bond, dict):
        bond = {int(k): v for k, v in bond.items()}
    ttns = util.build_ttns(rng, par, phys=phys, bond=bond)
    if case.get("padzero"):
        # zero-pad: embed a bond-1 product-like state into the larger bonds (redundant bonds that are exactly zero)
        for nid in list(ttns.nodes):
            t = ttns.tensors[nid]
            nv = ttns.nodes[nid].nneighbours()
            sl = tuple([slice(1, None)] * nv + [slice(None)] * (t.ndim - nv))
            if nv:
                t2 = t.copy()
                mask = np.ones(t.shape, dtype=bool)
                mask[tuple([slice(0, 1)] * nv + [slice(None)] * (t.ndim - nv))] = False
                t2[mask] = 0
                ttns.tensors[nid] = t2
    prepare_caller_state(ttns, case)
    ids = [f"n{i}" for i in range(n)]
    dims = util.phys_dims(ttns)
    dlist = [dims[i] for i in ids]
    ham = util.rand_ham(rng, ids, dims, case["nterms"], hermitian=True, max_support=case.get("support", 2), coeffs=case.get("coeffs", False))
    if not ham.terms:
        return SkipCase("empty Hamiltonian")
    H = util.dense_ham(ham, ids, dims)
    ttno = TTNO.from_hamiltonian(copy.deepcopy(ham), ttns)
    fixed = case["method"] == "fbug"
    trunc = case.get("trunc")
    svd, bug_kwargs, trunc_t = trunc_settings(trunc, fixed)
    reconf = case.get("reconf") or None
    dt = case["dt"]
    nsteps = case["nsteps"]
    Hnorm = float(np.linalg.norm(H, 2))
    caller_fp = logical_fingerprint(ttns)
    ob = {"runs": {}, "Hnorm": Hnorm, "n": n}
    # what the caller hands over (read off a copy: reading tensors applies the lazy leg permutations)
    given = copy.deepcopy(ttns)
    ob["given"] = {"psi": util.dense_ttn(given, ids), "shapes": shapes_of(given), "struct": structure_of(given),
                   "centre": given.orthogonality_center_id}
    bugmod = importlib.import_module("pytreenet.time_evolution.bug")
    for deep in (False, True):
        run = {"steps": [], "exception": None}
        ob["runs"][deep] = run
        # history "the driver object is reconfigured between steps": every run gets its own TTNO object (the caller
        # modifies it in place later on); `cur` is the harness's own record of what the object was told
        ttno_run = copy.deepcopy(ttno) if reconf else ttno
        cur = {"dt": dt, "T": dt * nsteps, "H": H, "Hnorm": Hnorm, "trunc_t": trunc_t, "ttno": ttno_run, "deep": deep,
               "changed": False}
        try:
            ev = util.make_evolution(case["method"], ttns, ham, ttno_run, dt, dt * nsteps, [], svd=svd,
                                     bug_kwargs=dict(bug_kwargs, deep=deep))
        except Exception as e:  # noqa
            run["exception"] = f"constructor: {type(e).__name__}: {e}"
            continue
        run["state_is_caller"] = ev.state is ttns
        for step in range(nsteps):
            st = {}
            run["steps"].append(st)
            state0 = ev.state
            st["psi0"] = util.dense_ttn(state0, ids)
            st["bonds0"] = bonds_of(state0, n)
            st["shapes0"] = shapes_of(state0)
            st["struct0"] = structure_of(state0)
            st["defect0"] = isometry_defect_root(state0, False)
            st["defect0p"] = isometry_defect_root(state0, True)
            st["centre0"] = state0.orthogonality_center_id
            st["rtree"] = util.ttn_to_rtree(state0, {f"n{i}": i for i in range(n)})[0]
            st["dtree_coq"] = coq_dtree(state0, state0.root_id)
            st["pull_risk"] = eff_bond_after_recentring(state0)
            if reconf:
                ops = reconf.get(str(step), reconf.get(step)) or []
                try:
                    st["reconf_log"] = reconfigure(ev, ops, cur, case, ttns, ids, dims, fixed)
                except Exception as e:  # noqa
                    st["exception"] = f"reconfiguration {ops}: {type(e).__name__}: {e}"
                    st["tb"] = [f.name for f in traceback.extract_tb(e.__traceback__)[-5:]]
                    st["events"] = []
                    run["exception"] = st["exception"]
                    break
                st["dt"] = cur["dt"]
                st["dt_reported"] = float(ev.time_step_size)
                st["trunc_t"] = cur["trunc_t"]
                if cur["changed"]:
                    st["H"] = cur["H"]
                    st["Hnorm"] = cur["Hnorm"]
            tracer = Tracer()
            aug = {}
            o_trunc = bugmod.recursive_truncation
            # ---- C09W hook: raw structure of the state before the step (store-level tie, props/c09w.py) ----
            from props import c09w
            st["w0"] = c09w.snap(state0)
            # ---- end of C09W hook ----

            def rec_trunc(tree, params, _o=o_trunc, _aug=aug, _tr=tracer):
                _tr.end()
                _tr.events.append(("Truncate",))
                _aug["w1"] = c09w.snap(tree)          # C09W hook: raw structure after the un-truncated update
                _aug["psi"] = util.dense_ttn(tree, ids)
                _aug["bonds"] = bonds_of(tree, n)
                _aug["dtree"] = py_dtree(tree, tree.root_id)
                _aug["defect"] = isometry_defect_root(tree, False)
                _aug["ntree"] = state_ntree(tree, tree.root_id)
                r = _o(tree, params)
                _aug["bonds_t"] = bonds_of(tree, n)
                _aug["defect_t"] = isometry_defect_root(tree, False)
                _tr.after_trunc = True
                return r
            try:
                with tracer:
                    bugmod.recursive_truncation = rec_trunc
                    try:
                        tracer.begin(state0)
                        ev.run_one_time_step()
                    finally:
                        tracer.end()
                        bugmod.recursive_truncation = o_trunc
            except Exception as e:  # noqa
                st["exception"] = f"{type(e).__name__}: {e}"
                st["tb"] = [f.name for f in traceback.extract_tb(e.__traceback__)[-5:]]
                st["events"] = tracer.events
                run["exception"] = st["exception"]
                break
            state1 = ev.state
            if fixed:
                aug["w1"] = c09w.snap(state1)         # C09W hook: raw structure after the update
                aug["psi"] = util.dense_ttn(state1, ids)
                aug["bonds"] = bonds_of(state1, n)
                aug["dtree"] = py_dtree(state1, state1.root_id)
                aug["defect"] = isometry_defect_root(state1, False)
                aug["ntree"] = state_ntree(state1, state1.root_id)
            st["aug"] = aug
            st["events"] = tracer.events
            st["numeric"] = tracer.numeric
            st["qr"] = tracer.qr
            st["bcs"] = tracer.bcs        # C09W hook
            st["alias"] = tracer.alias
            st["move_modes"] = sorted(set(tracer.move_modes))
            st["pull_perms"] = dict(tracer.pull_perms)
            st["psi1"] = util.dense_ttn(state1, ids)
            st["bonds1"] = bonds_of(state1, n)
            st["shapes1"] = shapes_of(state1)
            st["struct1"] = structure_of(state1)
            st["centre1"] = state1.orthogonality_center_id
            st["root1"] = state1.root_id
            st["defect1"] = isometry_defect_root(state1, False)
            st["defect1p"] = isometry_defect_root(state1, True)
            st["same_object"] = state1 is state0
            # independent reference
            ref = ref_bug_step(par, dlist, st["psi0"], cur["H"], cur["dt"], fixed, st["bonds0"])
            st["ref"] = ref
            if not fixed:
                rt = ref_truncate(par, dlist, aug["psi"], cur["trunc_t"], aug["bonds"])
                st["ref_trunc_of_lib_aug"] = rt
                if ref.get("generic") and "psi1" in ref:
                    st["ref_trunc"] = ref_truncate(par, dlist, ref["psi1"], cur["trunc_t"], ref["newrank"])
        if case.get("reset") and not run["exception"] and not reconf:
            # history: reset_to_initial_state, then the first step again (no instrumentation)
            rs = {}
            run["reset"] = rs
            try:
                ev.reset_to_initial_state()
                sr = ev.state
                rs["psi0"] = util.dense_ttn(sr, ids)
                rs["shapes0"] = shapes_of(sr)
                rs["struct0"] = structure_of(sr)
                rs["centre0"] = sr.orthogonality_center_id
                rs["defect0"] = isometry_defect_root(sr, False)
                rs["defect0p"] = isometry_defect_root(sr, True)
                rs["is_initial_object"] = sr is ev.initial_state
                ev.run_one_time_step()
                s1 = ev.state
                rs["psi1"] = util.dense_ttn(s1, ids)
                rs["shapes1"] = shapes_of(s1)
                rs["struct1"] = structure_of(s1)
                rs["centre1"] = s1.orthogonality_center_id
                rs["defect1"] = isometry_defect_root(s1, False)
                rs["defect1p"] = isometry_defect_root(s1, True)
            except Exception as e:  # noqa
                rs["exception"] = f"{type(e).__name__}: {e}"
        run["caller_unchanged"] = logical_fingerprint(ttns) == caller_fp
    ob["H"] = H
    ob["trunc_t"] = trunc_t
    ob["dims"] = dlist
    return ob


def _run_case_safe(case):
    try:
        return _run_case(case)
    except Exception as e:  # noqa
        return {"harness_exception": f"{type(e).__name__}: {e}", "tb": traceback.format_exc()[-2500:]}


class C09(Prop):
    id = "C09"
    title = "BUG integrators"
    design_ref = "DESIGN.md section 5 / C09"
    rule = ("trees: all ordered trees with 1-4 nodes plus random trees up to 6 (quick) / 7 (thorough) nodes, shuffled legs, physical "
            "dimensions 1-3; bond dimensions either realisable as Schmidt ranks (step-equality clause) or arbitrary 1-4 incl. zero-padded "
            "(redundant) bonds; random Hermitian Hamiltonians (TTNO built by the library, dense matrix by Kronecker products); both "
            "integrators, both copy strategies on every case, 1-3 consecutive steps, truncation off / max_bond_dim / rel_tol / total_tol / "
            "sum mode; saturated two-node cases. GIVEN STATES THAT ALREADY HAVE AN ORTHOGONALITY CENTRE: the caller brought the state "
            "into canonical form at a random node (root or below) with the bond-keeping or the reduced split and possibly moved the "
            "centre on, all flavours (generic / redundant / zero-padded bonds), both integrators; the oracle compares with the state the "
            "caller handed over (state vector at the start, identifiers / relations, for fixed rank ALL tensor shapes after every step). "
            "HISTORIES: on half of these cases (and a seventh of the many-scales cases) reset_to_initial_state followed by one more step (same clauses, same result as the "
            "first step where the scheme defines it uniquely). MANY SCALES: low-rank initial states on trees with 2-5 nodes and physical "
            "dimensions up to 6 whose bonds grow over 2-4 consecutive steps with dt = 10^-[2,4.5] (the k-th new direction carries a weight "
            "~dt^k), Schmidt spectra graded by 10^-[1,6] per bond index with dt = 10^-[3,8], plain cases with dt = 10^-[1,6]; on a third of "
            "them badly scaled tensors (10^+-3 moved across every edge, the state unchanged) and a norm of 10^[-6,6]; truncation by the "
            "summed rule relative or absolute (sum_renorm off), the value rule relative or absolute, tolerances 1e-15 (default) .. 1e-6, "
            "optionally a small max_bond_dim; the reference accumulates the discarded weight from the smallest value upwards and every "
            "tolerance of the oracle is relative to the norm of the state / of the Hamiltonian; a selection that flips when the singular "
            "values move by 3e-14 (relative) is a tie and skipped, and the inherited uncertainty of a kept subspace is followed down the "
            "tree. RECONFIGURED DRIVER OBJECT (histories): on trees with 2-6 nodes and generic bonds (so the step-equality clause applies), both "
            "integrators, 1-3 steps, the evolution object is changed between steps (also before the first) through its public attributes / "
            "setters: step size by set_num_time_steps_constant_final_time (also after set_num_time_steps moved the final time; calls with "
            "k <= 0 are rejected / fail and must leave the step size as it was, the sequence goes on), Hamiltonian by scaling a tensor of the "
            "TTNO the caller handed in IN PLACE (quench; factors incl. negative ones), by TTNO.replace_tensor, by assigning ev.hamiltonian "
            "another random Hermitian Hamiltonian's TTNO or a modified deep copy, configuration by assigning ev.config a new object (other "
            "truncation settings / other copy strategy) or a field of it (max_bond_dim, deep); every run of a case gets its own deep copy of "
            "the TTNO; the harness keeps its own record of step size / dense Hamiltonian / truncation settings from the documented meaning "
            "of each operation and every step is judged (all clauses: step equality with the dense scheme, spectra, every local propagation's "
            "duration, conservation with respect to the CURRENT Hamiltonian, truncation by the CURRENT settings) against that record. "
            "non-trivial = at least 2 nodes; distinct by case content")
    clauses = [
        ("F", "order: every node is evolved exactly once, in post-order (children fully before their parent, root last) (C09_bug_order*)"),
        ("F", "environment provenance: at the evolution of a non-root node the parent-side block consists of OLD tensors of the state re-centred "
              "at the node (path tensors pointing down to it), every child-side block of NEW bases only; the root is evolved with all-new blocks; "
              "no cache read misses (C09_bug_env_provenance*, C09_no_missing)"),
        ("F", "temporaries: exactly the basis-change nodes of the children are absorbed at every node; the resulting structure is the original tree "
              "(C09_bug_temporaries_gone*)"),
        ("F", "rank arithmetic: fixed rank keeps every shape; rank-adaptive: every bond at most doubled before truncation; with the bond-keeping "
              "re-centring of update_node neither variant raises a shape mismatch, whereas a REDUCED re-centring raises exactly when some non-leaf "
              "node's parent leg exceeds the parent-side dimension (the repaired finding) (C09_shape_*); QR leg tuples partition the legs; "
              "concatenation along the parent leg adds the parent dimensions only"),
        ("F", "after truncation every bond <= max_bond_dim: the selection rule of C10 (C09_trunc_bond_le, cites Trunc/Select.v)"),
        ("F", "store level (Evo/BUGStore.v: root_update / update_node / update_leaf_node / update_non_leaf_node, pull_tensor_from_different_ttn, "
              "relative_leg_permutation, contract_all_children, split_node_replace, new-basis QR as programs over the frozen store model): for "
              "every well-formed store, every tree, both variants, whenever the model accepts the step, the returned state has exactly the original "
              "identifiers, parent pointers and children sets, every temporary basis-change node is gone, root unchanged, recorded centre = root "
              "(C09_store_structure), and every non-root tensor is exactly one Q atom of a QR kernel call whose new bond is its parent leg, i.e. the "
              "executable isometry check of C03 accepts the result (C09_store_canonical_root); induction over the tree (C09_store_update_node); "
              "local shape rule of the new basis (new bond = qr_new_leg of the product of the other legs and r resp. r_old + r; fixed rank keeps "
              "the shape: C09_store_new_basis_shape, C09_store_qr_rule_agrees)"),
        ("F", "store level, ACCEPTANCE (Evo/BUGStoreTotal.v): for every tree with unique identifiers, every store with wfb = true whose parent / "
              "children structure is the tree (tree_of: children recorded in the store, in any order), root = recorded centre = the tree's root, no "
              "'<n>_basis_change_tensor' identifier and not the uuid of move_orthogonalization_center among the nodes, and exactly one open leg on "
              "every leaf below the root (update_leaf_node's QR legs (1,), (0,), `.T`, tensordot([1],[1]); any number of open legs elsewhere), the "
              "model ACCEPTS the step, both variants, no rank condition - the KEEP re-centring of the repaired code makes every shape comparison "
              "succeed (C09_store_step_accepts; induction over the tree: C09_store_update_node_accepts). Hence unconditionally: the step completes, "
              "keeps identifiers / parents / children sets, every temporary is gone, centre = root, iso_check holds, tables only grew "
              "(C09_store_step_total; through the executable hypothesis checker bug_hypb: C09_store_step_checker, C09_store_step_total_checked; "
              "the leaf condition is needed: C09_example_leaf_two_open_legs_rejected)"),
        ("F", "store level, the RETURNED store is well-formed (Evo/BUGStoreWf.v): under the same hypotheses the store returned by the step "
              "satisfies the executable store invariant wfb of C02 (equal key sets of the node and tensor dictionaries, unique parentless node = "
              "root, leg permutations are permutations, recorded shape = dimensions of the tensor's wires, symmetric parent / children links, "
              "both ends of every edge carry the same wire, owned wires pairwise distinct, wires and dimension table registered, acyclic) - every "
              "tree, both variants (C09_store_step_wfb, Prop form C09_store_step_wf; with acceptance and the effect theorems: "
              "C09_store_step_total_wf, through bug_hypb: C09_store_step_total_wf_checked, so the step can be iterated). new_state is NOT "
              "well-formed mid-step (between the pull of a node and its split_node_replace the parent holds the old bond wire), so C02's "
              "preservation theorems do not apply; the proof redoes the induction with an exact description of every finished node (logical "
              "axes = [new parent wire; the children's new parent wires in node order; the node's open wires of the caller's state], new parent "
              "wires pairwise distinct and allocated during the call: C09_store_update_node_finished) and uses that the KEEP re-centring keeps "
              "the open wires of every node (C09_store_move_center_keeps_open_wires)"),
        ("F", "store level, the EXTENDED invariant is preserved (Evo/BUGStoreWf.v): if the caller's store satisfies wfsb of C02 (wfb; every wire of "
              "every atom of a tensor is an axis of that tensor or summed inside it; summed wires private and registered; every atom occurs "
              "once in the whole network, was allocated and has an atom-table entry; atom-table keys allocated) so does the returned store, every "
              "tree, both variants (C09_store_step_wfsb, with acceptance and the effect theorems C09_store_step_total_wfs / _checked; non-vacuity "
              "and two consecutive steps: C09_example_wfsb), hence the value-level theorems about wfsb stores apply to the result. Ingredients: the "
              "atom table only grows by appending fresh keys through every primitive and the whole recursion incl. the re-centring, without "
              "hypotheses (C09_store_update_node_atab_grows); every returned tensor is ONE atom - the Q factor of its QR kernel call resp. the "
              "time-evolved root tensor - allocated during the processing of its own subtree, whose table entry lists axes of the tensor"),
        ("F", "basis-change matrix as a diagram (compute_basis_change_tensor = the block recursion of contract_any_nodes between the old bases "
              "and the conjugated new bases, children's matrices = recursive calls): under the hypothesis checker bc_okb, legs = [old parent wire; "
              "conjugated new parent wire], atoms = old and conjugated new atoms of the subtree each once, every inner edge wire of both states "
              "bound, glued pairs = (old open wire, conjugated new open wire) per node of the subtree (C09_store_bc_diagram, cites C04's "
              "block_two_subtree_closed)"),
        ("I", "per explored step (both copy strategies): the literal store printed from the caller's state satisfies wfb and the executable checker bug_hypb of "
              "the hypotheses of the acceptance theorem (so that the model accepts is an instance of the theorem), the store model accepts the "
              "step, its observation of the result (node dict order, parents, children order, leg permutations, recorded shapes, tensor dict order, raw "
              "shapes, root, centre) equals the implementation's exactly, iso_check and wfb hold for the model's final store (wfb: a kernel-computed "
              "cross-check of the universal theorem C09_store_step_wfb, no longer an obligation the theorems depend on), shape_root of "
              "Sched/BUG.v predicts exactly the shapes of the store model's result (shapes_agree), bc_okb holds for every non-root node "
              "(harness/props/c09w.py)"),
        ("V", "every basis-change matrix the implementation computed on a subsample of the steps equals (1e-9) the einsum value of its model "
              "diagram evaluated on the caller's tensors (old bases) and the conjugated returned tensors (new bases)"),
        ("O", "fixed-rank Galerkin step never increases the norm: unitary after a contraction M = U_old^H U_new (Section with matrix-algebra laws as hypotheses)"),
        ("V", "step equality with the scheme, spectra of every projected Hamiltonian, conservation up to the discarded weight, saturated two-node "
              "exactness, canonical root, bond limit, both copy strategies equal, caller's/parent's state untouched: dense reference + runtime monitors; "
              "also for every step taken after the evolution object was reconfigured through public attributes / setters (step size, Hamiltonian "
              "object or its tensors, configuration object or its fields): the step is the scheme's step for the values the object holds at that "
              "time, and the object reports the step size it was set to"),
        ("V", "relative to the state the CALLER handed over (with or without an orthogonality centre, centre anywhere, either split mode): the "
              "integrator starts from the same state vector, keeps identifiers / relations and - fixed rank - every tensor shape of the given "
              "state after every step and after reset_to_initial_state + step; the kept bond dimensions of the rank-adaptive variant equal "
              "those of the documented selection rule (summed relative / summed absolute / value rule, max_bond_dim) evaluated on the exact "
              "singular values of the augmented state, also for singular values spread over 14 orders of magnitude (ties at rounding level "
              "excluded); in pull_tensor_from_different_ttn the children of the two states never were in a different order in any explored "
              "step (counter in the distribution)"),
    ]
    trusted_base = ["LAPACK QR/SVD/eigh and expm_multiply/expm are not modelled (validated numerically against the dense reference)",
                    "instrumentation: wrappers around the functions of time_evo_util/common_bug.py, SandwichCache/PartialTreeCachDict and "
                    "TreeTensorNetwork methods installed in the harness process; provenance of cached blocks followed by array identity",
                    "the version of a tensor in a state of old bases is derived from that state's orthogonality_center_id (C03's subject)",
                    "store-level acceptance and well-formedness of the result (C09_store_step_accepts / _total / _wfb / _total_wf) are statements about the Gallina model Evo/BUGStore.v over the frozen "
                    "store model; that the model's verdict (accept / reject, and the exception-free run of the code) agrees with common_bug.py is "
                    "the per-step correspondence of harness/props/c09w.py, not a theorem"]
    assumptions = ["one open leg per node (what TTNO.from_hamiltonian supports)", "time-independent Hermitian Hamiltonian, time_evo_mode EXPM"]

    # ------------------------------------------------------------------------------------------
    def generate(self, ctx, stream, budget_scale=1):
        rng = ctx.rng(stream)
        cases = []
        small = [p for k in (1, 2, 3, 4) for p in util.all_parents(k)]
        nrand = ctx.scale(110, 2000) * budget_scale
        maxn = ctx.scale(7, 8)
        trees = [(p, "all") for p in small] * ctx.scale(1, 4)
        for _ in range(nrand):
            k = rng.choice([3, 4, 5, 5, 6, 6, maxn])
            trees.append((util.random_parents(rng, k), "random"))
        truncs = [None, None, [2, "-inf", "-inf", False], [3, "-inf", "-inf", False], [100, 1e-2, 1e-3, False], [100, 0.05, 0.0, False],
                  ["inf", "-inf", 0.5, False], [1, "-inf", "-inf", False], [100, 0.0, 0.05, True], [4, 1e-3, 1e-3, False],
                  # sum mode with tiny tolerances: the maximum bond dimension is what binds
                  [2, "-inf", 1e-12, True], [1, 0.0, 1e-9, True], [3, "-inf", 1e-12, True]]
        j = 0
        for par, src in trees:
            n = len(par)
            for method in ("bug", "fbug"):
                j += 1
                flavour = ["generic", "generic", "redundant", "generic", "padzero", "generic", "redundant"][(j // 2 + j) % 7]
                maxphys = 3 if n <= 5 else 2
                phys = [rng.choice([2, 3] if maxphys == 3 else [2]) for _ in range(n)]
                if flavour != "generic" and rng.random() < 0.3:
                    phys[rng.randrange(n)] = 1
                if flavour == "generic":
                    bond = feasible_bonds(rng, par, phys, rng.choice([2, 2, 3]))
                    bond = {i: max(1, b if rng.random() < 0.8 else rng.randint(1, b)) for i, b in bond.items()}
                    bond = feasible_bonds_fix(par, phys, bond)
                else:
                    bond = {i: rng.choice([1, 2, 3, 4] if n <= 5 else [1, 2, 3]) for i in range(1, n)}
                c = {"kind": "step", "parents": par, "phys": phys, "bond": {str(k): v for k, v in bond.items()}, "seed": rng.randrange(10 ** 9),
                     "method": method, "dt": rng.choice([0.02, 0.05, 0.1, 0.25]), "nsteps": rng.choice([1, 1, 2, 3]) if n <= 5 else rng.choice([1, 2]),
                     "nterms": max(2, 2 * n), "support": rng.choice([2, 2, 3]), "coeffs": rng.random() < 0.3, "flavour": flavour,
                     "padzero": flavour == "padzero", "trunc": rng.choice(truncs) if method == "bug" else None, "src": src}
                cases.append(c)
        # saturated two-node cases
        for _ in range(ctx.scale(12, 80) * budget_scale):
            d0, d1 = rng.choice([(2, 2), (3, 2), (3, 3), (4, 2), (2, 1), (4, 3)])
            for method in ("bug", "fbug"):
                cases.append({"kind": "two", "parents": [None, 0], "phys": [d0, d1], "bond": {"1": d1}, "seed": rng.randrange(10 ** 9),
                              "method": method, "dt": rng.choice([0.05, 0.3, 1.0]), "nsteps": rng.choice([1, 2]), "nterms": 4, "support": 2,
                              "coeffs": False, "flavour": "saturated", "padzero": False, "trunc": None, "src": "two"})
        # ---- the caller's state already HAS an orthogonality centre: any node, established with either split mode
        # (bond-keeping or reduced), possibly moved on afterwards; history: reset_to_initial_state and step again
        for _ in range(ctx.scale(36, 500) * budget_scale):
            k = rng.choice([2, 3, 4, 4, 5, 5, 6])
            par = util.random_parents(rng, k)
            n = len(par)
            method = rng.choice(["fbug", "fbug", "bug"])
            flavour = rng.choice(["redundant", "redundant", "generic", "padzero"])
            phys = [rng.choice([2, 3] if n <= 5 else [2]) for _ in range(n)]
            if flavour != "generic" and rng.random() < 0.2:
                phys[rng.randrange(n)] = 1
            if flavour == "generic":
                bond = feasible_bonds_fix(par, phys, feasible_bonds(rng, par, phys, rng.choice([2, 2, 3])))
            else:
                bond = {i: rng.choice([1, 2, 3, 4] if n <= 5 else [1, 2, 3]) for i in range(1, n)}
            prep = [[rng.randrange(n), rng.choice(["keep", "keep", "reduced"])]]
            if rng.random() < 0.3:
                prep.append([rng.randrange(n), rng.choice(["keep", "reduced"])])
            cases.append({"kind": "step", "parents": par, "phys": phys, "bond": {str(k): v for k, v in bond.items()},
                          "seed": rng.randrange(10 ** 9), "method": method, "dt": rng.choice([0.02, 0.05, 0.1, 0.25]),
                          "nsteps": rng.choice([1, 1, 2]), "nterms": max(2, 2 * n), "support": rng.choice([2, 2, 3]),
                          "coeffs": rng.random() < 0.3, "flavour": flavour, "padzero": flavour == "padzero",
                          "trunc": rng.choice(truncs) if method == "bug" else None, "src": "precentred", "prep": prep,
                          "reset": rng.random() < 0.5})
        # ---- many scales at once: Schmidt spectra graded over many orders of magnitude, step sizes from 1e-1 down to
        # 1e-6, low-rank initial states whose bonds grow over several consecutive steps (the k-th new direction carries a
        # weight ~ dt^k), badly scaled tensors / states of tiny or huge norm; tolerances from the default 1e-15 up to
        # 1e-6 in the summed (relative and absolute) and in the value rule
        for _ in range(ctx.scale(44, 700) * budget_scale):
            sub = rng.choice(["growth", "growth", "graded", "graded", "plain"])
            k = rng.choice([2, 2, 3, 3, 4, 4, 5])
            par = util.random_parents(rng, k)
            n = len(par)
            method = rng.choice(["bug", "bug", "bug", "bug", "fbug"])
            phys = [rng.choice([3, 4, 5, 6] if n <= 2 else [2, 3, 4] if n <= 3 else [2, 3] if n <= 4 else [2, 2, 3]) for _ in range(n)]
            cap = {"growth": rng.choice([1, 1, 2]), "graded": rng.choice([2, 3, 4]), "plain": rng.choice([1, 2, 3])}[sub]
            bond = feasible_bonds_fix(par, phys, feasible_bonds(rng, par, phys, cap))
            dt10 = {"growth": rng.uniform(2.0, 4.5), "graded": rng.uniform(3.0, 8.0), "plain": rng.uniform(1.0, 6.0)}[sub]
            c = {"kind": "step", "parents": par, "phys": phys, "bond": {str(k): v for k, v in bond.items()},
                 "seed": rng.randrange(10 ** 9), "method": method, "dt": float(10.0 ** -dt10),
                 "nsteps": {"growth": rng.choice([2, 3, 4] if n <= 4 else [2, 3]), "graded": rng.choice([1, 1, 2]),
                            "plain": rng.choice([1, 2, 3])}[sub], "nterms": max(2, 2 * n),
                 "support": rng.choice([2, 2, 3]), "coeffs": rng.random() < 0.3, "flavour": "multiscale", "padzero": False,
                 "trunc": None, "src": "multiscale", "sub": sub}
            if sub == "graded":
                c["grade"] = {str(i): round(rng.uniform(1.0, 6.0), 1) for i in range(1, n)}
            if rng.random() < 0.35:
                c["gauge"] = {str(i): round(rng.uniform(-3, 3), 2) for i in range(1, n)}
                c["norm10"] = round(rng.uniform(-6, 6), 2)
            if method == "bug":
                tol = rng.choice([1e-15, 1e-14, 1e-13, 1e-12, 1e-12, 1e-11, 1e-10, 1e-8, 1e-6])
                c["trunc"] = rng.choice([[100, 0.0, tol, True], [100, 0.0, tol, True], [100, "-inf", tol, True], [100, "-inf", tol, True, False],
                                         [100, tol, 0.0, False], [100, "-inf", tol, False], [rng.choice([2, 3, 4]), 0.0, tol, True]])
            if rng.random() < 0.15:
                c["prep"] = [[rng.randrange(n), rng.choice(["keep", "reduced"])]]
            c["reset"] = rng.random() < 0.15
            cases.append(c)
        # ---- the driver OBJECT is reconfigured between steps through its public attributes / setters: the step size by
        # set_num_time_steps_constant_final_time (also after set_num_time_steps changed the final time; rejected calls with
        # k <= 0 leave it as it was), the Hamiltonian by an in-place change of the TTNO the caller handed in (a quench), by
        # TTNO.replace_tensor, by re-assigning ev.hamiltonian (another Hamiltonian / a modified deep copy), the
        # configuration by re-assigning ev.config or one of its fields.  Every step has to be the scheme's step for what
        # the object holds AT THAT TIME.  Generic bonds, so that the step-equality clause applies.
        ntr = [None, None, None, [2, "-inf", "-inf", False], [3, "-inf", "-inf", False], [100, 1e-2, 1e-3, False],
               [100, 0.0, 0.05, True], [4, 1e-3, 1e-3, False], [3, "-inf", 1e-12, True]]
        for _ in range(ctx.scale(30, 400) * budget_scale):
            k = rng.choice([2, 3, 3, 4, 4, 5, 6])
            par = util.random_parents(rng, k)
            n = len(par)
            method = rng.choice(["bug", "fbug"])
            phys = [rng.choice([2, 3] if n <= 5 else [2]) for _ in range(n)]
            bond = feasible_bonds_fix(par, phys, feasible_bonds(rng, par, phys, rng.choice([2, 2, 3])))
            nsteps = rng.choice([1, 2, 2, 3]) if n <= 5 else rng.choice([1, 2])

            def one_op():
                what = rng.choice(["dt", "dt", "dt", "ham", "ham", "ham", "config", "reject"])
                if what == "dt":
                    ops = []
                    if rng.random() < 0.3:
                        ops.append(["steps", rng.choice([1, 2, 3, 5, 8])])
                    ops.append(["steps_const", rng.choice([1, 2, 3, 4, 5, 7, 10, 20])])
                    return ops
                if what == "reject":
                    return [["steps_const", rng.choice([-1, -3, 0])]]
                if what == "ham":
                    f = rng.choice([0.5, 2.0, -1.0, 0.25, 3.0, -0.5, 1.5])
                    sub = rng.choice(["ham_inplace", "ham_inplace", "ham_replace", "ham_assign", "ham_assign_copy"])
                    if sub in ("ham_inplace", "ham_replace"):
                        return [[sub, rng.randrange(n), f]]
                    if sub == "ham_assign":
                        return [[sub, rng.randrange(10 ** 9)]]
                    return [[sub, f]]
                if rng.random() < 0.5:
                    return [["config", rng.choice(ntr), rng.random() < 0.5]]
                return [rng.choice([["config_field", "max_bond_dim", rng.choice([1, 2, 3])], ["config_field", "deep", rng.random() < 0.5]])]
            reconf = {}
            for s_ in range(nsteps):
                if rng.random() < 0.65:
                    reconf[str(s_)] = one_op() + (one_op() if rng.random() < 0.3 else [])
            if not reconf:
                reconf[str(rng.randrange(nsteps))] = one_op()
            cases.append({"kind": "step", "parents": par, "phys": phys, "bond": {str(k): v for k, v in bond.items()},
                          "seed": rng.randrange(10 ** 9), "method": method, "dt": rng.choice([0.02, 0.05, 0.1, 0.25]),
                          "nsteps": nsteps, "nterms": max(2, 2 * n), "support": rng.choice([2, 2, 3]),
                          "coeffs": rng.random() < 0.3, "flavour": "generic", "padzero": False,
                          "trunc": rng.choice(ntr) if method == "bug" else None, "src": "reconfigured", "reconf": reconf})
        return cases

    def nontrivial(self, case):
        return len(case["parents"]) >= 2

    def distribution(self, cases):
        c = Counter()
        for x in cases:
            c[f"nodes={len(x['parents'])}"] += 1
            c[f"{x['method']}:{x['flavour']}"] += 1
            c["trunc=" + ("none" if not x.get("trunc") else "on")] += 1
            if x.get("trunc") and x["trunc"][3]:
                c["trunc: summed rule" + (" (absolute)" if len(x["trunc"]) > 4 and not x["trunc"][4] else "")] += 1
            c[f"steps={x['nsteps']}"] += 1
            if x.get("prep"):
                root_only = all(p[0] == 0 for p in x["prep"])
                c["given state: centre " + ("at the root" if root_only else "below the root") + " (" + "+".join(p[1] for p in x["prep"]) + ")"] += 1
            if x.get("reset"):
                c["history: reset_to_initial_state + step"] += 1
            if x.get("reconf"):
                c["history: driver object reconfigured between steps"] += 1
                for ops in x["reconf"].values():
                    for op in ops:
                        c["reconfiguration: " + ("steps_const (rejected, k<=0)" if (op[0] == "steps_const" and op[1] <= 0) else op[0])] += 1
            if x.get("grade"):
                c["given state: graded Schmidt spectra"] += 1
            if x.get("gauge") or x.get("norm10"):
                c["given state: badly scaled tensors / norm"] += 1
            if x.get("src") == "multiscale":
                c["multiscale: " + x.get("sub", "plain")] += 1
                c["dt: 1e-%d..1e-%d" % (int(np.floor(-np.log10(x["dt"]))) + 1, int(np.floor(-np.log10(x["dt"]))))] += 1
        c.update(getattr(self, "_stats", {}))
        try:
            from props import c09w
            c.update(c09w.stats)          # C09W hook: number of basis-change matrices compared with their diagram
        except Exception:  # noqa
            pass
        return dict(c)

    # ------------------------------------------------------------------------------------------
    def impl(self, ctx, cases):
        self._stats = Counter()
        if len(cases) <= 2:
            return [_run_case_safe(c) for c in cases]
        import multiprocessing as mp
        try:
            with mp.get_context("fork").Pool(14) as pool:
                return pool.map(_run_case_safe, cases, chunksize=1)
        except Exception:  # noqa
            traceback.print_exc()
            return [_run_case_safe(c) for c in cases]

    # ------------------------------------------------------------------------------------------
    def model(self, ctx, cases, obs):
        # ---- C09W hook: store-level structure tie and instance obligations (Evo/BUGStore.v) ----
        from props import c09w
        try:
            self._w = c09w.run(ctx, cases, obs)
        except Exception as e:  # noqa
            self._w = (1, 0, [f"C09W evaluation failed: {type(e).__name__}: {e}"])
        # ---- end of C09W hook ----
        exprs, where = [], []
        for i, (c, ob) in enumerate(zip(cases, obs)):
            if isinstance(ob, SkipCase) or "harness_exception" in ob:
                continue
            fixed = "true" if c["method"] == "fbug" else "false"
            run = ob["runs"][False]
            for s, st in enumerate(run["steps"]):
                t = util.coq_rtree(st["rtree"])
                exprs.append(f"(bug_trace {fixed} {t}, bug_struct {fixed} {t}, shape_root {fixed} {st['dtree_coq']})")
                where.append((i, s))
        uniq = sorted(set(exprs))
        uvals = dict(zip(uniq, coq_eval(ctx, IMPORTS, uniq, shard=max(8, min(60, len(uniq) // 14 + 1)), scope="nat_scope", timeout=600)))
        vals = [uvals[e] for e in exprs]
        out = [None] * len(cases)
        for (i, s), v in zip(where, vals):
            if out[i] is None:
                out[i] = {}
            out[i][s] = v
        return out

    def extra_obligations(self, ctx):
        return self.__dict__.get("_w", (0, 0, []))           # C09W hook: wfb / iso_check per explored instance

    def compare(self, case, ob, mo):
        if "harness_exception" in ob:
            return f"harness exception: {ob['harness_exception']}"
        if ob.get("w_tie"):                                   # C09W hook: set by c09w.run
            return ob["w_tie"]
        fixed = case["method"] == "fbug"
        for deep in (False, True):
            run = ob["runs"][deep]
            for s, st in enumerate(run["steps"]):
                m = mo.get(s)
                if m is None:
                    return f"no model value for step {s}"
                if isinstance(m, BaseException):
                    return f"model error: {m}"
                mtrace, mstruct, mshape = model_val(m)
                mev = canon_trace(mtrace)
                if "exception" in st:
                    # the shape model must predict exactly this failure; the trace must be a prefix up to sibling order
                    if not (mshape is None or mshape == "None"):
                        return f"deep={deep} step {s}: implementation raised {st['exception']} but the shape model predicts success"
                    if "NotCompatibleException" not in st["exception"]:
                        return f"deep={deep} step {s}: implementation raised {st['exception']}; the model only knows the shape mismatch of the pull"
                    continue
                if mshape is None or mshape == "None":
                    return f"deep={deep} step {s}: the shape model predicts the shape-mismatch failure but the implementation completed"
                oev = canon_trace(st["events"])
                if oev != mev:
                    k = next((j for j, (a, b) in enumerate(zip(oev, mev)) if a != b), min(len(oev), len(mev)))
                    return (f"deep={deep} step {s}: event {k} differs: implementation {oev[k] if k < len(oev) else '<end>'} "
                            f"model {mev[k] if k < len(mev) else '<end>'}")
                msh = model_dtree(mshape[1] if (isinstance(mshape, tuple) and mshape[0] == "Some") else mshape)
                if st["aug"]["dtree"] != msh:
                    return f"deep={deep} step {s}: shapes after the update {st['aug']['dtree']} model {msh}"
                if st["aug"]["ntree"] != ntree_canon(mstruct):
                    return f"deep={deep} step {s}: structure after the update {st['aug']['ntree']} model {ntree_canon(mstruct)}"
                if state_struct_tuple(st["struct1"], st["root1"]) != ntree_canon(mstruct):
                    return f"deep={deep} step {s}: final structure differs from the model's"
                want = {"SplitMode.KEEP"}      # update_node re-centres with the bond-keeping split in both variants
                if st["move_modes"] and set(st["move_modes"]) != want:
                    return f"deep={deep} step {s}: re-centring mode {st['move_modes']}"
        return None

    # ------------------------------------------------------------------------------------------
    def oracle(self, case, ob):
        if "harness_exception" in ob:
            return f"harness exception: {ob['harness_exception']} {ob.get('tb', '')[-600:]}"
        fixed = case["method"] == "fbug"
        H = ob["H"]
        Hn = max(ob["Hnorm"], 1e-300)
        n = ob["n"]
        trunc = ob["trunc_t"]
        par = case["parents"]
        depth2 = any(par[i] not in (None, 0) for i in range(n))
        given = ob.get("given")
        gscale = max(float(np.linalg.norm(given["psi"])), 1e-300) if given is not None else 1.0
        for deep in (False, True):
            run = ob["runs"][deep]
            tag = f"{case['method']} deep={deep}"
            if run["exception"] and not run["steps"]:
                return f"{tag}: {run['exception']}"
            if run.get("state_is_caller"):
                return f"{tag}: evolves the caller's object in place"
            for s, st in enumerate(run["steps"]):
                w = f"{tag} step {s}"
                # what the object was told by the time of this step (histories with a reconfigured driver object; otherwise
                # the values of the construction)
                H = st["H"] if st.get("H") is not None else ob["H"]
                Hn = max(st.get("Hnorm", ob["Hnorm"]), 1e-300)
                trunc = st.get("trunc_t", ob["trunc_t"])
                dt_s = st.get("dt", case["dt"])
                if case.get("reconf"):
                    w += f" [after the reconfigurations {[case['reconf'].get(str(j)) for j in range(s + 1)]}]"
                if "exception" in st:
                    risk = st["pull_risk"]
                    extra = f" [pull-shape: non-leaf {risk} has a parent leg above the parent-side dimension]" if (risk and "NotCompatibleException" in st["exception"] and not fixed) else ""
                    if st["defect0"] > 1e-8:
                        extra += " [after-noncanonical-truncation]"
                    return f"{w}: raised {st['exception']} at {st.get('tb')}{extra}"
                psi0, psi1, aug = st["psi0"], st["psi1"], st["aug"]
                n0 = float(np.linalg.norm(psi0))
                scale = max(n0, 1e-300)
                for kk, vv in (st.get("pull_perms") or {}).items():
                    self._stats["pull_tensor_from_different_ttn: children " + kk] += vv
                # --- the state the integrator was given
                if given is not None:
                    if s == 0:
                        d = float(np.linalg.norm(psi0 - given["psi"]))
                        if d > 1e-9 * gscale:
                            return f"{w}: the integrator starts from a state vector that differs from the one it was given by {d:.3e} (relative {d / gscale:.2e})"
                    if st["struct1"] != given["struct"]:
                        return f"{w}: identifiers / parent-child relations differ from the given state's: {st['struct1']} was {given['struct']}"
                    if fixed and st["shapes1"] != given["shapes"]:
                        bad = {k: (given["shapes"].get(k), v) for k, v in st["shapes1"].items() if given["shapes"].get(k) != v}
                        return f"{w}: fixed rank did not keep the tensor shapes of the given state (centre {given['centre']}): (given, now) = {bad}"
                after_nc = " [after-noncanonical-truncation]" if st["defect0"] > 1e-8 else ""
                redundant = case["flavour"] in ("redundant", "padzero")
                # --- monitors
                if st["alias"]:
                    return f"{w}: {st['alias'][0]}"
                if st["same_object"]:
                    return f"{w}: the state object of the previous step is reused"
                # --- structure
                if st["struct1"] != st["struct0"]:
                    return f"{w}: identifiers / parent-child relations changed: {st['struct1']} was {st['struct0']}"
                if st["centre1"] != st["root1"] or st["root1"] != "n0":
                    return f"{w}: orthogonality centre {st['centre1']} root {st['root1']}"
                if not fixed and trunc[0] != INF and any(b > trunc[0] for b in st["bonds1"].values()):
                    return f"{w}: bond above max_bond_dim {trunc[0]}: {st['bonds1']}"
                if fixed and st["shapes1"] != st["shapes0"]:
                    return f"{w}: fixed rank changed shapes {st['shapes1']} was {st['shapes0']}"
                if not fixed:
                    for i, b in aug["bonds"].items():
                        if b > 2 * st["bonds0"][i]:
                            return f"{w}: bond of n{i} grew from {st['bonds0'][i]} to {b} > 2x before truncation"
                    for (nd, old, new) in st["qr"]:
                        if new > 2 * old:
                            return f"{w}: new basis of n{nd} has dimension {new} > 2*{old}"
                # --- canonical form
                dfx = st["defect1p"] if (fixed and (redundant or st["defect0"] > 1e-8)) else st["defect1"]
                if dfx > 1e-8:
                    cause = ""
                    if not fixed and aug["defect"] <= 1e-8 and aug.get("defect_t", 0.0) > 1e-8:
                        cause = " [truncation-noncanonical: canonical before the truncation, not after]"
                    return f"{w}: returned state is not canonical at the root (isometry defect {dfx:.2e}){cause}{after_nc}"
                # --- numbers of evolutions and Hermiticity of what is exponentiated
                if len(st["numeric"]) != n:
                    return f"{w}: {len(st['numeric'])} evolutions for {n} nodes"
                for (nd, eig, nrm, herm, dtt, fw) in st["numeric"]:
                    if herm > 1e-8 * Hn * max(1, len(eig)) and st["defect0"] <= 1e-8:
                        return f"{w}: effective Hamiltonian at {nd} is not Hermitian ({herm:.2e})"
                    if (dtt != dt_s and (not case.get("reconf") or abs(dtt - dt_s) > 1e-12 * abs(dt_s))) or not fw:
                        return f"{w}: node {nd} evolved for {dtt} forward={fw}, the step size of the object is {dt_s}"
                if "dt_reported" in st and abs(st["dt_reported"] - dt_s) > 1e-12 * abs(dt_s):
                    return f"{w}: the object reports the step size {st['dt_reported']}, it was set to {dt_s}"
                if case.get("reconf"):
                    self._stats["history: step after a reconfiguration of the driver object"] += 1
                # --- conservation
                na = float(np.linalg.norm(aug["psi"]))
                e0 = float(np.real(np.vdot(psi0.reshape(-1), H @ psi0.reshape(-1))))
                ea = float(np.real(np.vdot(aug["psi"].reshape(-1), H @ aug["psi"].reshape(-1))))
                if not fixed:
                    if abs(na - n0) > 1e-8 * scale:
                        return f"{w}: norm {n0!r} -> {na!r} in the augmented step (no truncation yet){after_nc}"
                    if abs(ea - e0) > 1e-8 * Hn * scale ** 2:
                        return f"{w}: energy {e0!r} -> {ea!r} in the augmented step (no truncation yet){after_nc}"
                    psi_t, rk, disc, near = st["ref_trunc_of_lib_aug"]
                    bound = sum(disc.values())
                    err = float(np.linalg.norm(psi1 - aug["psi"]))
                    if err > bound + 1e-8 * scale:
                        return f"{w}: truncation changed the state by {err:.3e} > discarded weight {bound:.3e}"
                    n1 = float(np.linalg.norm(psi1))
                    e1 = float(np.real(np.vdot(psi1.reshape(-1), H @ psi1.reshape(-1))))
                    if abs(n1 - n0) > bound + 1e-8 * scale:
                        return f"{w}: norm changed by {abs(n1 - n0):.3e} > truncation tolerance {bound:.3e}"
                    if abs(e1 - e0) > Hn * (2 * scale * bound + bound ** 2) + 1e-8 * Hn * scale ** 2:
                        return f"{w}: energy changed by {abs(e1 - e0):.3e} beyond the truncation tolerance"
                    if trunc[:4] != (INF, NEG_INF, NEG_INF, False):
                        self._stats["truncation: " + ("skipped (tie at rounding level)" if near else "compared with the reference"
                                                      if (st["defect0"] <= 1e-8 and not redundant) else "bounds only")] += 1
                    if not near and st["defect0"] <= 1e-8:
                        if aug.get("bonds_t") != rk and not redundant:
                            return f"{w}: bond dimensions after truncation {aug.get('bonds_t')} reference {rk}"
                        if st["bonds1"] != reduced_bonds(par, ob["dims"], rk) and not redundant:
                            return f"{w}: bond dimensions after re-canonicalisation {st['bonds1']} expected {reduced_bonds(par, ob['dims'], rk)}"
                        if float(np.linalg.norm(psi_t - psi1)) > 1e-8 * scale and not redundant:
                            return f"{w}: truncated state differs from the reference truncation of the same augmented state by {float(np.linalg.norm(psi_t - psi1)):.3e}"
                else:
                    n1 = float(np.linalg.norm(psi1))
                    if n1 > n0 * (1 + 1e-9) and st["defect0p"] <= 1e-8:
                        return f"{w}: fixed-rank step increased the norm {n0!r} -> {n1!r}"
                # --- step equality with the scheme
                ref = st["ref"]
                if ref.get("generic") and "psi1" in ref and st["defect0"] <= 1e-8:
                    self._stats["step-equality checked"] += 1
                    d = float(np.linalg.norm(aug["psi"] - ref["psi1"]))
                    if d > 1e-8 * scale:
                        return f"{w}: state after the update differs from the BUG scheme's by {d:.3e} (relative {d / scale:.2e})"
                    for (nd, eig, nrm, herm, dtt, fw) in st["numeric"]:
                        rn = ref["nodes"][nnum(nd)]
                        # every direction of a new basis counts alike in the projected Hamiltonian, also one that is the
                        # normalised difference of nearly equal vectors (tiny dt x tiny Schmidt value): it is determined up
                        # to rounding / (relative size of that difference) only
                        if len(eig) != len(rn["eig"]) or float(np.max(np.abs(np.sort(eig) - np.sort(rn["eig"])))) > (1e-8 + 1e-14 / ref.get("relsmin", 1.0)) * Hn:
                            return f"{w}: spectrum of the projected Hamiltonian at {nd} differs from old-parent/new-children projection"
                        if abs(nrm - rn["k0norm"]) > 1e-8 * scale:
                            return f"{w}: norm of the tensor evolved at {nd} is {nrm!r}, scheme {rn['k0norm']!r}"
                    if not fixed and "ref_trunc" in st:
                        pt, rk, disc, near = st["ref_trunc"]
                        if not near:
                            d = float(np.linalg.norm(pt - psi1))
                            if d > 1e-8 * scale:
                                return f"{w}: state after truncation differs from the scheme's by {d:.3e}"
                elif case["flavour"] == "generic":
                    self._stats["step-equality skipped (non-generic)"] += 1
                # --- saturated two-node case: exact
                if case["kind"] == "two" and s == 0:
                    exact = expm_herm_apply(H, dt_s, psi0.reshape(-1)).reshape(psi0.shape)
                    d = float(np.linalg.norm(exact - psi1))
                    if d > 1e-8 * scale:
                        return f"{w}: saturated two-node step is not exact (deviation {d:.3e})"
            rs = run.get("reset")
            if rs is not None and run["steps"] and "psi1" in run["steps"][0]:
                w = f"{tag} after reset_to_initial_state"
                self._stats["history: reset + step"] += 1
                first = run["steps"][0]
                if "exception" in rs:
                    return f"{w}: raised {rs['exception']}"
                if rs["is_initial_object"]:
                    return f"{w}: the stored initial state itself is evolved"
                d = float(np.linalg.norm(rs["psi0"] - given["psi"]))
                if d > 1e-9 * gscale:
                    return f"{w}: the state differs from the given one by {d:.3e}"
                if rs["centre0"] != "n0" or rs["centre1"] != "n0":
                    return f"{w}: orthogonality centre {rs['centre0']} / after the step {rs['centre1']}"
                if rs["struct0"] != given["struct"] or rs["struct1"] != given["struct"]:
                    return f"{w}: identifiers / parent-child relations differ from the given state's"
                if fixed and (rs["shapes0"] != given["shapes"] or rs["shapes1"] != given["shapes"]):
                    return (f"{w}: fixed rank did not keep the tensor shapes of the given state (centre {given['centre']}): "
                            f"{rs['shapes0']} / after the step {rs['shapes1']}, given {given['shapes']}")
                dfx = rs["defect1p"] if (fixed and (case["flavour"] in ("redundant", "padzero") or rs["defect0"] > 1e-8)) else rs["defect1"]
                if dfx > 1e-8:
                    return f"{w}: the state returned by the step is not canonical at the root (isometry defect {dfx:.2e})"
                ref0 = first["ref"]
                if ref0.get("generic") and "psi1" in ref0 and first["defect0"] <= 1e-8:
                    # the scheme defines the result of a step on the given state uniquely: the same as the first time
                    near0 = (not fixed) and ((first.get("ref_trunc") or (0, 0, 0, True))[3] or first["ref_trunc_of_lib_aug"][3])
                    if not near0:
                        d = float(np.linalg.norm(rs["psi1"] - first["psi1"]))
                        if d > 1e-8 * gscale:
                            return f"{w}: the step gives a state that differs by {d:.3e} from the first step of the first run"
                        if rs["shapes1"] != first["shapes1"]:
                            return f"{w}: the step gives shapes {rs['shapes1']}, the first step of the first run gave {first['shapes1']}"
            if not run.get("caller_unchanged", True):
                return f"{tag}: the caller's state was modified"
        # both copy strategies
        a, b = ob["runs"][False], ob["runs"][True]
        if bool(a["exception"]) != bool(b["exception"]):
            return f"copy strategies differ: deep=False {a['exception']} deep=True {b['exception']}"
        for s, (x, y) in enumerate(zip(a["steps"], b["steps"])):
            if "psi1" in x and "psi1" in y:
                if x["shapes1"] != y["shapes1"]:
                    return f"step {s}: copy strategies give different shapes"
                if float(np.linalg.norm(x["psi1"] - y["psi1"])) > 1e-9 * max(float(np.linalg.norm(x["psi0"])), 1e-300):
                    return f"step {s}: copy strategies give different states"
        return None

    def classify(self, case, what, known):
        if FINDING_PULL_SHAPE in known and "[pull-shape" in what and "NotCompatibleException" in what:
            return FINDING_PULL_SHAPE
        if what.startswith("tie:"):
            return None
        if FINDING_TRUNC_NONCANON in known and ("[truncation-noncanonical" in what or "[after-noncanonical-truncation]" in what):
            return FINDING_TRUNC_NONCANON
        return None

    def sample_repr(self, case):
        return case


def reduced_bonds(parents, dims, ranks):
    """bond dimensions after a leaves-to-root sweep of reduced QR decompositions."""
    ch = children_of(parents)
    out = {}

    def rec(i):
        below = dims[i]
        for c in ch[i]:
            below *= rec(c)
        if i == 0:
            return 1
        out[i] = min(ranks[i], below)
        return out[i]
    rec(0)
    return out


def feasible_bonds_fix(parents, phys, bond):
    """lower the bonds until each is realisable (<= both sides)."""
    n = len(parents)
    ch = children_of(parents)
    r = dict(bond)
    for _ in range(2 * n + 2):
        changed = False
        for i in range(1, n):
            below = phys[i]
            for c in ch[i]:
                below *= r[c]
            p = parents[i]
            above = phys[p]
            for s in ch[p]:
                if s != i:
                    above *= r[s]
            if p != 0:
                above *= r[p]
            lim = min(below, above)
            if r[i] > lim:
                r[i] = lim
                changed = True
        if not changed:
            break
    return r


def state_struct_tuple(struct, root):
    def rec(nid):
        return (ident_of(nid), tuple(sorted(rec(c) for c in struct[nid][1])))
    return rec(root)
