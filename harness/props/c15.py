"""C15 — generated Lindbladians are the GKSL generator on the doubled (ket (x) bra) space."""
from __future__ import annotations

import traceback
from fractions import Fraction

import numpy as np

from lib import Prop, coq_eval, coq_q, coq_list, coq_bool, coq_string, unsome
import util  # noqa: F401  (sets up the import of the live /repo tree)
from util import Hamiltonian, TensorProduct

KNOWN_SIGN = "C15-anticommutator-sign"
IMPORTS = ("From Coq Require Import String List QArith. From PTN Require Import Lindblad.Sym. "
           "Import ListNotations. Open Scope string_scope.")
KINDS = ["generic", "herm", "real", "symc", "realsym", "id", "diag", "unitary"]


# --------------------------------------------------------------------------------------
# matrices <-> JSON
# --------------------------------------------------------------------------------------
def enc(a):
    a = np.asarray(a, dtype=complex)
    return [[[float(x.real), float(x.imag)] for x in row] for row in a]


def dec(m):
    a = np.array([[complex(x[0], x[1]) for x in row] for row in m], dtype=complex)
    if np.all(a.imag == 0):
        # a real input matrix is given to the library as a float array
        return np.array(a.real)
    return a


def rand_matrix(nprs, d, kind):
    # small dyadic entries: every product / sum in the reference is exact in floating point
    def r():
        return nprs.randint(-4, 5, size=(d, d)) / 2.0
    if kind == "generic":
        a = r() + 1j * r()
        if d > 1 and np.allclose(a, a.T):
            a[0, 1] += 1
    elif kind == "herm":
        a = r() + 1j * r()
        a = a + a.conj().T
    elif kind == "real":
        a = r()
        if d > 1 and np.allclose(a, a.T):
            a[0, 1] += 1
    elif kind == "symc":
        a = r() + 1j * r()
        a = a + a.T
        if np.all(a.imag == 0):
            a = a + 1j * np.eye(d)
    elif kind == "realsym":
        a = r()
        a = a + a.T
    elif kind == "id":
        a = np.eye(d)
    elif kind == "diag":
        a = np.diag(nprs.randint(-3, 4, size=d).astype(float))
    elif kind == "unitary":      # a permutation-phase matrix: L^dagger L = 1 but L is no identity
        a = np.roll(np.eye(d), 1, axis=0).astype(complex)
        a[0] = a[0] * 1j
    else:
        raise ValueError(kind)
    return a


# --------------------------------------------------------------------------------------
# Coq literals
# --------------------------------------------------------------------------------------
def coq_tp(tp):
    return coq_list(tp, lambda kv: f"({coq_string(kv[0])}, {coq_string(kv[1])})")


def coq_mexp(e):
    if e[0] == "B":
        return f"(MBase {e[1]} {coq_string(e[2])})"
    if e[0] == "Mul":
        return f"(MMul {coq_mexp(e[1])} {coq_mexp(e[2])})"
    return f"({e[0]} {coq_mexp(e[1])})"


def unat(v):
    """the output parser leaves nullary constructors in argument position as ("@", name)"""
    if isinstance(v, tuple):
        if len(v) == 2 and v[0] == "@":
            return v[1]
        return tuple(unat(x) for x in v)
    if isinstance(v, list):
        return [unat(x) for x in v]
    return v


def parse_mexp(v):
    """parsed Coq value -> nested tuple in the harness form"""
    if v[0] == "MBase":
        return ("B", v[1], v[2])
    if v[0] == "MMul":
        return ("Mul", parse_mexp(v[1]), parse_mexp(v[2]))
    return (v[0], parse_mexp(v[1]))


def eval_mexp(e, hconv, jdict):
    if e[0] == "B":
        return (hconv if e[1] == "SHam" else jdict)[e[2]]
    if e[0] == "MT":
        return eval_mexp(e[1], hconv, jdict).T
    if e[0] == "MConj":
        return eval_mexp(e[1], hconv, jdict).conj()
    if e[0] == "MH":
        return eval_mexp(e[1], hconv, jdict).conj().T
    if e[0] == "Mul":
        return eval_mexp(e[1], hconv, jdict) @ eval_mexp(e[2], hconv, jdict)
    raise ValueError(e)


def eval_cexp(v, hco, jco):
    if v == "COne":
        return 1
    if v[0] == "CBase":
        return (hco if v[1] == "SHam" else jco)[v[2]]
    if v[0] == "CI":
        return 1j * eval_cexp(v[1], hco, jco)
    raise ValueError(v)


def cplx(x):
    return complex(x[0], x[1])


def close(a, b, scale=1.0):
    a = np.asarray(a)
    b = np.asarray(b)
    if a.shape != b.shape:
        return False
    return bool(np.max(np.abs(a - b), initial=0.0) <= 1e-9 * max(1.0, scale))


class C15(Prop):
    id = "C15"
    title = "Lindbladian = GKSL generator on the doubled space"
    design_ref = "DESIGN.md section 5 / C15"
    rule = ("random symbolic inputs: 1..3 sites of dimension 1..3, 0..4 Hamiltonian terms, 0..3 jump operators on one or "
            "several sites, factors drawn from Hermitian / real / complex-symmetric / real-symmetric / identity / diagonal / "
            "unitary / generic matrices (every labelling shortcut is taken), rational prefactors, symbolic rates, labels "
            "shared between the Hamiltonian and the jump dictionary, bare TensorProducts as jump operators, non-default "
            "ket_suffix / bra_suffix values (12 pairs: short / capitalised, the EMPTY string on the ket or on the bra side "
            "so that one copy keeps the plain site identifiers, suffixes that are prefixes / extensions of each other, the "
            "defaults swapped; only pairs that keep the 2N doubled identifiers distinct); the caller's jump-operator objects "
            "(the list, its tuples, the TensorProducts inside, the operator dictionary and the rate mapping) are compared "
            "after all generations with a fresh construction from the case (a bare entry normalised in place to the "
            "equivalent (1, '1', tp) is accepted), and in half of the cases the caller generates a second time from the "
            "very same objects and that matrix is judged against the GKSL matrix too; caller histories (about 40% of the well-formed cases): the caller owns ONE ndarray per operator label "
            "and ONE dict per mapping, generates Lindbladians for 1..2 earlier sweep points, refills the same objects in place "
            "(contents of any class -> any class, rates changed) and generates again, with the same Hamiltonian object or a new "
            "one around the same buffers; every point of the history is judged by the dense oracle, the last one also by the "
            "model tie; a further generation after the judged one must not change it; malformed stream: labels missing from a dictionary, ket/bra identifier collisions and equal ket and bra suffixes (both empty / both the same string) with at least one jump operator (both sides "
            "must raise the same exception). dense construction: besides the all-tuple list [(sqrt gamma_k, L_k)] every well-formed case "
            "(and every history point) also hands exact_lindbladian the same operators and rates as a list in a random "
            "documented entry format per operator (tuple (c, L), (-c, L), split (c/a, a L), bare array c L / L itself when "
            "gamma = 1; all-tuple, all-bare or mixed lists, C or Fortran layout) in a random order; it is judged against the "
            "same GKSL matrix and the caller's list must stay unchanged. large members (3 per quick run, 24 thorough): 1..6 "
            "sites of dimension 1..5 with total dimension 9..16 (thorough: some 17..32), 2..10 Hamiltonian terms, 2..8 jump "
            "operators, same tie and oracle. non-trivial = at least one term generated; distinct by case content")
    clauses = [
        ("F", "GKSL form: for the model with bug_sign=false, all Hamiltonians, any number of jump operators on any sites "
              "(distinct identifiers per tensor product), any sound classifier flags, rational prefactors, symbolic rates: the "
              "generated terms, read through the generated dictionaries, denote H rho - rho H + i sum_k f_k gamma_k "
              "(L rho L^+ - 1/2 L^+L rho - 1/2 rho L^+L) in every algebra satisfying alg_laws (C15_gksl_form_fixed, "
              "C15_rhs_is_gksl); for either sign and any valuation agreeing with the dictionary assignments: "
              "C15_lindblad_form_any_sign (bug_sign=true: +1/2 on the last term)"),
        ("F", "trace: the GKSL right-hand side and the generated superoperator with the GKSL sign annihilate the trace "
              "(C15_gksl_trace_zero, C15_generated_trace_zero_fixed)"),
        ("F", "closure: every operator label / coefficient name of a generated term is a key of the generated conversion "
              "dictionary / coefficient mapping (C15_label_closure, C15_coeff_closure); the dictionaries do not depend on the "
              "sign variant (C15_dictionaries_sign_independent)"),
        ("F", "symbolic and dense constructions agree under rate = coefficient^2 for equal bug_sign (C15_symbolic_eq_dense)"),
        ("F", "refutation of the current code (known finding C15-anticommutator-sign): d=1, H=0, L=1, gamma=1 over Q(i) satisfies "
              "every hypothesis and the generated superoperator applied to 1 has trace i <> 0; with the GKSL sign it is 0 "
              "(C15_gksl_refuted_current, C15_witness_values); the laws are satisfiable (C15_laws_satisfiable)"),
        ("I", "label freshness hypothesis (functional_tables) holds for every generated case: tables_check evaluated by "
              "vm_compute per case, sufficient by C15_tables_check_sound"),
        ("O", "Hermiticity and trace preservation of expm(-i t L): validated numerically with scipy expm on random density "
              "matrices (proved part: trace annihilation by the generator)"),
        ("V", "the dense matrix of the generated terms (ket sites then bra sites, Kronecker order) equals the GKSL matrix of the "
              "property text; exact_lindbladian equals it too, for the all-tuple list and for a list in mixed documented entry "
              "formats (bare arrays and (coefficient, array) tuples) in a permuted order (all: differential oracle, numpy); also at every point of a "
              "caller history with operator arrays / mappings refilled in place between the generations, for ket / bra "
              "suffixes including the empty string, with the caller's jump-operator objects unchanged afterwards and a "
              "second generation from the same objects giving the same matrix (the model is a "
              "function of the current contents only: state kept by the library between calls is outside the theorems)"),
    ]
    trusted_base = [
        "vectorisation convention: a term K (x) B on ket (x) bra acts on row-major vec(rho) as K rho B^T (checked numerically by the oracle)",
        "abstract algebra hypotheses of SymProofs.v (commutative scalar ring, associative unital operator algebra over it, "
        "transpose/adjoint anti-multiplicative involutions, per-site embeddings are unital multiplicative, commute for "
        "different sites and commute with transpose/conjugate/adjoint, trace linear and cyclic); instantiated by Q(i) in the development",
        "classifier flags are computed by the real _find_*_operators functions and passed to the model; their soundness is "
        "re-checked numerically on every case",
    ]
    assumptions = [
        "operators inside tensor products are symbolic (strings); numeric ndarray factors are outside the model",
        "user labels do not end in the reserved suffixes _T/_conj/_H nor contain _mult_ (otherwise derived entries overwrite "
        "user entries: the model reproduces the dictionaries, the semantic theorem needs a consistent valuation)",
        "a label shared by the Hamiltonian and the jump dictionary denotes the same matrix in both",
    ]

    # -------------------------------------------------------------------------------
    def generate(self, ctx, stream, budget_scale=1):
        rng = ctx.rng(stream)
        n = ctx.scale(70, 500) * budget_scale
        cases = []
        for k in range(n):
            cases.append(self._gen_case(rng, malformed=False))
        for k in range(max(6, n // 10)):
            cases.append(self._gen_case(rng, malformed=True))
        # a few LARGE members: 1..6 sites, site dimensions up to 5, total dimension up to 16 (thorough: some up to 32),
        # up to 10 Hamiltonian terms and up to 8 jump operators
        nlarge = ctx.scale(3, 24) * budget_scale
        for k in range(nlarge):
            # spread over the list: at most one large member per model shard (shards are evaluated in parallel)
            cases.insert(min(len(cases), 5 * k + 2),
                         self._gen_case(rng, malformed=False, large=(32 if (ctx.scale(0, 1) and k % 6 == 5) else 16)))
        return cases

    @staticmethod
    def _witness():
        return {"sites": [["s", 1]], "hterms": [], "hconv": [], "hcoeffs": [["1", [1.0, 0.0]]],
                "jops": [{"bare": False, "frac": [1, 1], "coeff": "g", "tp": [["s", "L"]]}],
                "jdict": [["L", enc(np.eye(1)), "id"]], "jcoeffs": [["g", [1.0, 0.0]]],
                "suffix": ["_ket", "_bra"], "hermitian": True, "seed": 0, "malformed": None}

    def _gen_case(self, rng, malformed, large=0):
        nprs = np.random.RandomState(rng.randrange(2 ** 31))
        while True:
            if large:
                nsites = rng.choice([1, 2, 3, 4, 4, 5, 6])
                dims = [rng.choice([1, 2, 2, 2, 3, 4, 5]) for _ in range(nsites)]
                if large // 2 < int(np.prod(dims)) <= large:
                    break
                continue
            nsites = rng.choice([1, 1, 2, 2, 3])
            dims = [rng.choice([1, 2, 2, 3]) for _ in range(nsites)]
            if int(np.prod(dims)) <= 9:
                break
        names = rng.choice([["s0", "s1", "s2", "s3", "s4", "s5"], ["node1", "node2", "node3", "node4", "node5", "node6"],
                            ["q", "qq", "q_ket", "q_bra", "qqq", "q_"]])
        sites = [[names[i], dims[i]] for i in range(nsites)]
        hermitian = rng.random() < 0.7
        # --- Hamiltonian dictionary and terms
        hconv = []
        hkinds = ["herm", "realsym", "id", "diag"] if hermitian else ["generic", "real", "symc", "herm", "realsym", "id", "unitary"]
        shared = {}
        for d in sorted(set(dims)):
            for j in range(rng.choice([1, 2, 3])):
                kind = rng.choice(hkinds)
                lab = f"A{j}d{d}"
                hconv.append([lab, enc(rand_matrix(nprs, d, kind)), kind])
            if rng.random() < 0.4:   # a label used by both dictionaries (same matrix)
                kind = rng.choice(["herm", "realsym"])
                m = rand_matrix(nprs, d, kind)
                shared[d] = [f"X{d}", enc(m), kind]
                hconv.append(shared[d])
        by_dim = {d: [h[0] for h in hconv if len(h[1]) == d] for d in set(dims)}
        hcoeffs = [["1", [1.0, 0.0]]]
        for g in ["g", "w"]:
            if rng.random() < 0.6:
                hcoeffs.append([g, [rng.choice([-1.5, 0.5, 2.0, 3.0]), 0.0 if hermitian else rng.choice([0.0, 1.0, -0.5])]])
        if rng.random() < 0.15:
            hcoeffs = hcoeffs[1:] + hcoeffs[:1]   # "1" not first in the caller's mapping
        hterms = []
        for _ in range(rng.choice([2, 4, 6, 8, 10]) if large else rng.choice([0, 1, 2, 2, 3, 4])):
            k = rng.randrange(1, nsites + 1)
            ss = rng.sample(range(nsites), k)
            tp = [[sites[s][0], rng.choice(by_dim[dims[s]])] for s in ss]
            fr = Fraction(rng.choice([1, 2, -1, 3, -2, 5]), rng.choice([1, 2, 3, 4]))
            hterms.append([fr.numerator, fr.denominator, rng.choice(hcoeffs)[0], tp])
        # --- jump operators
        jdict = []
        for d in sorted(set(dims)):
            kinds = rng.sample(KINDS, rng.choice([2, 3, 4]))
            for j, kind in enumerate(kinds):
                jdict.append([f"J{j}d{d}", enc(rand_matrix(nprs, d, kind)), kind])
            if d in shared and rng.random() < 0.8:
                jdict.append(list(shared[d]))
        rng.shuffle(jdict)
        jby_dim = {d: [h[0] for h in jdict if len(h[1]) == d] for d in set(dims)}
        jcoeffs = []
        for g in ["gamma", "g", "k1"]:
            if rng.random() < 0.7:
                jcoeffs.append([g, [rng.choice([0.25, 0.5, 1.0, 2.0, 3.0]), 0.0 if (hermitian or rng.random() < 0.7) else rng.choice([1.0, -0.5])]])
        if not jcoeffs:
            jcoeffs.append(["gamma", [0.5, 0.0]])
        jops = []
        for _ in range(rng.choice([2, 3, 4, 5, 6, 8]) if large else rng.choice([0, 1, 1, 2, 2, 3])):
            k = rng.randrange(1, nsites + 1)
            ss = rng.sample(range(nsites), k)
            tp = [[sites[s][0], rng.choice(jby_dim[dims[s]])] for s in ss]
            if rng.random() < 0.15:
                jops.append({"bare": True, "frac": [1, 1], "coeff": "1", "tp": tp})
                if "1" not in [c[0] for c in jcoeffs]:
                    jcoeffs.append(["1", [1.0, 0.0]])
            else:
                fr = Fraction(rng.choice([1, 1, 2, 3, 5]), rng.choice([1, 2, 3, 4]))
                jops.append({"bare": False, "frac": [fr.numerator, fr.denominator], "coeff": rng.choice(jcoeffs)[0], "tp": tp})
        suffix = self._gen_suffix(rng, [s for s, _ in sites])
        case = {"sites": sites, "hterms": hterms, "hconv": hconv, "hcoeffs": hcoeffs, "jops": jops, "jdict": jdict,
                "jcoeffs": jcoeffs, "suffix": suffix, "hermitian": hermitian, "seed": rng.randrange(10 ** 6), "malformed": None,
                "history": None, "large": bool(large), "dense": self._gen_dense(rng, len(jops))}
        if malformed:
            kind = rng.choice(["hlabel", "jlabel", "collision", "samesuffix"])
            if kind == "hlabel":
                if not case["hterms"]:
                    case["hterms"].append([1, 1, "1", [[sites[0][0], "nolabel"]]])
                else:
                    rng.choice(case["hterms"])[3][0][1] = "nolabel"
            elif kind == "jlabel":
                if not case["jops"]:
                    case["jops"].append({"bare": False, "frac": [1, 2], "coeff": jcoeffs[0][0], "tp": [[sites[0][0], "nolabel"]]})
                else:
                    rng.choice(case["jops"])["tp"][-1][1] = "nolabel"
            elif kind == "samesuffix":
                # ket and bra copies get the same identifiers (both suffixes empty, or equal): every jump operator collides
                s_ = rng.choice(["", "", "_ket", "_bra"])
                case["suffix"] = [s_, s_]
                if not case["jops"]:
                    case["jops"].append({"bare": False, "frac": [1, 2], "coeff": jcoeffs[0][0],
                                         "tp": [[sites[0][0], jby_dim[dims[0]][0]]]})
                    case["dense"] = self._gen_dense(rng, 1)
            else:
                # "a"+"bc" == "ab"+"c": the ket copy of one site is the bra copy of another
                d0 = 2
                case["sites"] = [["a", d0], ["ab", d0]]
                lab = [f"J0d{d0}", enc(rand_matrix(nprs, d0, "generic")), "generic"]
                case["jdict"] = [lab]
                case["hterms"] = []
                case["jops"] = [{"bare": False, "frac": [1, 1], "coeff": jcoeffs[0][0], "tp": [["a", lab[0]], ["ab", lab[0]]]}]
                case["suffix"] = ["bc", "c"]
            case["malformed"] = kind
        elif rng.random() < 0.4:
            case["history"] = self._gen_history(rng, nprs, case)
        return case

    SUFFIXES = [["_ket", "_bra"], ["_ket", "_bra"], ["_k", "_b"], ["K", "Bra"],
                # the optional keywords at further values: one of the two copies keeps the plain site identifiers
                # (empty suffix), suffixes that are prefixes / extensions of each other, a suffix equal to a default of the
                # other side
                ["", "_bra"], ["", "_bra"], ["_ket", ""], ["", "*"], ["'", ""], ["_ket", "_ket_bra"], ["_k_b", "_b"],
                ["_bra", "_ket"]]

    @staticmethod
    def _gen_suffix(rng, names):
        """a (ket_suffix, bra_suffix) pair for which the 2N doubled identifiers are pairwise distinct (what the caller has
        to guarantee; a pair that makes two of them equal belongs to the malformed stream)"""
        while True:
            ks, bs = rng.choice(C15.SUFFIXES)
            ids = [s + ks for s in names] + [s + bs for s in names]
            if len(set(ids)) == len(ids):
                return [ks, bs]

    DENSE_FORMATS = ["tuple", "negtuple", "split", "bare"]

    @staticmethod
    def _gen_dense(rng, njops):
        """The format of the list handed to the dense construction exact_lindbladian(H, List[ndarray | tuple[float, ndarray]]):
        every jump operator k with rate gamma_k is given in one of the documented entry formats
          tuple    (c, L)      with c = sqrt(gamma)          rate c^2 = gamma
          negtuple (-c, L)                                   rate (-c)^2 = gamma
          split    (c/a, a L)  with a real scale a           rate (c/a)^2, operator a L: the same GKSL term
          bare     c L         (no coefficient: rate 1)      needs gamma real >= 0; the array L itself if gamma = 1
        and the entries are listed in a random order (the sum over k does not depend on it).  mode: all entries tuples,
        all bare, or mixed formats."""
        mode = rng.choice(["tuple", "bare", "mixed", "mixed", "mixed"])
        fmts = []
        for _ in range(njops):
            f = mode if mode != "mixed" else rng.choice(C15.DENSE_FORMATS + ["bare", "tuple"])
            fmts.append([f, rng.choice([0.5, 2.0, -2.0, 4.0]), rng.choice(["C", "C", "F"])])
        order = list(range(njops))
        if rng.random() < 0.7:
            rng.shuffle(order)
        return {"formats": fmts, "order": order}

    @staticmethod
    def _dense_list(dense, Ls, gammas):
        """the list for exact_lindbladian in the format of case["dense"] and its description (effective formats in list order)"""
        out, desc = [], []
        for k in dense["order"]:
            f, a, layout = dense["formats"][k]
            L, g = Ls[k], complex(gammas[k])
            c = np.sqrt(g)
            c = float(c.real) if c.imag == 0 else c
            if f == "bare" and not (g.imag == 0 and g.real >= 0):
                f = "tuple"            # a bare entry has rate 1: a rate that is not real >= 0 cannot be absorbed into L
            arr = np.asfortranarray if layout == "F" else np.ascontiguousarray
            if f == "tuple":
                out.append((c, arr(L)))
            elif f == "negtuple":
                out.append((-c, arr(L)))
            elif f == "split":
                out.append((c / a, arr(a * L)))
            else:
                out.append(arr(L) if g == 1 else arr(c * L))
            desc.append(f"{f}[jump {k}, coefficient {out[-1][0] if isinstance(out[-1], tuple) else 'none'}]")
        return out, desc

    @staticmethod
    def _gammas(case):
        jco = {c[0]: cplx(c[1]) for c in case["jcoeffs"]}
        return [(j["frac"][0] / j["frac"][1]) * (1 if j["bare"] else jco.get(j["coeff"], 1)) for j in case["jops"]]

    @staticmethod
    def _dense_plan(case):
        """effective entry formats of the dense list, in list order: [(format, coefficient is +-1)]"""
        dense = case.get("dense")
        if not dense:
            return []
        gs = C15._gammas(case)
        plan = []
        for k in dense["order"]:
            f, a, _ = dense["formats"][k]
            g = complex(gs[k])
            if f == "bare" and not (g.imag == 0 and g.real >= 0):
                f = "tuple"
            c = np.sqrt(g) / (a if f == "split" else 1)
            plan.append((f, f == "bare" or c in (1, -1)))
        return plan

    @staticmethod
    def _gen_history(rng, nprs, case):
        """A caller-side history (parameter sweep with preallocated buffers): the caller owns ONE ndarray per operator label
        and ONE dictionary per mapping, generates Lindbladians for 1..2 earlier sweep points, refills the SAME array / dict
        objects in place (buf[...] = new content, mapping[name] = new value) and then generates the Lindbladian of this
        case.  Every point of the sweep is judged.  The earlier contents are drawn from all matrix classes, so a refill can
        move a label from any labelling shortcut to any other (symmetric <-> non-symmetric, real <-> complex,
        Hermitian <-> generic, identity <-> non-identity)."""
        mats = {}
        for lab, m, kind in case["hconv"] + case["jdict"]:
            mats.setdefault(lab, (m, kind))
        points = []
        for _ in range(rng.choice([1, 1, 2])):
            content = {}
            for lab, (m, kind) in mats.items():
                if rng.random() < 0.2:
                    content[lab] = [m, kind]                      # this buffer is not touched between the two points
                else:
                    k2 = rng.choice(KINDS)
                    content[lab] = [enc(rand_matrix(nprs, len(m), k2)), k2]
            pt = {"hconv": [[h[0]] + content[h[0]] for h in case["hconv"]],
                  "jdict": [[h[0]] + content[h[0]] for h in case["jdict"]],
                  "hcoeffs": [[c[0], c[1] if (c[0] == "1" or rng.random() < 0.5) else [rng.choice([-1.5, 0.5, 2.0, 3.0]), 0.0]]
                              for c in case["hcoeffs"]],
                  "jcoeffs": [[c[0], c[1] if (c[0] == "1" or rng.random() < 0.5) else [rng.choice([0.25, 0.5, 1.0, 2.0, 3.0]), 0.0]]
                              for c in case["jcoeffs"]]}
            points.append(pt)
        # same_ham: the Hamiltonian object (holding the caller's dictionaries) is reused for every point;
        # otherwise a new Hamiltonian is built around the same buffers for every point
        return {"points": points, "same_ham": rng.random() < 0.5}

    @staticmethod
    def _point_case(case, pt):
        """the case description of an earlier sweep point (same terms / jump operators, the contents of that point)"""
        c = dict(case)
        c.update(hconv=pt["hconv"], jdict=pt["jdict"], hcoeffs=pt["hcoeffs"], jcoeffs=pt["jcoeffs"], history=None)
        return c

    def nontrivial(self, case):
        return bool(case["hterms"] or case["jops"])

    def distribution(self, cases):
        from collections import Counter
        c = Counter()
        for x in cases:
            c["sites:%d" % len(x["sites"])] += 1
            c["jumps:%d" % len(x["jops"])] += 1
            c["hterms:%d" % len(x["hterms"])] += 1
            c["malformed:%s" % x["malformed"]] += 1
            if not x["malformed"]:
                ks, bs = x["suffix"]
                c["suffixes: " + ("default" if [ks, bs] == ["_ket", "_bra"] else "ket_suffix empty" if ks == "" else
                                  "bra_suffix empty" if bs == "" else "other non-default")] += 1
                if ks == "" and x["jops"]:
                    c["suffixes: ket_suffix empty with at least one jump operator"] += 1
                if bs == "" and x["jops"]:
                    c["suffixes: bra_suffix empty with at least one jump operator"] += 1
                c["second generation from the same objects judged"] += bool(x.get("again", x["seed"] % 2 == 0))
            c["multi-site jump"] += any(len(j["tp"]) > 1 for j in x["jops"])
            for j in x["jops"]:
                kinds = {l[0]: l[2] for l in x["jdict"]}
                for s, l in j["tp"]:
                    c["jump factor:" + kinds.get(l, "?")] += 1
            c["large member (1..6 sites of dimension 1..5 / total dimension 9..32 / up to 10 terms, 8 jump operators)"] += bool(x.get("large"))
            if x.get("large"):
                c["large: total dimension %d" % int(np.prod([d for _, d in x["sites"]]))] += 1
            plan = self._dense_plan(x) if not x["malformed"] else []
            if plan:
                fs = {f for f, _ in plan}
                c["dense list: " + ("all bare" if fs == {"bare"} else "all tuples" if "bare" not in fs else "bare and tuple entries mixed")] += 1
                c["dense list: order permuted"] += x["dense"]["order"] != sorted(x["dense"]["order"])
                for (fa, ua), (fb, ub) in zip(plan, plan[1:]):
                    if fb == "bare" and fa != "bare":
                        c["dense list: bare entry directly after a tuple with coefficient %s" % ("+-1" if ua else "not +-1")] += 1
                    if fa == "bare" and fb != "bare":
                        c["dense list: tuple entry directly after a bare entry"] += 1
                for f, _ in plan:
                    c["dense entry:" + f] += 1
            hist = x.get("history")
            if hist:
                c["history: earlier sweep points on the same buffers:%d" % len(hist["points"])] += 1
                c["history: same Hamiltonian object reused" if hist["same_ham"] else "history: new Hamiltonian around the same buffers"] += 1
                used_h = {l for t in x["hterms"] for _, l in t[3]}
                used_j = {l for j in x["jops"] for _, l in j["tp"]}
                seq = hist["points"] + [x]
                for a, b in zip(seq, seq[1:]):
                    for which, used in (("hconv", used_h), ("jdict", used_j)):
                        for ha, hb in zip(a[which], b[which]):
                            if ha[0] not in used:
                                continue
                            ca, cb = self._classes(ha[1]), self._classes(hb[1])
                            for name, fa, fb in zip(("symmetric", "real", "hermitian", "identity"), ca, cb):
                                if fa != fb:
                                    c["history: refill of a used %s label %s -> %s" % (
                                        "Hamiltonian" if which == "hconv" else "jump", name if fa else "non-" + name,
                                        name if fb else "non-" + name)] += 1
        return dict(c)

    @staticmethod
    def _classes(m):
        a = np.array([[complex(x[0], x[1]) for x in row] for row in m])
        return (bool(np.array_equal(a, a.T)), bool(np.all(a.imag == 0)), bool(np.array_equal(a, a.conj().T)),
                bool(np.array_equal(a, np.eye(len(a)))))

    def sample_repr(self, case):
        c = dict(case)
        c["hconv"] = [[h[0], h[2]] for h in case["hconv"]]
        c["jdict"] = [[h[0], h[2]] for h in case["jdict"]]
        if case.get("history"):
            c["history"] = {"same_ham": case["history"]["same_ham"],
                            "points": [{"hconv": [[h[0], h[2]] for h in pt["hconv"]], "jdict": [[h[0], h[2]] for h in pt["jdict"]],
                                        "hcoeffs": pt["hcoeffs"], "jcoeffs": pt["jcoeffs"]} for pt in case["history"]["points"]]}
        return c

    # -------------------------------------------------------------------------------
    @staticmethod
    def _inputs(case):
        hconv = {h[0]: dec(h[1]) for h in case["hconv"]}
        hco = {c[0]: (cplx(c[1]) if c[1][1] != 0 else c[1][0]) for c in case["hcoeffs"]}
        jdict = {h[0]: dec(h[1]) for h in case["jdict"]}
        jco = {c[0]: (cplx(c[1]) if c[1][1] != 0 else c[1][0]) for c in case["jcoeffs"]}
        return hconv, hco, jdict, jco

    @staticmethod
    def _jsym_table(jdict, find_sym):
        """_find_symmetric_operators on every value jop_conv_dict can hold, keyed by the symbolic value"""
        table = []
        for lab, m in jdict.items():
            b = ("B", "SJump", lab)
            for e in (b, ("MH", b), ("Mul", ("MH", b), b), ("Mul", b, b)):
                val = eval_mexp(e, {}, jdict)
                table.append((e, bool(find_sym({"x": val})["x"])))
        return table

    @staticmethod
    def _dense_of_terms(case, lind):
        """dense matrix of the generated terms: ket sites then bra sites"""
        sites = case["sites"]
        ks, bs = case["suffix"]
        order = [(s + ks, d) for s, d in sites] + [(s + bs, d) for s, d in sites]
        D = int(np.prod([d for _, d in sites]))
        Lg = np.zeros((D * D, D * D), dtype=complex)
        known = {k for k, _ in order}
        for fr, c, tp in lind.terms:
            m = np.ones((1, 1))
            if any(k not in known for k in tp):
                raise KeyError(f"identifier {[k for k in tp if k not in known]} is no ket/bra copy of a site")
            for k, d in order:
                m = np.kron(m, lind.conversion_dictionary[tp[k]] if k in tp else np.eye(d))
            Lg = Lg + float(fr) * lind.coeffs_mapping[c] * m
        return Lg

    def _dense_exact(self, case, ob):
        """the dense construction on the operators named by the inputs, rate = coefficient^2"""
        from pytreenet.operators.exact_operators import exact_lindbladian
        try:
            H, Ls, gammas = self._dense_inputs(case)
            cs = [np.sqrt(complex(g)) for g in gammas]
            cs = [c.real if c.imag == 0 else c for c in cs]
            ob["L_exact"] = exact_lindbladian(H, [(c, L) for c, L in zip(cs, Ls)])
        except Exception as e:  # noqa
            ob["exact_exception"] = f"{type(e).__name__}: {e}"
            return
        if case.get("dense") and not case["malformed"]:
            # the same operators and rates in the list format of case["dense"] (mixed documented entry formats, list order)
            try:
                lst, desc = self._dense_list(case["dense"], Ls, gammas)
                ob["fmt_desc"] = "[" + ", ".join(desc) + "]"
                keep = [(x[0], x[1].copy()) if isinstance(x, tuple) else x.copy() for x in lst]
                ob["L_exact_fmt"] = exact_lindbladian(H, lst)
                same = len(lst) == len(keep) and all(
                    (isinstance(x, tuple) and x[0] == y[0] and np.array_equal(x[1], y[1])) or
                    (not isinstance(x, tuple) and not isinstance(y, tuple) and np.array_equal(x, y)) for x, y in zip(lst, keep))
                if not same:
                    ob["exact_exception"] = "exact_lindbladian modified the caller's list of jump operators " + ob["fmt_desc"]
            except Exception as e:  # noqa
                ob["exact_exception"] = f"{type(e).__name__}: {e} (list format {ob.get('fmt_desc')})"

    @staticmethod
    def _make_terms(case):
        hterms = [(Fraction(t[0], t[1]), t[2], TensorProduct(dict(map(tuple, t[3])))) for t in case["hterms"]]
        jops = []
        for j in case["jops"]:
            tp = TensorProduct(dict(map(tuple, j["tp"])))
            jops.append(tp if j["bare"] else (Fraction(*j["frac"]), j["coeff"], tp))
        return hterms, jops

    def _run_history(self, case, lb):
        """Runs the earlier sweep points of case["history"] on caller-owned buffers; returns the live objects
        (hconv, hco, jdict, jco, ham) refilled IN PLACE with the contents of the case itself, and the observations of the
        earlier points."""
        hist = case["history"]
        pcases = [self._point_case(case, pt) for pt in hist["points"]] + [case]
        contents = [self._inputs(pc) for pc in pcases]
        # one buffer per label; a label of both dictionaries with the same content is ONE array put into both
        def buf(ms):
            return np.zeros(ms[0].shape, dtype=complex if any(np.iscomplexobj(m) for m in ms) else float)
        hconv = {lab: buf([c[0][lab] for c in contents]) for lab in contents[-1][0]}
        jdict = {}
        for lab in contents[-1][2]:
            if lab in hconv and all(c[0][lab].shape == c[2][lab].shape and np.array_equal(c[0][lab], c[2][lab]) for c in contents):
                jdict[lab] = hconv[lab]
            else:
                jdict[lab] = buf([c[2][lab] for c in contents])
        hco, jco = {}, {}
        ham = None
        prev = []
        for k, (pc, (c_h, c_hco, c_j, c_jco)) in enumerate(zip(pcases, contents)):
            for lab, m in c_h.items():
                hconv[lab][...] = m
            for lab, m in c_j.items():
                jdict[lab][...] = m
            for name, v in c_hco.items():
                hco[name] = v
            for name, v in c_jco.items():
                jco[name] = v
            if ham is None or not hist["same_ham"]:
                hterms, jops = self._make_terms(case)
                ham = Hamiltonian(hterms, hconv, hco)
            if pc is case:
                break
            po = {}
            try:
                lind = lb.generate_lindbladian(ham, jops, jdict, jco, ket_suffix=case["suffix"][0], bra_suffix=case["suffix"][1])
                po["L_gen"] = self._dense_of_terms(case, lind)
            except Exception as e:  # noqa
                po["exception"] = f"{type(e).__name__}: {str(e)[:200]}"
            self._dense_exact(pc, po)
            prev.append(po)
        return hconv, hco, jdict, jco, ham, jops, prev

    def _one(self, case):
        from pytreenet.operators import lindbladian as lb
        ref_hconv, ref_hco, ref_jdict, ref_jco = self._inputs(case)
        ob = {}
        if case.get("history"):
            # the caller's live buffers / mappings, refilled in place after the earlier sweep points
            hconv, hco, jdict, jco, ham, jops, ob["prev"] = self._run_history(case, lb)
            call_jdict, call_jco = jdict, jco
        else:
            hconv, hco, jdict, jco = ref_hconv, ref_hco, ref_jdict, ref_jco
            ref_hconv, ref_hco, ref_jdict, ref_jco = self._inputs(case)
            hterms, jops = self._make_terms(case)
            ham = Hamiltonian(hterms, dict(hconv), dict(hco))
            call_jdict, call_jco = dict(jdict), dict(jco)
        # classifier flags from the real functions
        ob["h_sym"] = [[k, bool(v)] for k, v in lb._find_symmetric_operators(hconv).items()]
        real = lb._find_real_operators(jdict)
        herm = lb._find_hermitian_operators(jdict)
        idd = lb._find_identity_operators(jdict)
        ob["j_flags"] = [[k, bool(real[k]), bool(herm[k]), bool(idd[k])] for k in jdict]
        ob["j_sym"] = self._jsym_table(jdict, lb._find_symmetric_operators)
        # the call
        try:
            lind = lb.generate_lindbladian(ham, jops, call_jdict, call_jco, ket_suffix=case["suffix"][0], bra_suffix=case["suffix"][1])
        except Exception as e:  # noqa
            ob["exception"] = type(e).__name__
            ob["exception_msg"] = str(e)[:200]
            ob["tb"] = traceback.format_exc()[-1200:]
            return ob
        if case.get("sweep", case["seed"] % 3 == 0):
            # a parameter sweep: ANOTHER Lindbladian generated from the same Hamiltonian object with other rates and other
            # jump matrices under the same labels must not change the first one (read only afterwards)
            try:
                lb.generate_lindbladian(ham, jops, {k: 2.0 * v + 1.0 for k, v in jdict.items()},
                                        {k: (v + 1.0 if k != "1" else v) for k, v in jco.items()},
                                        ket_suffix=case["suffix"][0], bra_suffix=case["suffix"][1])
            except Exception:  # noqa
                pass
            ob["swept"] = True
        ob["terms"] = [[Fraction(t[0]), t[1], [[k, v] for k, v in t[2].items()]] for t in lind.terms]
        ob["conv_keys"] = list(lind.conversion_dictionary.keys())
        ob["conv"] = {k: np.asarray(v) for k, v in lind.conversion_dictionary.items()}
        ob["coeff_keys"] = list(lind.coeffs_mapping.keys())
        ob["coeffs"] = {k: complex(v) for k, v in lind.coeffs_mapping.items()}
        # the caller's jump-operator objects (the list, its tuples, the TensorProducts inside, the two dictionaries) after
        # all generations, against a fresh construction from the case description
        ob["jump_inputs_changed"] = self._jump_inputs_changed(case, jops, call_jdict, call_jco, ref_jdict, ref_jco)
        if case.get("again", case["seed"] % 2 == 0):
            # the caller generates once more from the very same objects: the same superoperator has to come out
            try:
                lind2 = lb.generate_lindbladian(ham, jops, call_jdict, call_jco, ket_suffix=case["suffix"][0], bra_suffix=case["suffix"][1])
                ob["L_gen_again"] = self._dense_of_terms(case, lind2)
            except Exception as e:  # noqa
                ob["again_exception"] = f"{type(e).__name__}: {str(e)[:200]}"
        ob["inputs_untouched"] = bool(list(ham.conversion_dictionary) == list(ref_hconv) and len(ham.terms) == len(case["hterms"])
                                      and list(ham.coeffs_mapping.items()) == list(ref_hco.items())
                                      and all(np.array_equal(ham.conversion_dictionary[k], ref_hconv[k]) for k in ref_hconv))
        try:
            ob["L_gen"] = self._dense_of_terms(case, lind)
        except Exception as e:  # noqa
            ob["dense_exception"] = f"{type(e).__name__}: {e}"
        self._dense_exact(case, ob)
        return ob

    @staticmethod
    def _jump_inputs_changed(case, jops, call_jdict, call_jco, ref_jdict, ref_jco):
        """None if the objects the caller handed in as jump operators still say what the case says, else what differs"""
        if not isinstance(jops, list) or len(jops) != len(case["jops"]):
            return f"the list of jump operators now has {len(jops) if isinstance(jops, list) else type(jops).__name__} entries"
        for k, (j, cur) in enumerate(zip(case["jops"], jops)):
            want_tp = [tuple(x) for x in j["tp"]]
            if j["bare"] and not isinstance(cur, tuple):
                tp = cur
            else:
                # (a bare TensorProduct entry may have been normalised in place to the equivalent term (1, "1", tp): it still
                # denotes the same jump operator with rate 1, judged like a term with frac 1 / coeff "1")
                if not (isinstance(cur, tuple) and len(cur) == 3 and cur[0] == Fraction(*j["frac"]) and cur[1] == j["coeff"]):
                    return f"jump operator {k}: prefactor / rate name now {cur[:2] if isinstance(cur, tuple) else cur!r}"
                tp = cur[2]
            if not isinstance(tp, TensorProduct) or list(tp.items()) != want_tp:
                return (f"jump operator {k}: the caller's TensorProduct was {dict(want_tp)} and is now "
                        f"{dict(tp) if isinstance(tp, TensorProduct) else tp!r}")
        if list(call_jdict) != list(ref_jdict) or any(
                np.shape(call_jdict[k]) != np.shape(ref_jdict[k]) or not np.array_equal(call_jdict[k], ref_jdict[k]) for k in ref_jdict):
            return f"the caller's jump operator dictionary now has keys {list(call_jdict)} / other matrices"
        if list(call_jco.items()) != list(ref_jco.items()):
            return f"the caller's rate mapping is now {call_jco}"
        return None

    @staticmethod
    def _dense_inputs(case):
        """H, [L_k], [gamma_k] from the case description alone (no library code)."""
        hconv, hco, jdict, jco = C15._inputs(case)
        sites = case["sites"]
        D = int(np.prod([d for _, d in sites]))

        def kron_tp(tp, conv):
            tp = dict(map(tuple, tp))
            m = np.ones((1, 1))
            for s, d in sites:
                m = np.kron(m, conv[tp[s]] if s in tp else np.eye(d))
            return m
        H = np.zeros((D, D), dtype=complex)
        for n_, d_, c, tp in case["hterms"]:
            H = H + (n_ / d_) * hco[c] * kron_tp(tp, hconv)
        Ls, gammas = [], []
        for j in case["jops"]:
            Ls.append(kron_tp(j["tp"], jdict))
            gammas.append((j["frac"][0] / j["frac"][1]) * (1 if j["bare"] else jco[j["coeff"]]))
        return H, Ls, gammas

    def impl(self, ctx, cases):
        out = []
        for c in cases:
            try:
                out.append(self._one(c))
            except Exception as e:  # noqa
                out.append({"harness_exception": f"{type(e).__name__}: {e}", "tb": traceback.format_exc()[-1500:]})
        return out

    # -------------------------------------------------------------------------------
    def _coq_input(self, case, ob):
        def term(t):
            return f"({coq_q(Fraction(t[0], t[1]))}, {coq_string(t[2])}, {coq_tp(t[3])})"

        def jin(j):
            if j["bare"]:
                return f"(JTP {coq_tp(j['tp'])})"
            return f"(JTerm {coq_q(Fraction(*j['frac']))} {coq_string(j['coeff'])} {coq_tp(j['tp'])})"
        fields = [
            "h_terms := " + coq_list(case["hterms"], term),
            "h_conv := " + coq_list(ob["h_sym"], lambda kv: f"({coq_string(kv[0])}, {coq_bool(kv[1])})"),
            "h_coeffs := " + coq_list([c[0] for c in case["hcoeffs"]], coq_string),
            "j_ops := " + coq_list(case["jops"], jin),
            "j_dict := " + coq_list(ob["j_flags"], lambda f: f"({coq_string(f[0])}, {{| f_real := {coq_bool(f[1])}; f_herm := {coq_bool(f[2])}; f_id := {coq_bool(f[3])} |}})"),
            "j_coeffs := " + coq_list([c[0] for c in case["jcoeffs"]], coq_string),
            "j_sym := " + coq_list(ob["j_sym"], lambda eb: f"({coq_mexp(eb[0])}, {coq_bool(eb[1])})"),
            "ket_suffix := " + coq_string(case["suffix"][0]),
            "bra_suffix := " + coq_string(case["suffix"][1]),
        ]
        return "{| " + "; ".join(fields) + " |}"

    def model(self, ctx, cases, obs):
        exprs, idx = [], []
        for i, (c, ob) in enumerate(zip(cases, obs)):
            if "harness_exception" in ob:
                continue
            inp = self._coq_input(c, ob)
            # the dictionaries do not depend on bug_sign: only the term list of the second variant is printed
            # (coq_eval reads coqc's output through a pipe: a shard has to stay below the pipe buffer)
            exprs.append(f"(let i := {inp} in (generate true i, "
                         "match generate false i with Ok r => Some (fst (fst r)) | _ => None end, "
                         "tables_check true i && tables_check false i))")
            idx.append(i)
        vals = coq_eval(ctx, IMPORTS, exprs, shard=5)
        out = [None] * len(cases)
        for i, v in zip(idx, vals):
            out[i] = v
        return out

    @staticmethod
    def _norm_model(m):
        """parsed `result` value -> ("Ok", terms, conv, coeffs) | ("KeyError", k) | ("ValueError",)"""
        m = unat(m)
        if m == "ValueError":
            return ("ValueError",)
        if m[0] == "KeyError":
            return ("KeyError", m[1])
        assert m[0] == "Ok", m
        terms, conv, coeffs = m[1]
        terms = [[Fraction(t[0]), t[1], [[k, v] for k, v in t[2]]] for t in terms]
        return ("Ok", terms, [(k, parse_mexp(v)) for k, v in conv], list(coeffs))

    def _cmp_one(self, case, ob, m):
        """None if the implementation's observation equals this model result"""
        if m[0] != "Ok":
            if "exception" not in ob:
                return f"model raises {m[0]} where the implementation returns"
            if ob["exception"] != m[0]:
                return f"implementation raised {ob['exception']}, model {m[0]}"
            return None
        if "exception" in ob:
            return f"implementation raised {ob['exception']}: {ob['exception_msg']} where the model returns"
        _, terms, conv, coeffs = m
        if len(terms) != len(ob["terms"]):
            return f"{len(ob['terms'])} terms, model {len(terms)}"
        for j, (a, b) in enumerate(zip(ob["terms"], terms)):
            if a[0] != b[0]:
                return f"term {j}: fraction {a[0]} model {b[0]}"
            if a[1] != b[1]:
                return f"term {j}: coefficient {a[1]!r} model {b[1]!r}"
            if a[2] != b[2]:
                return f"term {j}: tensor product {a[2]} model {b[2]}"
        if ob["conv_keys"] != [k for k, _ in conv]:
            return f"conversion dictionary keys {ob['conv_keys']} model {[k for k, _ in conv]}"
        if ob["coeff_keys"] != [k for k, _ in coeffs]:
            return f"coefficient keys {ob['coeff_keys']} model {[k for k, _ in coeffs]}"
        hconv, hco, jdict, jco = self._inputs(case)
        for k, e in conv:
            ref = eval_mexp(e, hconv, jdict)
            got = ob["conv"][k]
            if ref.shape != got.shape or not np.array_equal(ref, got):
                return f"conversion dictionary entry {k!r} is not {e}"
        for k, e in coeffs:
            if complex(eval_cexp(e, hco, jco)) != ob["coeffs"][k]:
                return f"coefficient entry {k!r} = {ob['coeffs'][k]} is not {e}"
        return None

    def _shared_labels_agree(self, case):
        hconv, hco, jdict, jco = self._inputs(case)
        for k in hconv:
            if k in jdict and not (hconv[k].shape == jdict[k].shape and np.array_equal(hconv[k], jdict[k])):
                return f"generator: label {k} denotes different matrices in the two dictionaries"
        if "1" in hco and hco["1"] != 1:
            return "generator: the Hamiltonian maps the coefficient name '1' to a value other than 1"
        return None

    def _flag_soundness(self, case, ob):
        hconv, hco, jdict, jco = self._inputs(case)
        tol = 1e-4
        for k, b in ob["h_sym"]:
            if b and not np.allclose(hconv[k], hconv[k].T, rtol=tol, atol=1e-8):
                return f"symmetric flag of Hamiltonian label {k} is unsound"
        for k, re_, he, idf in ob["j_flags"]:
            m = jdict[k]
            if re_ and not np.allclose(m, m.conj(), rtol=tol, atol=1e-8):
                return f"real flag of {k} is unsound"
            if he and not np.allclose(m, m.conj().T, rtol=tol, atol=1e-8):
                return f"hermitian flag of {k} is unsound"
            if idf and not np.allclose(m, np.eye(len(m)), rtol=tol, atol=1e-8):
                return f"identity flag of {k} is unsound"
        for e, b in ob["j_sym"]:
            v = eval_mexp(e, {}, jdict)
            if b and not np.allclose(v, v.T, rtol=tol, atol=1e-8):
                return f"symmetric flag of {e} is unsound"
        for k, re_, he, idf in ob["j_flags"]:
            if idf and not he:
                return f"{k} is flagged as identity but not as Hermitian (hypothesis of sound_flags)"
        # completeness on the exactly representable test matrices: a shortcut that is available is taken
        for k, b in ob["h_sym"]:
            if not b and np.array_equal(hconv[k], hconv[k].T):
                return f"symmetric flag of Hamiltonian label {k} is false on an exactly symmetric matrix"
        for k, re_, he, idf in ob["j_flags"]:
            m = jdict[k]
            if (re_, he, idf) != (bool(np.all(np.imag(m) == 0)), bool(np.array_equal(m, m.conj().T)), bool(np.array_equal(m, np.eye(len(m))))):
                return f"real/hermitian/identity flags of {k} = {(re_, he, idf)} do not match the (exactly representable) matrix"
        return None

    def compare(self, case, ob, mo):
        if "harness_exception" in ob:
            return "harness error: " + ob["harness_exception"]
        d = self._flag_soundness(case, ob)
        if d:
            return d
        m_true = self._norm_model(mo[0])
        m_false = m_true
        if m_true[0] == "Ok":
            alt = unsome(mo[1])
            if alt is None:
                return "model: generate false fails where generate true returns"
            m_false = ("Ok", [[Fraction(t[0]), t[1], [[k, v] for k, v in t[2]]] for t in alt], m_true[2], m_true[3])
        if m_true[0] == "Ok" and not case["malformed"]:
            # hypotheses of the semantic theorem that the generator promises (label freshness: C15_tables_check_sound)
            if mo[2] is not True:
                return "model: tables_check is false (a label is assigned two different symbolic values): outside the theorem's hypotheses"
            h = self._shared_labels_agree(case)
            if h:
                return h
        d_true = self._cmp_one(case, ob, m_true)
        if d_true is None:
            return None          # the code as recorded (known finding if any product term exists)
        d_false = self._cmp_one(case, ob, m_false)
        if d_false is None:
            return None          # repaired upstream
        return f"neither model variant matches: bug_sign=true: {d_true}; bug_sign=false: {d_false}"

    # -------------------------------------------------------------------------------
    @staticmethod
    def _references(case):
        """GKSL matrix of the property text and the variant with the single sign flipped."""
        H, Ls, gammas = C15._dense_inputs(case)
        D = H.shape[0]
        I = np.eye(D)
        base = np.kron(H, I) - np.kron(I, H.T)
        last = np.zeros_like(base)
        for g, L in zip(gammas, Ls):
            LdL = L.conj().T @ L
            base = base + 1j * g * (np.kron(L, L.conj()) - 0.5 * np.kron(LdL, I))
            last = last + 1j * g * 0.5 * np.kron(I, LdL.T)
        return base - last, base + last, H, gammas

    def oracle(self, case, ob):
        if "harness_exception" in ob:
            return "harness error: " + ob["harness_exception"] + ob.get("tb", "")
        if case["malformed"]:
            if "exception" not in ob:
                return f"malformed input ({case['malformed']}) accepted"
            want = "ValueError" if case["malformed"] in ("collision", "samesuffix") else "KeyError"
            if ob["exception"] != want:
                return f"malformed input ({case['malformed']}) raised {ob['exception']}, expected {want}"
            return None
        if "exception" in ob:
            return (f"generate_lindbladian(ket_suffix={case['suffix'][0]!r}, bra_suffix={case['suffix'][1]!r}) raised "
                    f"{ob['exception']}: {ob['exception_msg']}")
        if "dense_exception" in ob:
            return f"the generated Lindbladian cannot be evaluated: {ob['dense_exception']}"
        if "exact_exception" in ob:
            return f"exact_lindbladian raised {ob['exact_exception']}"
        if not ob["inputs_untouched"]:
            return "generate_lindbladian modified the caller's Hamiltonian"
        if ob.get("jump_inputs_changed"):
            return (f"generate_lindbladian(ket_suffix={case['suffix'][0]!r}, bra_suffix={case['suffix'][1]!r}) modified the "
                    f"caller's jump operators: {ob['jump_inputs_changed']}")
        if "again_exception" in ob:
            return (f"a second generation from the same Hamiltonian / jump operator objects (ket_suffix={case['suffix'][0]!r}, "
                    f"bra_suffix={case['suffix'][1]!r}) raised {ob['again_exception']}")
        # every point of the caller's history is judged: the earlier sweep points (contents of that point), then this case
        points = [(f"history point {k} of {len(ob['prev'])} (before the in-place refill): ", self._point_case(case, pt), po)
                  for k, (pt, po) in enumerate(zip((case.get("history") or {}).get("points", []), ob.get("prev", [])))]
        points.append(("after in-place refills of the caller's operator buffers / mappings: " if case.get("history") else "", case, ob))
        flips, after = [], []
        for prefix, pc, po in reversed(points):
            if "exception" in po:
                return f"{prefix}generate_lindbladian raised {po['exception']}"
            if "exact_exception" in po:
                return f"{prefix}exact_lindbladian raised {po['exact_exception']}"
            bad, fl, gksl, H, gammas = self._matrix_status(pc, po)
            if bad:
                return prefix + bad
            if fl:
                flips.append((prefix, fl, pc, po, gksl))
            after.append((prefix, pc, po, H, gammas))
        if flips:
            prefix, fl, pc, po, gksl = flips[0]
            tr = self._trace_drift(po["L_gen"], pc)
            return (f"[{KNOWN_SIGN}] {' and '.join(fl)}: the matrix equals the GKSL matrix except that the term "
                    f"-1/2 1 (x) (L^dagger L)^T carries +1/2 (max deviation from GKSL "
                    f"{float(np.max(np.abs(po['L_gen'] - gksl))):.3g}); trace of exp(-i t L) rho drifts by {tr:.3g}")
        for prefix, pc, po, H, gammas in after:
            scale = float(np.max(np.abs(po["L_gen"]), initial=1.0))
            if not close(po["L_gen"], po["L_exact"], scale):
                return prefix + "symbolic and dense constructions differ under rate = coefficient^2"
            if "L_exact_fmt" in po and not close(po["L_gen"], po["L_exact_fmt"], scale):
                return prefix + f"symbolic and dense constructions differ under rate = coefficient^2 (dense list {po['fmt_desc']})"
            # consequences, on the matrix of the code: trace and Hermiticity preservation
            d = self._evolution_check(po["L_gen"], pc, H, gammas)
            if d:
                return prefix + d
        return None

    def _matrix_status(self, case, ob):
        """(violation message | None, [constructions that equal GKSL with exactly the known sign flipped], gksl, H, gammas)"""
        gksl, flipped, H, gammas = self._references(case)
        scale = float(np.max(np.abs(gksl), initial=1.0))
        flips = []
        keys = [("generate_lindbladian", "L_gen"), ("exact_lindbladian", "L_exact")]
        if "L_exact_fmt" in ob:
            keys.append((f"exact_lindbladian on the list {ob['fmt_desc']}", "L_exact_fmt"))
        if "L_gen_again" in ob:
            keys.append(("generate_lindbladian called a second time with the same objects", "L_gen_again"))
        for name, key in keys:
            m = ob[key]
            if close(m, gksl, scale):
                continue
            if close(m, flipped, scale):
                flips.append(name)
                continue
            dev = float(np.max(np.abs(m - gksl)))
            return ((f"{name}: matrix differs from the GKSL matrix by {dev:.3g} and is not the variant with only the "
                     f"bra-side anticommutator sign flipped (differs from that by {float(np.max(np.abs(m - flipped))):.3g})"),
                    flips, gksl, H, gammas)
        return None, flips, gksl, H, gammas

    @staticmethod
    def _rho(case):
        D = int(np.prod([d for _, d in case["sites"]]))
        nprs = np.random.RandomState(case["seed"])
        a = nprs.standard_normal((D, D)) + 1j * nprs.standard_normal((D, D))
        rho = a @ a.conj().T
        return rho / np.trace(rho), D

    def _trace_drift(self, L, case):
        from scipy.linalg import expm
        rho, D = self._rho(case)
        r2 = (expm(-1j * 0.3 * L) @ rho.reshape(-1)).reshape(D, D)
        return float(abs(np.trace(r2) - 1))

    def _evolution_check(self, L, case, H, gammas):
        from scipy.linalg import expm
        rho, D = self._rho(case)
        for t in (0.3, 1.1):
            r2 = (expm(-1j * t * L) @ rho.reshape(-1)).reshape(D, D)
            nrm = max(1.0, float(np.max(np.abs(r2))))
            if abs(np.trace(r2) - 1) > 1e-8 * nrm:
                return f"trace not preserved by exp(-i t L): {np.trace(r2)} at t={t}"
            herm_gen = np.allclose(H, H.conj().T) and all(abs(complex(g).imag) == 0 for g in gammas)
            if herm_gen and not np.allclose(r2, r2.conj().T, atol=1e-8 * nrm):
                return f"Hermiticity not preserved by exp(-i t L) at t={t}"
        return None

    def classify(self, case, what, known):
        if what.startswith("tie:"):
            return None
        for kid in known:
            if what.startswith(f"[{kid}]"):
                return kid
        return None
