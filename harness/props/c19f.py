"""C19 extension (ext-C19F): TTNO.from_tensor tied to the store-level model Special/FromTensor.v.

The model program `from_tensor t lg shape dm tb` (Coq, evaluated with vm_compute) is compared with the TTNO
the code returns on every "from_tensor" case of props/c19.py:
  * node dictionary order, parent, children ORDER, leg permutation, recorded raw shape, tensor dictionary
    order, root, raw tensor shapes (exact; QR / SVD bond dimensions are computed by the model, the bond
    dimensions the truncated SVD kept are inputs of the model, read off the code's result);
  * the sequence of kernel calls (spy on tensor_qr_decomposition / tensor_svd / truncated_tensor_svd in the
    namespace of pytreenet.ttno.ttno_class): shape of the factorised tensor, number of Q legs, the leg lists
    (range(ndim - r), range(ndim - r, ndim)) and the bond dimension, against the definitions the model recorded;
  * every raw tensor of the result against the model's diagram: node k holds atom a (the input tensor, or the
    Q / R factor of kernel call j) with the axes in the order of the model's wires (exact array equality:
    the code only transposes the factors);
  * the open legs of every node as axes of the operator (model) against the shape of the operator (dimensions).
Per instance obligations (kernel-checked by vm_compute): ft_hyp (the decidable form of the hypotheses of
C19_from_tensor_structure / _value), wfb, wfsb and ft_result_ok (the conclusion of the structure theorem) on the
model store.  The kernel contract of C19_from_tensor_value (def_holds: Q . R = A) is validated numerically on
every captured kernel call (tolerance 1e-9 relative; for the truncated SVD the code discards singular values
below 1e-10 relative, so the contract holds up to that truncation).
"""
from __future__ import annotations

import contextlib

import numpy as np

from lib import coq_nat, coq_list

IMPORTS = (" From PTN Require Import Wire.Sem TTN.InvSem Special.FromTensor.")

MODES = {"QR": "DQR", "SVD": "DSVD", "tSVD": "DTSVD"}


def nat_list(xs):
    return coq_list(xs, coq_nat)


# ---------------------------------------------------------------------------------------------------
# implementation side: spy on the kernels for the duration of one from_tensor call
# ---------------------------------------------------------------------------------------------------
class KernelSpy(contextlib.AbstractContextManager):
    def __init__(self):
        self.calls = []      # dicts: kind, A, q_legs, r_legs, Q, R

    def __enter__(self):
        import pytreenet.ttno.ttno_class as mod
        self.mod = mod
        self.saved = {n: getattr(mod, n) for n in ("tensor_qr_decomposition", "tensor_svd", "truncated_tensor_svd")}
        spy = self

        def qr(tensor, q_legs, r_legs, *a, **k):
            q, r = spy.saved["tensor_qr_decomposition"](tensor, q_legs, r_legs, *a, **k)
            spy.calls.append({"kind": 0, "A": np.array(tensor), "ql": list(q_legs), "rl": list(r_legs), "Q": np.array(q), "R": np.array(r), "extra": [list(a), sorted(k)]})
            return q, r

        def svd(tensor, u_legs, v_legs, *a, **k):
            u, s, vh = spy.saved["tensor_svd"](tensor, u_legs, v_legs, *a, **k)
            spy.calls.append({"kind": 1, "A": np.array(tensor), "ql": list(u_legs), "rl": list(v_legs), "Q": np.array(u),
                              "R": np.tensordot(np.diag(s), vh, axes=(1, 0)), "extra": [list(a), sorted(k)]})
            return u, s, vh

        def tsvd(tensor, u_legs, v_legs, params, *a, **k):
            u, s, vh = spy.saved["truncated_tensor_svd"](tensor, u_legs, v_legs, params, *a, **k)
            spy.calls.append({"kind": 2, "A": np.array(tensor), "ql": list(u_legs), "rl": list(v_legs), "Q": np.array(u),
                              "R": np.tensordot(np.diag(s), vh, axes=(1, 0)), "extra": [list(a), sorted(k)],
                              "params": [float(params.max_bond_dim), float(params.rel_tol), float(params.total_tol)]})
            return u, s, vh
        mod.tensor_qr_decomposition = qr
        mod.tensor_svd = svd
        mod.truncated_tensor_svd = tsvd
        return self

    def __exit__(self, *exc):
        for n, f in self.saved.items():
            setattr(self.mod, n, f)
        return False


def observe(ttno, spy, T):
    """what the tie needs from one call (kept out of the JSON-able observation: arrays)"""
    calls = []
    viol = None
    for j, c in enumerate(spy.calls):
        A, Q, R = c["A"], c["Q"], c["R"]
        calls.append({"kind": c["kind"], "shape": [int(x) for x in A.shape], "ql": c["ql"], "rl": c["rl"],
                      "bond": int(Q.shape[-1]), "qshape": [int(x) for x in Q.shape], "rshape": [int(x) for x in R.shape]})
        # the kernel contract Q . R = A (legs of A already in the order q_legs + r_legs: checked by the tie)
        try:
            rec = np.tensordot(Q, R, axes=(Q.ndim - 1, 0)).transpose(np.argsort(c["ql"] + c["rl"]))
            err = float(np.max(np.abs(rec - A))) if A.size else 0.0
            scale = max(1.0, float(np.max(np.abs(A)))) if A.size else 1.0
            if err > 1e-9 * scale and viol is None:
                viol = f"kernel call {j} (kind {c['kind']}): Q . R differs from the factorised tensor by {err:.3e}"
        except Exception as e:  # noqa
            if viol is None:
                viol = f"kernel call {j}: factors not contractible ({type(e).__name__}: {e})"
    arrays = {"atoms": [np.array(T)] + [x for c in spy.calls for x in (c["Q"], c["R"])],
              "raw": {k: np.array(v) for k, v in ttno._tensors.data.items()}}
    # bond dimension toward the parent, per node (input of the model for the truncated SVD)
    tb = {}
    for k, nd in ttno.nodes.items():
        if nd.parent is not None:
            raw = ttno._tensors.data[k]
            tb[k] = int(raw.shape[nd.leg_permutation[0]])
    return {"calls": calls, "tb": tb, "contract": viol}, arrays


# ---------------------------------------------------------------------------------------------------
# model side
# ---------------------------------------------------------------------------------------------------
def model_expr(rtree, n, leg, shape, mode, tb):
    """Coq expression evaluated for one case; tb: node number -> bond dimension toward the parent"""
    tbl = [tb.get(i, 0) if mode == "tSVD" else 0 for i in range(n)]
    return ("(let t := " + rtree + " in let lg := (fun i => nth i " + nat_list(leg) + " 0) in let shape := " + nat_list(shape) + " in "
            "(ft_hyp t lg shape, "
            "option_map (fun s => (open_legs s, [wfb s; wfsb s; ft_result_ok t lg (size t) s], "
            "map (fun d => (map (wdim s) (axes (kinput d)), length (atom_wires s (kq d)) - 1, wdim s (kbond d), kkind d)) (defs s), "
            "map obs_tensor (tensors s), atab s, obs_store s)) "
            f"(from_tensor t lg shape {MODES[mode]} (fun i => nth i {nat_list(tbl)} 0))))")


def _perm_between(axes, wires):
    """pi with axes[i] == wires[pi[i]] (wires are distinct)"""
    pos = {w: j for j, w in enumerate(wires)}
    return [pos[w] for w in axes]


def compare(prop, case, ob, mo, arrays, model_store, compare_store):
    """None when model == implementation, else a message; counts the per-instance obligations in prop._inst"""
    hyp, res = mo
    mal = bool(case.get("mal"))
    f = ob.get("f")
    if "error" in ob:
        return None if res is None else f"[ext-C19F] implementation raised {ob['error']} where the store model accepts"
    if res is None:
        return "[ext-C19F] implementation accepts where the store model rejects"
    res = res[1] if isinstance(res, tuple) and res and res[0] == "Some" else res
    open_legs, flags, defs, tens, atab, store = res
    name = (lambda k: ob["names"][int(k)]) if "names" in ob else (lambda k: f"n{k}")   # [str7] edited reference trees: arbitrary identifiers
    # --- per-instance obligations ------------------------------------------------------------------
    for what, flag in (("ft_hyp", hyp), ("wfb", flags[0]), ("wfsb", flags[1]), ("ft_result_ok", flags[2])):
        prop._inst[0] += 1
        if flag is True:
            prop._inst[1] += 1
        else:
            prop._inst[2].append(f"[ext-C19F] {what} = {flag} on {case}")
    # --- structure: dictionary orders, parents, children order, leg permutations, raw shapes --------
    ms = model_store(store, name)
    d = compare_store(ob["snap"], ms)
    if d:
        return "[ext-C19F] " + d
    # --- kernel calls -----------------------------------------------------------------------------
    calls = f["calls"]
    if len(calls) != len(defs):
        return f"[ext-C19F] {len(calls)} kernel calls, model recorded {len(defs)} definitions"
    kind = {"QR": 0, "SVD": 1, "tSVD": 2}[case["mode"]]
    for j, (c, dm) in enumerate(zip(calls, defs)):
        shp, nq, bond, kk = dm
        nd = len(c["shape"])
        want = {"kind": int(kk), "shape": [int(x) for x in shp], "ql": list(range(int(nq))), "rl": list(range(int(nq), nd)), "bond": int(bond)}
        got = {k: c[k] for k in want}
        if got != want or c["kind"] != kind:
            return f"[ext-C19F] kernel call {j}: impl {got} model {want}"
        if c["qshape"] != want["shape"][:int(nq)] + [int(bond)] or c["rshape"] != [int(bond)] + want["shape"][int(nq):]:
            return f"[ext-C19F] kernel call {j}: factor shapes {c['qshape']} / {c['rshape']}"
    # --- every raw tensor = the atom the model says, axes in the order of the model's wires --------
    awires = {int(a): [int(w) for w in ws] for a, ws in atab}
    if arrays is not None:
        for (k, axes, atoms, bnd) in tens:
            if len(atoms) != 1 or len(bnd) != 0:
                return f"[ext-C19F] model tensor of {name(k)} is not a single atom"
            a = int(atoms[0])
            pi = _perm_between([int(w) for w in axes], awires[a])
            ref = arrays["atoms"][a].transpose(pi) if pi else arrays["atoms"][a]
            raw = arrays["raw"][name(k)]
            if raw.shape != ref.shape or not np.array_equal(raw, ref):
                return f"[ext-C19F] raw tensor of {name(k)} is not atom {a} transposed by {pi}"
    # --- open legs: axes of the operator ------------------------------------------------------------
    n = ob.get("n", case["nnodes"])
    shape = ob["shape"]
    byid = {nrec[0]: nrec for nrec in ob["snap"]["nodes"]}
    for k, wires in open_legs:
        wires = [int(w) for w in wires]
        want = [ob["leg"][int(k)], n + ob["leg"][int(k)]]
        if wires != want:
            return f"[ext-C19F] open legs of {name(k)}: model wires {wires}, expected {want}"
        nrec = byid[name(k)]
        nvirt = (1 if nrec[1] is not None else 0) + len(nrec[2])
        logical = [nrec[4][i] for i in nrec[3]]
        if logical[nvirt:] != [shape[w] for w in wires]:
            return f"[ext-C19F] open-leg dimensions of {name(k)}: impl {logical[nvirt:]} operator axes {wires} have {[shape[w] for w in wires]}"
    return None
